------------------------------- MODULE GcImpl -------------------------------
(***************************************************************************)
(* Implementation-shaped model of boa_gc (core/gc/src/lib.rs): handle      *)
(* counting instead of a root set, mark bits, and `Collector::collect`     *)
(* split into the phases of the code.                                      *)
(*                                                                         *)
(*  rc[n]        GcHeader.ref_count of node n: every Gc handle, wherever   *)
(*               it is (mutator, edge vector of a node, ephemeron value)   *)
(*  EB           EphemeronBox table (gc.weaks): WeakGc, Ephemeron and      *)
(*               weak-map entries; data = key/value still present;         *)
(*               rc = handles on the box (0/1); intab = entry still in its *)
(*               map's table; alive = box not yet freed; hr = the          *)
(*               ephemeron box in whose value the (only) handle on this    *)
(*               box lies, 0 if it is held by the mutator / a node / a map *)
(*               (Ephemeron<K, WeakGc<T>>, Ephemeron<K, Ephemeron<..>>);   *)
(*               v = 0: the value holds no Gc handle                       *)
(*  MB           weak maps: the inner GcBox (rc, box), the WeakMapBox      *)
(*               (wmb) and the WeakGc the WeakMapBox keeps on the inner    *)
(*               box (wkrc, wkdata, wkalive)                               *)
(*  gc           collector state: phase, pass (1 = mark, 2 = re-mark),     *)
(*               non_root_counts (only meaningful during a collection),    *)
(*               mark bits (as sets), pending ephemerons, the unreachable  *)
(*               sets of pass 1, finalizer queue, finalize / drop logs     *)
(*                                                                         *)
(* Phases (one action each, in the order of the code):                     *)
(*   StartCollect, TraceNonRoots, MarkStrong (roots = ref_count >          *)
(*   non_root_count, then trace), MarkEphInit (steps 1 and 2 of the weak   *)
(*   mark phase), MarkEphRound (step 3, repeated until no change),         *)
(*   Finalize(n) per unreachable node incl. armed finalizers, FinalizeWeak *)
(*   (finalize_and_clear of pending ephemerons), then the same mark        *)
(*   actions with pass = 2 (re-mark), Sweep, ClearWeakMaps.                *)
(*                                                                         *)
(* Patched = TRUE is the collector as it is in /repo now: finalizers do not *)
(* release handles, the re-mark recounts the handles located in the heap   *)
(* (reset_non_roots + trace_non_roots), and the handles owned by the boxes *)
(* about to be swept are released after the re-mark (release_dead_handles).*)
(* Patched = FALSE is the order of the original snapshot, kept to document *)
(* the defect found with this model (work/proposals/C09-1): running the    *)
(* finalizer of a node released (dec_ref_count) every handle the node      *)
(* owns, and the re-mark used the non_root_counts of the first pass.  That *)
(* is only correct when no finalizer creates a handle on a node of the     *)
(* unreachable set: with AllowArm = TRUE TLC finds NoLiveFreed violated    *)
(* after alloc 1; link 1 1; arm 1 1; droph 1; collect                      *)
(* (MCGcImpl_defect.cfg, expected to fail).                                *)
(*                                                                         *)
(* Refinement: Ref!Spec (GcSpec) under the mapping at the end; while a     *)
(* collection is running the abstract state is the snapshot taken when it  *)
(* started, and the last phase step is the abstract Collect.               *)
(***************************************************************************)
EXTENDS Naturals, FiniteSets, Sequences, SequencesExt, TLC

CONSTANTS MaxN, MaxH, MaxE, MaxP, MaxM, AllowArm, Patched

VARIABLES nalloc, nodes, H, E, armed, rc, EB, MB, gc, snap, obs, ist
vars == <<nalloc, nodes, H, E, armed, rc, EB, MB, gc, snap, obs, ist>>

Cnt(B, p)    == IF p \in DOMAIN B THEN B[p] ELSE 0
BagAdd(B, p) == IF p \in DOMAIN B THEN [B EXCEPT ![p] = @ + 1] ELSE B @@ (p :> 1)
BagDel(B, p) == IF B[p] > 1 THEN [B EXCEPT ![p] = @ - 1] ELSE [q \in DOMAIN B \ {p} |-> B[q]]
Lesser(a, b)    == IF a < b THEN a ELSE b
Monus(a, b)  == IF a > b THEN a - b ELSE 0       \* a release below zero is state corruption: see RcExact
Sorted(S) == SetToSortSeq(S, LAMBDA a, b : a < b)      \* ascending = allocation order (native in TLC)
Elems(s) == {s[i] : i \in DOMAIN s}

Idle == gc.phase = "idle"
Held(a)     == a \in nodes /\ H[a] > 0
HolderOK(h) == h = 0 \/ Held(h)

NoMarks == [n |-> {}, b |-> {}, m |-> {}, w |-> {}]
IdleGc  == [phase |-> "idle", pass |-> 0, mk |-> NoMarks, nrcN |-> <<>>, nrcB |-> <<>>, nrcM |-> <<>>,
            pend |-> {}, pendW |-> {}, deadN |-> {}, deadM |-> {}, finq |-> <<>>, flog |-> <<>>, dlog |-> <<>>]

-----------------------------------------------------------------------------
(* Abstraction                                                              *)

AbsP == [x \in DOMAIN EB |->
           [kind |-> EB[x].kind, k |-> EB[x].k, v |-> EB[x].v, h |-> EB[x].h, hr |-> EB[x].hr, ok |-> EB[x].data,
            held |-> EB[x].rc = 1 /\ (EB[x].kind = "ent" => EB[x].data /\ EB[x].intab)]]
AbsM == [m \in DOMAIN MB |-> [h |-> MB[m].h, held |-> MB[m].rc = 1]]
AbsNow == [nalloc |-> nalloc, nodes |-> nodes, H |-> H, E |-> E, armed |-> armed, P |-> AbsP, M |-> AbsM, obs |-> obs]
Abs == IF Idle THEN AbsNow ELSE snap

Ref == INSTANCE GcSpec WITH nalloc <- Abs.nalloc, nodes <- Abs.nodes, H <- Abs.H, E <- Abs.E,
                            armed <- Abs.armed, P <- Abs.P, M <- Abs.M, obs <- Abs.obs
\* the reference evaluated on the concrete state as it is right now (also in the middle of a collection)
Now == INSTANCE GcSpec WITH nalloc <- nalloc, nodes <- nodes, H <- H, E <- E,
                            armed <- armed, P <- AbsP, M <- AbsM, obs <- obs

EntryOf(m, k) == {x \in DOMAIN EB : /\ EB[x].kind = "ent" /\ EB[x].h = m /\ EB[x].k = k
                                     /\ EB[x].rc = 1 /\ EB[x].intab /\ EB[x].data}

-----------------------------------------------------------------------------
(* Mutator                                                                  *)

Init ==
  /\ nalloc = 0 /\ nodes = {} /\ H = <<>> /\ E = <<>> /\ armed = <<>> /\ rc = <<>>
  /\ EB = <<>> /\ MB = <<>> /\ gc = IdleGc /\ snap = [op |-> "none"]
  /\ obs = [op |-> "init"] /\ ist = <<0, 0>>

Quiet == UNCHANGED <<gc, snap, ist>>

Alloc ==
  /\ Idle /\ nalloc < MaxN
  /\ LET n == nalloc + 1 IN
       /\ nalloc' = n /\ nodes' = nodes \cup {n}
       /\ H' = H @@ (n :> 1) /\ armed' = armed @@ (n :> 0) /\ rc' = rc @@ (n :> 1)
       /\ obs' = [op |-> "alloc", n |-> n, k |-> 0]
  /\ UNCHANGED <<E, EB, MB>> /\ Quiet

Clone(a) ==
  /\ Idle /\ Held(a) /\ H[a] < MaxH
  /\ H' = [H EXCEPT ![a] = @ + 1] /\ rc' = [rc EXCEPT ![a] = @ + 1]
  /\ obs' = [op |-> "clone", a |-> a]
  /\ UNCHANGED <<nalloc, nodes, E, armed, EB, MB>> /\ Quiet

DropHandle(a) ==
  /\ Idle /\ Held(a)
  /\ H' = [H EXCEPT ![a] = @ - 1] /\ rc' = [rc EXCEPT ![a] = @ - 1]
  /\ obs' = [op |-> "droph", a |-> a]
  /\ UNCHANGED <<nalloc, nodes, E, armed, EB, MB>> /\ Quiet

Link(a, b) ==
  /\ Idle /\ Held(a) /\ Held(b) /\ Cnt(E, <<a, b>>) < MaxE
  /\ E' = BagAdd(E, <<a, b>>) /\ rc' = [rc EXCEPT ![b] = @ + 1]
  /\ obs' = [op |-> "link", a |-> a, b |-> b]
  /\ UNCHANGED <<nalloc, nodes, H, armed, EB, MB>> /\ Quiet

Unlink(a, b) ==
  /\ Idle /\ Held(a) /\ <<a, b>> \in DOMAIN E
  /\ E' = BagDel(E, <<a, b>>) /\ rc' = [rc EXCEPT ![b] = @ - 1]
  /\ obs' = [op |-> "unlink", a |-> a, b |-> b]
  /\ UNCHANGED <<nalloc, nodes, H, armed, EB, MB>> /\ Quiet

Load(a, b) ==
  /\ Idle /\ Held(a) /\ <<a, b>> \in DOMAIN E /\ H[b] < MaxH
  /\ H' = [H EXCEPT ![b] = @ + 1] /\ rc' = [rc EXCEPT ![b] = @ + 1]
  /\ obs' = [op |-> "load", a |-> a, b |-> b]
  /\ UNCHANGED <<nalloc, nodes, E, armed, EB, MB>> /\ Quiet

Box(kind, k, v, h) == [kind |-> kind, k |-> k, v |-> v, h |-> h, hr |-> 0, data |-> TRUE, rc |-> 1,
                       intab |-> kind = "ent", alive |-> TRUE]

\* boxes whose handle the mutator holds itself; Acc(x): the mutator can get at the handle on box x
MutBoxes == {x \in DOMAIN EB : EB[x].kind \in {"weak", "eph"} /\ EB[x].rc = 1 /\ EB[x].h = 0 /\ EB[x].hr = 0}
RECURSIVE Acc(_)
Acc(x) ==
  /\ x \in DOMAIN EB /\ EB[x].rc = 1
  /\ IF EB[x].hr # 0 THEN EB[EB[x].hr].data /\ Acc(EB[x].hr) ELSE HolderOK(EB[x].h)

MkWeak(a) ==
  /\ Idle /\ Held(a) /\ Len(EB) < MaxP
  /\ EB' = Append(EB, Box("weak", a, 0, 0))
  /\ obs' = [op |-> "weak", w |-> Len(EB) + 1, a |-> a]
  /\ UNCHANGED <<nalloc, nodes, H, E, armed, rc, MB>> /\ Quiet

\* WeakGc::upgrade = Ephemeron::key: Some(handle) iff the box still has its data
Upgrade(x) ==
  /\ Idle /\ x \in DOMAIN EB /\ EB[x].kind = "weak" /\ Acc(x)
  /\ IF EB[x].data
       THEN /\ H[EB[x].k] < MaxH
            /\ H' = [H EXCEPT ![EB[x].k] = @ + 1] /\ rc' = [rc EXCEPT ![EB[x].k] = @ + 1]
            /\ obs' = [op |-> "upgrade", w |-> x, t |-> EB[x].k, r |-> EB[x].k]
       ELSE /\ H' = H /\ rc' = rc
            /\ obs' = [op |-> "upgrade", w |-> x, t |-> EB[x].k, r |-> 0]
  /\ UNCHANGED <<nalloc, nodes, E, armed, EB, MB>> /\ Quiet

DropWeak(x) ==
  /\ Idle /\ x \in DOMAIN EB /\ EB[x].kind = "weak" /\ EB[x].rc = 1 /\ EB[x].hr = 0
  /\ EB' = [EB EXCEPT ![x].rc = 0]
  /\ obs' = [op |-> "dropw", w |-> x]
  /\ UNCHANGED <<nalloc, nodes, H, E, armed, rc, MB>> /\ Quiet

\* Ephemeron::new(&k, value): the Gc handle of the value (if any) is a clone; the weak handles ws are moved in
MkEph(k, v, h, ws) ==
  /\ Idle /\ Held(k) /\ (v = 0 \/ Held(v)) /\ HolderOK(h) /\ Len(EB) < MaxP /\ ws \subseteq MutBoxes
  /\ EB' = Append([x \in DOMAIN EB |-> IF x \in ws THEN [EB[x] EXCEPT !.hr = Len(EB) + 1] ELSE EB[x]], Box("eph", k, v, h))
  /\ rc' = IF v = 0 THEN rc ELSE [rc EXCEPT ![v] = @ + 1]
  /\ obs' = [op |-> "eph", e |-> Len(EB) + 1, k |-> k, v |-> v, h |-> h, ws |-> ws]
  /\ UNCHANGED <<nalloc, nodes, H, E, armed, MB>> /\ Quiet

EphValue(x) ==
  /\ Idle /\ x \in DOMAIN EB /\ EB[x].kind = "eph" /\ Acc(x)
  /\ obs' = [op |-> "ephval", e |-> x, v |-> EB[x].v, r |-> IF EB[x].data THEN EB[x].v ELSE 0, s |-> IF EB[x].data THEN 1 ELSE 0]
  /\ UNCHANGED <<nalloc, nodes, H, E, armed, rc, EB, MB>> /\ Quiet

DropEph(x) ==
  /\ Idle /\ x \in DOMAIN EB /\ EB[x].kind = "eph" /\ EB[x].rc = 1 /\ EB[x].h = 0 /\ EB[x].hr = 0
  /\ EB' = [EB EXCEPT ![x].rc = 0]
  /\ obs' = [op |-> "drope", e |-> x]
  /\ UNCHANGED <<nalloc, nodes, H, E, armed, rc, MB>> /\ Quiet

\* WeakMap::new: inner GcBox, WeakMapBox, and the WeakGc of the WeakMapBox on the inner box
MkWm(h) ==
  /\ Idle /\ HolderOK(h) /\ Len(MB) < MaxM
  /\ MB' = Append(MB, [h |-> h, rc |-> 1, box |-> TRUE, wmb |-> TRUE, wkrc |-> 1, wkdata |-> TRUE, wkalive |-> TRUE])
  /\ obs' = [op |-> "wm", m |-> Len(MB) + 1, h |-> h]
  /\ UNCHANGED <<nalloc, nodes, H, E, armed, rc, EB>> /\ Quiet

MapOK(m) == m \in DOMAIN MB /\ MB[m].rc = 1 /\ HolderOK(MB[m].h)

\* RawWeakMap::insert: an occupied slot is removed (its Ephemeron handle is dropped), a new Ephemeron is allocated
WmInsert(m, k, v) ==
  /\ Idle /\ MapOK(m) /\ Held(k) /\ Held(v) /\ Len(EB) < MaxP
  /\ LET old == EntryOf(m, k) IN
       EB' = Append(IF old = {} THEN EB
                    ELSE [x \in DOMAIN EB |-> IF x \in old THEN [EB[x] EXCEPT !.rc = 0, !.intab = FALSE] ELSE EB[x]],
                    Box("ent", k, v, m))
  /\ rc' = [rc EXCEPT ![v] = @ + 1]
  /\ obs' = [op |-> "wmins", m |-> m, k |-> k, v |-> v]
  /\ UNCHANGED <<nalloc, nodes, H, E, armed, MB>> /\ Quiet

WmRemove(m, k) ==
  /\ Idle /\ MapOK(m) /\ Held(k)
  /\ LET old == EntryOf(m, k) IN
       /\ EB' = IF old = {} THEN EB
                ELSE [x \in DOMAIN EB |-> IF x \in old THEN [EB[x] EXCEPT !.rc = 0, !.intab = FALSE] ELSE EB[x]]
       /\ obs' = [op |-> "wmrem", m |-> m, k |-> k, r |-> IF old # {} THEN 1 ELSE 0]
  /\ UNCHANGED <<nalloc, nodes, H, E, armed, rc, MB>> /\ Quiet

WmGet(m, k) ==
  /\ Idle /\ MapOK(m) /\ Held(k)
  /\ LET s == EntryOf(m, k)
         v == IF s = {} THEN 0 ELSE EB[CHOOSE x \in s : TRUE].v
     IN obs' = [op |-> "wmget", m |-> m, k |-> k, v |-> v, r |-> v]
  /\ UNCHANGED <<nalloc, nodes, H, E, armed, rc, EB, MB>> /\ Quiet

DropWm(m) ==
  /\ Idle /\ m \in DOMAIN MB /\ MB[m].rc = 1 /\ MB[m].h = 0
  /\ MB' = [MB EXCEPT ![m].rc = 0]
  /\ obs' = [op |-> "dropwm", m |-> m]
  /\ UNCHANGED <<nalloc, nodes, H, E, armed, rc, EB>> /\ Quiet

Arm(a, t) ==
  /\ Idle /\ AllowArm /\ Held(a) /\ t \in nodes /\ armed[a] # t
  /\ armed' = [armed EXCEPT ![a] = t]
  /\ obs' = [op |-> "arm", a |-> a, t |-> t]
  /\ UNCHANGED <<nalloc, nodes, H, E, rc, EB, MB>> /\ Quiet

Mutate ==
  \/ Alloc
  \/ \E a \in nodes : Clone(a) \/ DropHandle(a) \/ MkWeak(a)
  \/ \E a \in nodes, b \in nodes : Link(a, b) \/ Unlink(a, b) \/ Load(a, b) \/ Arm(a, b)
  \/ \E x \in DOMAIN EB : Upgrade(x) \/ DropWeak(x) \/ EphValue(x) \/ DropEph(x)
  \/ \E k \in nodes, v \in nodes \cup {0}, h \in nodes \cup {0}, ws \in SUBSET MutBoxes : MkEph(k, v, h, ws)
  \/ \E h \in nodes \cup {0} : MkWm(h)
  \/ \E m \in DOMAIN MB : DropWm(m)
  \/ \E m \in DOMAIN MB, k \in nodes : WmRemove(m, k) \/ WmGet(m, k)
  \/ \E m \in DOMAIN MB, k \in nodes, v \in nodes : WmInsert(m, k, v)

-----------------------------------------------------------------------------
(* Collector                                                                *)

Heap == <<nalloc, nodes, H, E, armed, rc, EB, MB>>

StartCollect ==
  /\ Idle
  /\ gc' = [IdleGc EXCEPT !.phase = "tnr", !.pass = 1]
  /\ snap' = AbsNow
  /\ UNCHANGED <<Heap, obs, ist>>

\* handles found inside the heap, per target; inc_non_root_count saturates at ref_count
HeapHandlesN(n, srcs, boxes) ==
  LET S == {p \in DOMAIN E : p[2] = n /\ p[1] \in srcs}
      RECURSIVE Sum(_)      \* sum of the multiplicities E[p], p \in S
      Sum(c) == IF c > MaxE THEN 0 ELSE Cardinality({p \in S : E[p] >= c}) + Sum(c + 1)
  IN Sum(1) + Cardinality({x \in boxes : EB[x].data /\ EB[x].kind # "weak" /\ EB[x].v = n /\ EB[x].alive})
\* (a handle in the value of an ephemeron box exists as long as that box has its data)
HeapHandlesB(x, srcs, maps, boxes) ==
  IF \/ EB[x].kind = "eph" /\ EB[x].h \in srcs
     \/ EB[x].kind = "ent" /\ EB[x].intab /\ EB[x].h \in maps
     \/ EB[x].hr \in boxes /\ EB[EB[x].hr].data THEN 1 ELSE 0
HeapHandlesM(m, srcs) == IF MB[m].h \in srcs THEN 1 ELSE 0
AliveB == {x \in DOMAIN EB : EB[x].alive}
BoxM   == {m \in DOMAIN MB : MB[m].box}

Recount ==
  [gc EXCEPT !.nrcN = [n \in nodes |-> Lesser(rc[n], HeapHandlesN(n, nodes, AliveB))],
             !.nrcB = [x \in DOMAIN EB |-> IF EB[x].alive THEN Lesser(EB[x].rc, HeapHandlesB(x, nodes, BoxM, AliveB)) ELSE 0],
             !.nrcM = [m \in DOMAIN MB |-> IF MB[m].box THEN Lesser(MB[m].rc, HeapHandlesM(m, nodes)) ELSE 0]]

TraceNonRoots ==
  /\ gc.phase = "tnr"
  /\ gc' = [Recount EXCEPT !.phase = "mark"]
  /\ UNCHANGED <<Heap, snap, obs, ist>>

\* Tracer::trace_until_empty from a set of enqueued node boxes / map boxes: marked boxes are skipped
RECURSIVE GrowN(_, _, _)
GrowN(seen, front, avoid) ==
  IF front = {} THEN seen
  ELSE LET nxt == {p[2] : p \in {q \in DOMAIN E : q[1] \in front}} \ (seen \cup avoid)
       IN GrowN(seen \cup nxt, nxt, avoid)
TraceMaps(mk, ms) ==
  LET newM == {m \in ms : MB[m].box} \ mk.m
  IN [mk EXCEPT !.m = @ \cup newM,
                !.b = @ \cup {x \in AliveB : EB[x].kind = "ent" /\ EB[x].intab /\ EB[x].h \in newM}]
TraceNodes(mk, start) ==
  LET s0 == (start \cap nodes) \ mk.n IN
  IF s0 = {} THEN mk
  ELSE LET newN == GrowN(s0, s0, mk.n)
           mk1  == [mk EXCEPT !.n = @ \cup newN,
                              !.b = @ \cup {x \in AliveB : EB[x].kind = "eph" /\ EB[x].h \in newN}]
       IN TraceMaps(mk1, {m \in DOMAIN MB : MB[m].h \in newN})

RootedN == {n \in nodes : gc.nrcN[n] < rc[n]}
RootedM == {m \in BoxM : gc.nrcM[m] < MB[m].rc}
RootedB == {x \in AliveB : gc.nrcB[x] < EB[x].rc}

MarkStrong ==
  /\ gc.phase = "mark"
  /\ gc' = [gc EXCEPT !.mk = TraceMaps(TraceNodes(gc.mk, RootedN), RootedM), !.phase = "eph"]
  /\ UNCHANGED <<Heap, snap, obs, ist>>

\* ErasedEphemeronBox::trace of box x under marks mk: [mk |-> marks afterwards, ok |-> "successfully traced"]
\* Tracing the value: a Gc handle is enqueued on the tracer (q: something was enqueued, marked or not), a WeakGc /
\* Ephemeron handle lying directly in the value marks its box at once (Ephemeron::trace) -- the box is not traced
\* through here, it is looked at when the pass over the (pending) ephemerons reaches it.
InValue(x) == {z \in AliveB : EB[z].hr = x}
EphTrace(mk, x) ==
  IF x \notin mk.b THEN [mk |-> mk, ok |-> FALSE, q |-> FALSE]
  ELSE IF ~EB[x].data THEN [mk |-> mk, ok |-> TRUE, q |-> FALSE]
  ELSE IF EB[x].k \notin mk.n THEN [mk |-> mk, ok |-> FALSE, q |-> FALSE]
  ELSE [mk |-> IF EB[x].kind = "weak" THEN mk
               ELSE TraceNodes([mk EXCEPT !.b = @ \cup InValue(x)], {EB[x].v}),    \* v = 0: nothing is enqueued
        ok |-> TRUE,
        q  |-> EB[x].kind # "weak" /\ EB[x].v # 0]

\* one pass over the boxes `ids` in allocation (= id) order: [mk |-> marks afterwards, pend |-> boxes not traced].
\* A left fold (native in TLC), so that long box lists do not cost recursion depth.
EphPass(ids, mk0) ==
  FoldLeft(LAMBDA acc, x : LET t == EphTrace(acc.mk, x)
                           IN [mk |-> t.mk, pend |-> IF t.ok THEN acc.pend ELSE acc.pend \cup {x}, q |-> acc.q \/ t.q],
           [mk |-> mk0, pend |-> {}, q |-> FALSE], Sorted(ids))

\* FALSE = the loop of step 3 as it is in the code: it ends when a pass resolved nothing.  TRUE (only through a
\* definition override in a config, MCGcImplShapes_shortcut.cfg, expected to FAIL) = a loop that also ends when the
\* ephemerons resolved by a pass enqueued nothing on the tracer: wrong, because a pass marks the boxes of the weak
\* handles lying directly in the resolved values, and those boxes may precede their holder in the pending list.
RescanShortcut == FALSE

\* the WeakGc a WeakMapBox keeps on its map: rooted while the WeakMapBox exists; traced iff the map box is marked
WkAlive == {m \in DOMAIN MB : MB[m].wkalive}
WkTraced(mk, m) == m \in mk.w /\ (~MB[m].wkdata \/ m \in mk.m)

\* steps 1 and 2 of the weak mark phase
MarkEphInit ==
  /\ gc.phase = "eph"
  /\ LET r   == EphPass(AliveB, [gc.mk EXCEPT !.b = @ \cup RootedB])   \* "if header.is_rooted() { header.mark() }"
         mkw == [r.mk EXCEPT !.w = @ \cup {m \in WkAlive : MB[m].wkrc = 1 \/ (MB[m].wmb /\ MB[m].wkdata)}]
     IN gc' = [gc EXCEPT !.mk = mkw, !.pend = r.pend,
                         !.pendW = {m \in WkAlive : ~WkTraced(mkw, m)}, !.phase = "ephloop"]
  /\ UNCHANGED <<Heap, snap, obs, ist>>

\* step 3: one round over the pending ephemerons; stop when a round removes nothing
MarkEphRound ==
  /\ gc.phase = "ephloop"
  /\ LET r  == EphPass(gc.pend, gc.mk)
         pw == {m \in gc.pendW : ~WkTraced(r.mk, m)}
         done == \/ Cardinality(r.pend) + Cardinality(pw) = Cardinality(gc.pend) + Cardinality(gc.pendW)
                 \/ RescanShortcut /\ ~r.q
     IN gc' = [gc EXCEPT !.mk = r.mk, !.pend = r.pend, !.pendW = pw,
                 !.phase = IF ~done THEN "ephloop" ELSE IF gc.pass = 1 THEN "unreach" ELSE "release",
                 !.deadN = IF done /\ gc.pass = 1 THEN nodes \ r.mk.n ELSE @,
                 !.deadM = IF done /\ gc.pass = 1 THEN BoxM \ r.mk.m ELSE @]
  /\ UNCHANGED <<Heap, snap, obs, ist>>

\* "Only finalize if there are any unreachable nodes."
Unreachables ==
  /\ gc.phase = "unreach"
  /\ gc' = IF gc.deadN = {} /\ gc.deadM = {} /\ gc.pend = {} /\ gc.pendW = {}
             THEN [gc EXCEPT !.phase = "sweep"]
             ELSE [gc EXCEPT !.phase = "fin", !.finq = Sorted(gc.deadN)]
  /\ UNCHANGED <<Heap, snap, obs, ist>>

\* run_finalizer of one unreachable node: the user's Finalize (log; an armed finalizer clones one of the node's
\* edges into a mutator handle), then run_finalizer of its fields: in the pinned code every handle owned by the
\* node is released here (Gc / Ephemeron: Finalize::finalize = dec_ref_count)
Finalize ==
  /\ gc.phase = "fin" /\ gc.finq # <<>>
  /\ LET n    == Head(gc.finq)
         t    == armed[n]
         fire == t # 0 /\ <<n, t>> \in DOMAIN E
         rc1  == IF fire THEN [rc EXCEPT ![t] = @ + 1] ELSE rc
     IN /\ gc' = [gc EXCEPT !.finq = Tail(@), !.flog = Append(@, n)]
        /\ armed' = [armed EXCEPT ![n] = 0]
        /\ H' = IF fire THEN [H EXCEPT ![t] = @ + 1] ELSE H
        /\ IF Patched
             THEN /\ rc' = rc1 /\ EB' = EB /\ MB' = MB
             ELSE /\ rc' = [b \in nodes |-> Monus(rc1[b], Cnt(E, <<n, b>>))]
                  /\ EB' = [x \in DOMAIN EB |-> IF EB[x].alive /\ EB[x].kind = "eph" /\ EB[x].h = n
                                                 THEN [EB[x] EXCEPT !.rc = Monus(@, 1)] ELSE EB[x]]
                  /\ MB' = [m \in DOMAIN MB |-> IF MB[m].box /\ MB[m].h = n
                                                 THEN [MB[m] EXCEPT !.rc = Monus(@, 1)] ELSE MB[m]]
  /\ UNCHANGED <<nalloc, nodes, E, snap, obs, ist>>

\* run_finalizer of unreachable map boxes (releases the entries' handles in the pinned code), then
\* finalize_and_clear of the pending ephemerons: the data is dropped, i.e. the value handle is released
FinalizeWeak ==
  /\ gc.phase = "fin" /\ gc.finq = <<>>
  /\ LET EB1 == IF Patched THEN EB
                ELSE [x \in DOMAIN EB |-> IF EB[x].alive /\ EB[x].kind = "ent" /\ EB[x].intab /\ EB[x].h \in gc.deadM
                                           THEN [EB[x] EXCEPT !.rc = Monus(@, 1)] ELSE EB[x]]
         cl  == {x \in gc.pend : EB[x].data}
         \* dropping the data of a box drops its value: the Gc handle (below) and the weak handles lying in it
         EB2 == [x \in DOMAIN EB |-> IF EB1[x].hr \in cl THEN [EB1[x] EXCEPT !.rc = Monus(@, 1)] ELSE EB1[x]]
     IN /\ EB' = [x \in DOMAIN EB |-> IF x \in cl THEN [EB2[x] EXCEPT !.data = FALSE] ELSE EB2[x]]
        /\ rc' = [n \in nodes |-> Monus(rc[n], Cardinality({x \in cl : EB[x].kind # "weak" /\ EB[x].v = n}))]
        /\ MB' = [m \in DOMAIN MB |-> IF m \in gc.pendW THEN [MB[m] EXCEPT !.wkdata = FALSE] ELSE MB[m]]
  /\ gc' = IF Patched THEN [gc EXCEPT !.phase = "tnr", !.pass = 2, !.pend = {}, !.pendW = {}]
                      ELSE [gc EXCEPT !.phase = "mark", !.pass = 2, !.pend = {}, !.pendW = {}]
  /\ UNCHANGED <<nalloc, nodes, H, E, armed, snap, obs, ist>>

\* repaired order only: handles owned by boxes that are about to be swept are released now
Release ==
  /\ gc.phase = "release"
  /\ IF ~Patched THEN UNCHANGED <<rc, EB, MB>>
     ELSE LET dn == nodes \ gc.mk.n
              db == AliveB \ gc.mk.b
              dm == BoxM \ gc.mk.m
          IN /\ rc' = [n \in nodes |-> IF n \in gc.mk.n THEN Monus(rc[n], Lesser(rc[n], HeapHandlesN(n, dn, db))) ELSE rc[n]]
             /\ EB' = [x \in DOMAIN EB |-> IF x \in gc.mk.b THEN [EB[x] EXCEPT !.rc = Monus(@, HeapHandlesB(x, dn, dm, db))] ELSE EB[x]]
             /\ MB' = [m \in DOMAIN MB |-> IF m \in gc.mk.m THEN [MB[m] EXCEPT !.rc = Monus(@, HeapHandlesM(m, dn))] ELSE MB[m]]
  /\ gc' = [gc EXCEPT !.phase = "sweep"]
  /\ UNCHANGED <<nalloc, nodes, H, E, armed, snap, obs, ist>>

\* unmarked boxes are dropped (their handles are inert under the DropGuard), marked ones are unmarked
Sweep ==
  /\ gc.phase = "sweep"
  /\ LET keep == nodes \cap gc.mk.n IN
       /\ nodes' = keep
       /\ H' = [n \in keep |-> H[n]] /\ armed' = [n \in keep |-> armed[n]] /\ rc' = [n \in keep |-> rc[n]]
       /\ E' = [p \in {q \in DOMAIN E : q[1] \in keep} |-> E[p]]
       /\ EB' = [x \in DOMAIN EB |-> IF x \in gc.mk.b THEN EB[x] ELSE [EB[x] EXCEPT !.alive = FALSE, !.rc = 0]]
       /\ MB' = [m \in DOMAIN MB |-> [MB[m] EXCEPT !.box = @ /\ m \in gc.mk.m, !.rc = IF m \in gc.mk.m THEN @ ELSE 0,
                                                    !.wkalive = @ /\ m \in gc.mk.w]]
       /\ gc' = [gc EXCEPT !.phase = "clearwm", !.dlog = Sorted(nodes \ keep), !.mk = NoMarks,
                           !.nrcN = <<>>, !.nrcB = <<>>, !.nrcM = <<>>]
  /\ UNCHANGED <<nalloc, snap, obs, ist>>

\* weak maps whose map box is gone lose their WeakMapBox; the others drop the entries that lost their data
ClearWeakMaps ==
  /\ gc.phase = "clearwm"
  /\ LET live == {m \in DOMAIN MB : MB[m].wmb /\ MB[m].wkdata}
         MB1  == [m \in DOMAIN MB |-> IF MB[m].wmb /\ m \notin live THEN [MB[m] EXCEPT !.wmb = FALSE, !.wkrc = 0] ELSE MB[m]]
         EB1  == [x \in DOMAIN EB |-> IF EB[x].alive /\ EB[x].kind = "ent" /\ EB[x].intab /\ ~EB[x].data /\ EB[x].h \in live
                                       THEN [EB[x] EXCEPT !.intab = FALSE, !.rc = Monus(@, 1)] ELSE EB[x]]
     IN /\ MB' = MB1 /\ EB' = EB1
        /\ obs' = [op |-> "collect", fin |-> Elems(gc.flog), drop |-> Elems(gc.dlog),
                   res |-> Elems(gc.flog) \ Elems(gc.dlog),
                   st |-> Cardinality(nodes) + Cardinality({m \in DOMAIN MB : MB[m].box})]
        /\ ist' = <<Cardinality({x \in DOMAIN EB1 : EB1[x].alive}) + Cardinality({m \in DOMAIN MB1 : MB1[m].wkalive}),
                    Cardinality({m \in DOMAIN MB1 : MB1[m].wmb})>>
  /\ gc' = IdleGc /\ snap' = [op |-> "none"]
  /\ UNCHANGED <<nalloc, nodes, H, E, armed, rc>>

CollectStep ==
  \/ TraceNonRoots \/ MarkStrong \/ MarkEphInit \/ MarkEphRound \/ Unreachables
  \/ Finalize \/ FinalizeWeak \/ Release \/ Sweep \/ ClearWeakMaps

Next == Mutate \/ StartCollect \/ CollectStep
Spec == Init /\ [][Next]_vars

-----------------------------------------------------------------------------
(* Invariants                                                               *)

\* ref_count of a node = number of handles that exist on it (when no collection is running)
RcExact ==
  Idle => /\ \A n \in nodes : rc[n] = H[n] + HeapHandlesN(n, nodes, AliveB)
          /\ \A x \in AliveB : /\ EB[x].rc \in {0, 1} /\ (EB[x].kind = "eph" /\ EB[x].h \in nodes => EB[x].rc = 1)
                               /\ (EB[x].hr # 0 => EB[x].rc = (IF EB[EB[x].hr].alive /\ EB[EB[x].hr].data THEN 1 ELSE 0))
          /\ \A m \in BoxM : MB[m].rc \in {0, 1} /\ (MB[m].h \in nodes => MB[m].rc = 1)

\* after trace_non_roots: a box is rooted iff a handle on it exists outside the heap
RootedIffExternal ==
  gc.phase = "mark" /\ (gc.pass = 1 \/ Patched) =>
     /\ \A n \in nodes : (gc.nrcN[n] < rc[n]) <=> (H[n] > 0)
     /\ \A x \in AliveB : (gc.nrcB[x] < EB[x].rc) <=> (EB[x].rc = 1 /\ EB[x].kind # "ent" /\ EB[x].h = 0 /\ EB[x].hr = 0)
     /\ \A m \in BoxM : (gc.nrcM[m] < MB[m].rc) <=> (MB[m].rc = 1 /\ MB[m].h = 0)

\* what the sweep is about to free, against reachability on the state as it is now
NoLiveFreed == gc.phase = "sweep" => (nodes \ gc.mk.n) \cap Now!Reach(H, AbsP) = {}
FreedExactlyUnreachable == gc.phase = "sweep" => (nodes \ gc.mk.n) = nodes \ Now!Reach(H, AbsP)

\* no handle, edge or live ephemeron value refers to a freed node
NoDangling ==
  Idle => /\ \A p \in DOMAIN E : p[1] \in nodes /\ p[2] \in nodes
          /\ \A x \in DOMAIN EB : EB[x].alive /\ EB[x].data =>
               EB[x].k \in nodes /\ (EB[x].kind # "weak" => EB[x].v \in nodes \cup {0})

NoDup(s) == \A i, j \in DOMAIN s : i # j => s[i] # s[j]
FinalizeOncePerCollection == NoDup(gc.flog) /\ (gc.phase \in {"release", "sweep", "clearwm"} => Elems(gc.flog) = gc.deadN)
DropAtMostOnce == NoDup(gc.dlog) /\ Elems(gc.dlog) \cap nodes = {}

\* a WeakGc upgrades iff its target is live (targets that were resurrected are excepted: their rows are cleared)
UpgradeIffLive ==
  Idle => \A x \in DOMAIN EB : EB[x].kind = "weak" /\ EB[x].rc = 1 =>
            /\ EB[x].data => EB[x].k \in nodes
            /\ ~AllowArm /\ ~EB[x].data => EB[x].k \notin nodes
\* the same for every ephemeron the mutator can get at (also through the values of other ephemerons): it has lost
\* its value only if its key is gone
EphValueIffKeyLive ==
  Idle => \A x \in DOMAIN EB : EB[x].kind = "eph" /\ Acc(x) /\ ~AllowArm /\ ~EB[x].data => EB[x].k \notin nodes
\* nothing that the sweep keeps is left in the list of ephemerons to be cleared (the fix-point ran to its end)
NoMarkedCleared == gc.phase \in {"unreach", "fin"} => gc.pend \cap {x \in gc.mk.b : EB[x].data /\ EB[x].k \in gc.mk.n} = {}
\* an ephemeron has its value only while its key is live, and the value is then live too
EphValueOnlyWhileKeyLive ==
  Idle => \A x \in DOMAIN EB : EB[x].kind # "weak" /\ EB[x].alive /\ EB[x].data =>
            EB[x].k \in nodes /\ EB[x].v \in nodes \cup {0}

TypeOK ==
  /\ nodes \subseteq 1..nalloc /\ DOMAIN H = nodes /\ DOMAIN rc = nodes /\ DOMAIN armed = nodes
  /\ gc.phase \in {"idle", "tnr", "mark", "eph", "ephloop", "unreach", "fin", "release", "sweep", "clearwm"}
  /\ gc.mk.n \subseteq nodes
=============================================================================
