CONSTANTS
  MaxN = 200
  MaxH = 3
  MaxE = 2
  MaxP = 600
  MaxM = 30
  AllowArm = FALSE
  Patched = TRUE
  MaxOps = 5000
SPECIFICATION SimSpec
INVARIANT Emit
CHECK_DEADLOCK FALSE
