CONSTANTS
  MaxN = 1500
  MaxH = 3
  MaxE = 2
  MaxP = 4000
  MaxM = 60
  AllowArm = FALSE
  Patched = TRUE
  MaxOps = 5000
  GDrop = 25
  GOther = 40
  GCollect = 15
SPECIFICATION SimSpec
INVARIANT Emit
CHECK_DEADLOCK FALSE
