CONSTANTS
  MaxN = 4
  MaxH = 1
  MaxE = 1
  MaxP = 9
  MaxM = 1
  AllowArm = FALSE
  Patched = TRUE
  Families <- FamNestGateThorough
SPECIFICATION ImplShapesSpec
INVARIANT RcExact
INVARIANT RootedIffExternal
INVARIANT NoLiveFreed
INVARIANT FreedExactlyUnreachable
INVARIANT NoDangling
INVARIANT FinalizeOncePerCollection
INVARIANT DropAtMostOnce
INVARIANT UpgradeIffLive
INVARIANT EphValueIffKeyLive
INVARIANT NoMarkedCleared
INVARIANT RefInv
INVARIANT EphValueOnlyWhileKeyLive
PROPERTY RefStep
CHECK_DEADLOCK FALSE
