CONSTANTS NObj = 3 NWr = 2 NReg = 2
INIT GenInit
NEXT GenNext
INVARIANTS TypeOK ReachableIsAlive NoDangling CleanupOnlyForCollected
PROPERTY Irreversible
CONSTRAINT MCBoundQ
VIEW vars
CHECK_DEADLOCK FALSE
