----------------------------- MODULE MCWeakRefs -----------------------------
(* Model checking of WeakRefs (design level) and generation of host scripts. *)
EXTENDS WeakRefs, TLC, Json

VARIABLE h      \* the script so far: one record per host step (labels only, no observation)

Lab(a, x, y, z) == [a |-> a, x |-> x, y |-> y, z |-> z]

GenNext ==
  \/ \E o \in Obj : \/ New(o) /\ h' = Append(h, Lab("new", o, 0, 0))
                    \/ Drop(o) /\ h' = Append(h, Lab("drop", o, 0, 0))
                    \/ Unlink(o) /\ h' = Append(h, Lab("unlink", o, 0, 0))
                    \/ Unregister(o) /\ h' = Append(h, Lab("unreg", o, 0, 0))
  \/ \E a, b \in Obj : \/ Link(a, b) /\ h' = Append(h, Lab("link", a, b, 0))
                       \/ Load(a, b) /\ h' = Append(h, Lab("load", a, b, 0))
  \/ \E w \in Wr : \/ Deref(w) /\ h' = Append(h, Lab("deref", w, 0, 0))
                   \/ \E o \in Obj : MkWr(w, o) /\ h' = Append(h, Lab("mkwr", w, o, 0))
  \/ \E r \in Reg, o \in Obj, t \in Obj \cup {0} : Register(r, o, t) /\ h' = Append(h, Lab("reg", r, o, t))
  \* a forced collection reclaims everything it can (the largest collectable set), or nothing observable
  \* (generation only) the host steps are worth a line of the script once there is something to collect or clear
  \/ made # {} /\ \E C \in Collectable : Collect(C) /\ h' = Append(h, Lab("gc", 0, 0, 0))
  \/ made # {} /\ \E F \in SUBSET Reg : Jobs(F) /\ h' = Append(h, Lab("jobs", 0, 0, 0))
  \/ kept # {} /\ ClearKept /\ h' = Append(h, Lab("clear", 0, 0, 0))

GenInit == Init /\ h = <<>>

Depth == 14
Emit == Len(h) = Depth => PrintT(<<"SCRIPT", ToJson(h)>>)
Bound == Len(h) <= Depth

(* exhaustive design check: bounded by the number of steps *)
MCDepth == 7
MCBound == Len(h) <= MCDepth
MCBoundQ == Len(h) <= 5
=============================================================================
