CONSTANTS
  MaxN = 4
  MaxH = 1
  MaxE = 1
  MaxP = 9
  MaxM = 1
  AllowArm = FALSE
  Families <- FamNestThorough
SPECIFICATION SSpec
INVARIANT Emit
INVARIANT TypeOK
INVARIANT NoDangling
INVARIANT WeakSound
INVARIANT EphSound
INVARIANT NestSound
CHECK_DEADLOCK FALSE
