------------------------------- MODULE GcSpec -------------------------------
(***************************************************************************)
(* Reference semantics of a tracing collector with weak pointers,          *)
(* ephemerons and weak maps: WHAT boa_gc has to do, stated on the abstract *)
(* object graph (no counters, no mark bits, no phases).                    *)
(*                                                                         *)
(*  nodes    live objects (ids 1..nalloc are handed out in order)          *)
(*  H        bag of handles held by the mutator (node -> count)            *)
(*  E        bag of heap edges (<<src, dst>> -> count > 0)                 *)
(*  armed    finalizer programme of a node: 0, or the target t of one of   *)
(*           its edges; when the node is finalised it hands a new handle   *)
(*           on t to the mutator (one shot) -- "finalizer resurrection"    *)
(*  P        weak rows: WeakGc ("weak": key k), Ephemeron ("eph": key k,   *)
(*           value edge to v, holder h = 0 mutator | node) and weak-map    *)
(*           entries ("ent": key k, value v, h = map); ok = not cleared,   *)
(*           held = the pointer object still exists.  A "weak" / "eph" row *)
(*           may instead be held by another "eph" row y (hr = y, h = 0):   *)
(*           its handle lies DIRECTLY in the value of y, next to (or       *)
(*           instead of: v = 0) the Gc value -- Ephemeron<K, WeakGc<T>>,   *)
(*           Ephemeron<K, Ephemeron<..>>.  The value of a row is thus the  *)
(*           record (v, {x : P[x].hr = row}); it is built when the row is  *)
(*           created (the handles are moved in), so hr > the row's own id  *)
(*  M        weak maps: holder h (0 mutator | node), held                  *)
(*  obs      the operation just performed with the result the mutator has  *)
(*           to observe (this is what replays carry as expectation)        *)
(*                                                                         *)
(* Reachability is the least set containing the nodes with a mutator       *)
(* handle, closed under heap edges and under ephemeron edges: the value of *)
(* a row is reachable when the row itself is reachable (its holder is) and *)
(* its key is reachable; a row held in the value of row y is reachable     *)
(* when y is reachable, still has its value and y's key is reachable (weak *)
(* handles are not traced through: being reachable makes a row answer, it  *)
(* does not make its key reachable).  Collect frees exactly the unreachable nodes,     *)
(* finalises each of them exactly once before that, lets armed finalizers  *)
(* hand out handles (which may resurrect nodes: they are finalised but not *)
(* freed), and clears every weak row whose key (or the row itself) was     *)
(* unreachable when the collection started (weak rows are cleared before   *)
(* finalizers run, as in Java; the property leaves open whether a row on a *)
(* resurrected key is cleared -- replays mark that case, see `res`).       *)
(***************************************************************************)
EXTENDS Naturals, FiniteSets, Sequences, TLC

CONSTANTS MaxN,      \* nodes ever allocated
          MaxH,      \* mutator handles per node
          MaxE,      \* multiplicity of one heap edge
          MaxP,      \* weak rows ever created
          MaxM,      \* weak maps ever created
          AllowArm   \* BOOLEAN: finalizers that hand out handles

VARIABLES nalloc, nodes, H, E, armed, P, M, obs
vars == <<nalloc, nodes, H, E, armed, P, M, obs>>

Cnt(B, p)    == IF p \in DOMAIN B THEN B[p] ELSE 0
BagAdd(B, p) == IF p \in DOMAIN B THEN [B EXCEPT ![p] = @ + 1] ELSE B @@ (p :> 1)
BagDel(B, p) == IF B[p] > 1 THEN [B EXCEPT ![p] = @ - 1] ELSE [q \in DOMAIN B \ {p} |-> B[q]]

Held(a)      == a \in nodes /\ H[a] > 0          \* the mutator can name node a
HolderOK(h)  == h = 0 \/ Held(h)                 \* the mutator can get at something held by h

-----------------------------------------------------------------------------
(* Reachability under ephemeron semantics                                   *)

MapLive(Mx, m, R) == Mx[m].held /\ (Mx[m].h = 0 \/ Mx[m].h \in R)
RECURSIVE RowLive(_, _, _)
RowLive(Px, x, R) ==
  /\ Px[x].held
  /\ IF Px[x].kind = "ent" THEN MapLive(M, Px[x].h, R)
     ELSE IF Px[x].hr # 0 THEN LET y == Px[x].hr IN Px[y].ok /\ Px[y].k \in R /\ RowLive(Px, y, R)
     ELSE (Px[x].h = 0 \/ Px[x].h \in R)

Succ(R, Px) ==
  R \cup {b \in nodes : \E a \in R : <<a, b>> \in DOMAIN E}
    \cup ({Px[x].v : x \in {y \in DOMAIN Px : /\ Px[y].kind # "weak" /\ Px[y].ok
                                               /\ Px[y].k \in R /\ RowLive(Px, y, R)}} \ {0})
RECURSIVE Close(_, _)
Close(R, Px) == LET S == Succ(R, Px) IN IF S = R THEN R ELSE Close(S, Px)
Reach(Hx, Px) == Close({n \in nodes : Hx[n] > 0}, Px)

EntryOf(m, k) == {x \in DOMAIN P : /\ P[x].kind = "ent" /\ P[x].h = m /\ P[x].k = k
                                    /\ P[x].held /\ P[x].ok}

-----------------------------------------------------------------------------
Init ==
  /\ nalloc = 0 /\ nodes = {} /\ H = <<>> /\ E = <<>> /\ armed = <<>>
  /\ P = <<>> /\ M = <<>> /\ obs = [op |-> "init"]

Alloc ==
  /\ nalloc < MaxN
  /\ LET n == nalloc + 1 IN
       /\ nalloc' = n /\ nodes' = nodes \cup {n}
       /\ H' = H @@ (n :> 1) /\ armed' = armed @@ (n :> 0)
       /\ obs' = [op |-> "alloc", n |-> n, k |-> 0]
  /\ UNCHANGED <<E, P, M>>

Clone(a) ==
  /\ Held(a) /\ H[a] < MaxH
  /\ H' = [H EXCEPT ![a] = @ + 1]
  /\ obs' = [op |-> "clone", a |-> a]
  /\ UNCHANGED <<nalloc, nodes, E, armed, P, M>>

DropHandle(a) ==
  /\ Held(a)
  /\ H' = [H EXCEPT ![a] = @ - 1]
  /\ obs' = [op |-> "droph", a |-> a]
  /\ UNCHANGED <<nalloc, nodes, E, armed, P, M>>

Link(a, b) ==
  /\ Held(a) /\ Held(b) /\ Cnt(E, <<a, b>>) < MaxE
  /\ E' = BagAdd(E, <<a, b>>)
  /\ obs' = [op |-> "link", a |-> a, b |-> b]
  /\ UNCHANGED <<nalloc, nodes, H, armed, P, M>>

Unlink(a, b) ==
  /\ Held(a) /\ <<a, b>> \in DOMAIN E
  /\ E' = BagDel(E, <<a, b>>)
  /\ obs' = [op |-> "unlink", a |-> a, b |-> b]
  /\ UNCHANGED <<nalloc, nodes, H, armed, P, M>>

\* the mutator reads an edge of a node it holds and keeps the handle
Load(a, b) ==
  /\ Held(a) /\ <<a, b>> \in DOMAIN E /\ H[b] < MaxH
  /\ H' = [H EXCEPT ![b] = @ + 1]
  /\ obs' = [op |-> "load", a |-> a, b |-> b]
  /\ UNCHANGED <<nalloc, nodes, E, armed, P, M>>

Row(kind, k, v, h) == [kind |-> kind, k |-> k, v |-> v, h |-> h, hr |-> 0, ok |-> TRUE, held |-> TRUE]

\* the rows the mutator holds itself (it can move them into the value of a new ephemeron)
MutRows == {x \in DOMAIN P : P[x].kind \in {"weak", "eph"} /\ P[x].held /\ P[x].h = 0 /\ P[x].hr = 0}
\* the mutator can get at row x: it holds it, or holds the node that holds it, or can get at the row in whose
\* value it lies and that row still has its value (Ephemeron::value is Some)
RECURSIVE Access(_)
Access(x) ==
  /\ x \in DOMAIN P /\ P[x].held
  /\ IF P[x].hr # 0 THEN P[P[x].hr].ok /\ Access(P[x].hr) ELSE HolderOK(P[x].h)

MkWeak(a) ==
  /\ Held(a) /\ Len(P) < MaxP
  /\ P' = Append(P, Row("weak", a, 0, 0))
  /\ obs' = [op |-> "weak", w |-> Len(P) + 1, a |-> a]
  /\ UNCHANGED <<nalloc, nodes, H, E, armed, M>>

\* WeakGc::upgrade: a handle on the target iff the target has not been collected
Upgrade(x) ==
  /\ x \in DOMAIN P /\ P[x].kind = "weak" /\ Access(x)
  /\ IF P[x].ok
       THEN /\ H[P[x].k] < MaxH
            /\ H' = [H EXCEPT ![P[x].k] = @ + 1]
            /\ obs' = [op |-> "upgrade", w |-> x, t |-> P[x].k, r |-> P[x].k]
       ELSE /\ H' = H
            /\ obs' = [op |-> "upgrade", w |-> x, t |-> P[x].k, r |-> 0]
  /\ UNCHANGED <<nalloc, nodes, E, armed, P, M>>

DropWeak(x) ==
  /\ x \in DOMAIN P /\ P[x].kind = "weak" /\ P[x].held /\ P[x].hr = 0
  /\ P' = [P EXCEPT ![x].held = FALSE]
  /\ obs' = [op |-> "dropw", w |-> x]
  /\ UNCHANGED <<nalloc, nodes, H, E, armed, M>>

\* Ephemeron::new(&k, value): the value holds a Gc handle on v (v = 0: none) and the weak handles `ws`, which the
\* mutator moves into it
MkEph(k, v, h, ws) ==
  /\ Held(k) /\ (v = 0 \/ Held(v)) /\ HolderOK(h) /\ Len(P) < MaxP /\ ws \subseteq MutRows
  /\ P' = Append([x \in DOMAIN P |-> IF x \in ws THEN [P[x] EXCEPT !.hr = Len(P) + 1] ELSE P[x]], Row("eph", k, v, h))
  /\ obs' = [op |-> "eph", e |-> Len(P) + 1, k |-> k, v |-> v, h |-> h, ws |-> ws]
  /\ UNCHANGED <<nalloc, nodes, H, E, armed, M>>

\* Ephemeron::value: the value iff the key has not been collected
\* (s = 1: Some, r = the node of the Gc handle in the value, 0 if it has none)
EphValue(x) ==
  /\ x \in DOMAIN P /\ P[x].kind = "eph" /\ Access(x)
  /\ obs' = [op |-> "ephval", e |-> x, v |-> P[x].v, r |-> IF P[x].ok THEN P[x].v ELSE 0, s |-> IF P[x].ok THEN 1 ELSE 0]
  /\ UNCHANGED <<nalloc, nodes, H, E, armed, P, M>>

DropEph(x) ==
  /\ x \in DOMAIN P /\ P[x].kind = "eph" /\ P[x].held /\ P[x].h = 0 /\ P[x].hr = 0
  /\ P' = [P EXCEPT ![x].held = FALSE]
  /\ obs' = [op |-> "drope", e |-> x]
  /\ UNCHANGED <<nalloc, nodes, H, E, armed, M>>

MkWm(h) ==
  /\ HolderOK(h) /\ Len(M) < MaxM
  /\ M' = Append(M, [h |-> h, held |-> TRUE])
  /\ obs' = [op |-> "wm", m |-> Len(M) + 1, h |-> h]
  /\ UNCHANGED <<nalloc, nodes, H, E, armed, P>>

MapOK(m) == m \in DOMAIN M /\ M[m].held /\ HolderOK(M[m].h)

WmInsert(m, k, v) ==
  /\ MapOK(m) /\ Held(k) /\ Held(v) /\ Len(P) < MaxP
  /\ LET old == EntryOf(m, k) IN
       P' = Append([x \in DOMAIN P |-> IF x \in old THEN [P[x] EXCEPT !.held = FALSE] ELSE P[x]], Row("ent", k, v, m))
  /\ obs' = [op |-> "wmins", m |-> m, k |-> k, v |-> v]
  /\ UNCHANGED <<nalloc, nodes, H, E, armed, M>>

WmRemove(m, k) ==
  /\ MapOK(m) /\ Held(k)
  /\ LET old == EntryOf(m, k) IN
       /\ P' = [x \in DOMAIN P |-> IF x \in old THEN [P[x] EXCEPT !.held = FALSE] ELSE P[x]]
       /\ obs' = [op |-> "wmrem", m |-> m, k |-> k, r |-> IF old # {} THEN 1 ELSE 0]
  /\ UNCHANGED <<nalloc, nodes, H, E, armed, M>>

WmGet(m, k) ==
  /\ MapOK(m) /\ Held(k)
  /\ LET s == EntryOf(m, k)
         v == IF s = {} THEN 0 ELSE P[CHOOSE x \in s : TRUE].v
     IN obs' = [op |-> "wmget", m |-> m, k |-> k, v |-> v, r |-> v]
  /\ UNCHANGED <<nalloc, nodes, H, E, armed, P, M>>

DropWm(m) ==
  /\ m \in DOMAIN M /\ M[m].held /\ M[m].h = 0
  /\ M' = [M EXCEPT ![m].held = FALSE]
  /\ obs' = [op |-> "dropwm", m |-> m]
  /\ UNCHANGED <<nalloc, nodes, H, E, armed, P>>

Arm(a, t) ==
  /\ AllowArm /\ Held(a) /\ t \in nodes /\ armed[a] # t
  /\ armed' = [armed EXCEPT ![a] = t]
  /\ obs' = [op |-> "arm", a |-> a, t |-> t]
  /\ UNCHANGED <<nalloc, nodes, H, E, P, M>>

(***************************************************************************)
(* The collection, as one step.  U = unreachable when it starts; every     *)
(* node of U is finalised once; armed finalizers of U fire; what is still  *)
(* unreachable afterwards is freed.                                        *)
(***************************************************************************)
\* the handle of row x still exists after the collection: its holder survived (and, for a row in the value of
\* another row, that row kept its value)
RECURSIVE HeldAfter(_, _, _, _)
HeldAfter(P1, M2, R2, x) ==
  /\ P[x].held
  /\ IF P[x].kind = "ent" THEN P1[x].ok /\ M2[P[x].h].held
     ELSE IF P[x].hr # 0 THEN P1[P[x].hr].ok /\ HeldAfter(P1, M2, R2, P[x].hr)
     ELSE (P[x].h = 0 \/ P[x].h \in R2)

CollectOutcome ==
  LET R1   == Reach(H, P)
      U    == nodes \ R1
      Fire == {n \in U : armed[n] # 0 /\ <<n, armed[n]>> \in DOMAIN E}
      H2   == [n \in nodes |-> H[n] + Cardinality({a \in Fire : armed[a] = n})]
      P1   == [x \in DOMAIN P |-> [P[x] EXCEPT !.ok = @ /\ P[x].k \in R1 /\ RowLive(P, x, R1)]]
      R2   == Reach(H2, P1)
      M2   == [m \in DOMAIN M |-> [M[m] EXCEPT !.held = @ /\ (M[m].h = 0 \/ M[m].h \in R2)]]
      P2   == [x \in DOMAIN P |-> [P1[x] EXCEPT !.held = HeldAfter(P1, M2, R2, x)]]
  IN [ nodes |-> R2,
       H     |-> [n \in R2 |-> H2[n]],
       E     |-> [p \in {q \in DOMAIN E : q[1] \in R2} |-> E[p]],
       armed |-> [n \in R2 |-> IF n \in U THEN 0 ELSE armed[n]],
       P     |-> P2,
       M     |-> M2,
       obs   |-> [op |-> "collect", fin |-> U, drop |-> nodes \ R2, res |-> U \cap R2,
                  st |-> Cardinality(R2) + Cardinality({m \in DOMAIN M : M2[m].held})] ]

Collect ==
  LET o == CollectOutcome IN
    /\ nodes' = o.nodes /\ H' = o.H /\ E' = o.E /\ armed' = o.armed
    /\ P' = o.P /\ M' = o.M /\ obs' = o.obs
    /\ UNCHANGED nalloc

Mutate ==
  \/ Alloc
  \/ \E a \in nodes : Clone(a) \/ DropHandle(a) \/ MkWeak(a)
  \/ \E a \in nodes, b \in nodes : Link(a, b) \/ Unlink(a, b) \/ Load(a, b) \/ Arm(a, b)
  \/ \E x \in DOMAIN P : Upgrade(x) \/ DropWeak(x) \/ EphValue(x) \/ DropEph(x)
  \/ \E k \in nodes, v \in nodes \cup {0}, h \in nodes \cup {0}, ws \in SUBSET MutRows : MkEph(k, v, h, ws)
  \/ \E h \in nodes \cup {0} : MkWm(h)
  \/ \E m \in DOMAIN M : DropWm(m)
  \/ \E m \in DOMAIN M, k \in nodes : WmRemove(m, k) \/ WmGet(m, k)
  \/ \E m \in DOMAIN M, k \in nodes, v \in nodes : WmInsert(m, k, v)

Next == Mutate \/ Collect
Spec == Init /\ [][Next]_vars

-----------------------------------------------------------------------------
(* Sanity of the reference itself                                           *)

TypeOK ==
  /\ nalloc \in 0..MaxN /\ nodes \subseteq 1..nalloc
  /\ DOMAIN H = nodes /\ DOMAIN armed = nodes
  /\ \A n \in nodes : H[n] \in 0..MaxH /\ armed[n] \in 0..MaxN
  /\ \A p \in DOMAIN E : p[1] \in nodes /\ p[2] \in nodes /\ E[p] \in 1..MaxE
  /\ \A x \in DOMAIN P : P[x].kind \in {"weak", "eph", "ent"} /\ P[x].ok \in BOOLEAN /\ P[x].held \in BOOLEAN
  /\ \A x \in DOMAIN P : P[x].hr # 0 =>       \* a row in a value: moved there when the holder was created
        /\ P[x].hr \in DOMAIN P /\ P[x].hr > x /\ P[P[x].hr].kind = "eph"
        /\ P[x].kind \in {"weak", "eph"} /\ P[x].h = 0
  /\ \A m \in DOMAIN M : M[m].held \in BOOLEAN

\* nothing the mutator can still get at refers to a freed node
NoDangling ==
  /\ \A x \in DOMAIN P : P[x].held /\ P[x].ok =>
        /\ P[x].k \in nodes
        /\ (P[x].kind # "weak" /\ RowLive(P, x, nodes) => P[x].v \in nodes \cup {0})
  /\ \A m \in DOMAIN M : M[m].held => M[m].h = 0 \/ M[m].h \in nodes
  /\ Reach(H, P) \subseteq nodes

\* a weak row answers iff its key is alive (rows of resurrected keys are cleared: see header)
WeakSound == \A x \in DOMAIN P : P[x].held /\ ~P[x].ok /\ P[x].kind = "weak" /\ ~AllowArm => P[x].k \notin nodes
\* the same for the value of an ephemeron, wherever its handle is: an ephemeron the mutator can get at has lost its
\* value only if its key is gone; and a handle in a value never outlives the value
EphSound == \A x \in DOMAIN P : P[x].kind = "eph" /\ Access(x) /\ ~P[x].ok /\ ~AllowArm => P[x].k \notin nodes
NestSound == \A x \in DOMAIN P : P[x].hr # 0 /\ P[x].held => P[P[x].hr].ok
=============================================================================
