--------------------------- MODULE MCGcImplShapes ---------------------------
(***************************************************************************)
(* Model gate on shape families: for every shape the concrete heap is      *)
(* built directly (counters as the set-up script leaves them) and one      *)
(* collection of GcImpl runs phase by phase; TLC checks the invariants and *)
(* that the collection as a whole is the reference Collect (action         *)
(* refinement; Ref!Init does not apply to a set-up heap).                  *)
(***************************************************************************)
EXTENDS GcImpl, GcShapes

VARIABLE stage
isvars == <<vars, stage>>

ImplInit ==
  \E f \in Families : \E r \in RootSetsOf(f), e \in EdgeSetsOf(f), w \in RowSeqsOf(f), m \in MapsOf(f) :
     LET s  == Shape(f, r, e, w, m)
         a  == AbsOf(s)
     IN
       /\ stage = 0
       /\ nalloc = a.nalloc /\ nodes = a.nodes /\ H = a.H /\ E = a.E /\ armed = a.armed
       /\ EB = [x \in DOMAIN a.P |->
                  [kind |-> a.P[x].kind, k |-> a.P[x].k, v |-> a.P[x].v, h |-> a.P[x].h, hr |-> a.P[x].hr, data |-> TRUE,
                   rc |-> IF a.P[x].held THEN 1 ELSE 0, intab |-> a.P[x].kind = "ent" /\ a.P[x].held, alive |-> TRUE]]
       /\ MB = IF s.mh = NoMap THEN <<>>
               ELSE <<[h |-> s.mh, rc |-> 1, box |-> TRUE, wmb |-> TRUE, wkrc |-> 1, wkdata |-> TRUE, wkalive |-> TRUE]>>
       /\ rc = [n \in 1..s.K |-> a.H[n] + Cardinality({p \in s.edges : p[2] = n})
                                   + Cardinality({x \in DOMAIN a.P : a.P[x].kind # "weak" /\ a.P[x].v = n})]
       /\ gc = IdleGc /\ snap = [op |-> "none"] /\ obs = [op |-> "init"] /\ ist = <<0, 0>>

ImplNext ==
  /\ \/ stage = 0 /\ StartCollect
     \/ CollectStep
  /\ stage' = 1
ImplShapesSpec == ImplInit /\ [][ImplNext]_isvars

RefStep == [][Ref!Next]_(Ref!vars)
ShortcutOn == TRUE      \* for MCGcImplShapes_shortcut.cfg (RescanShortcut <- ShortcutOn): expected to fail
\* the sanity invariants of the reference, on the abstraction of the implementation state
RefInv == Ref!TypeOK /\ Ref!NoDangling /\ Ref!WeakSound /\ Ref!EphSound /\ Ref!NestSound
=============================================================================
