------------------------------ MODULE GcShapes ------------------------------
(***************************************************************************)
(* Finite families of heap shapes: K nodes, a root set, a set of heap      *)
(* edges, a sequence of weak rows (WeakGc / Ephemeron with any key, value  *)
(* and holder) and optionally one weak map (holder, entries).  A shape is  *)
(* the heap a set-up script builds (allocate everything, link, create the  *)
(* rows in order, drop the handles of the non-roots); the families are     *)
(* swept exhaustively, so that "correct for ALL graph shapes" is checked   *)
(* for every shape of the family and not only for those a short free       *)
(* history happens to reach.                                               *)
(*                                                                         *)
(* A family is a record                                                    *)
(*   [K, rootSets, maxEdges, maxRows, holders, weakRows, mapHolders,       *)
(*    maxEnts]                                                             *)
(* rootSets: the root sets to sweep (a set of subsets of 1..K); holders:   *)
(* allowed holders of an ephemeron (0 = mutator); weakRows: rows may be    *)
(* WeakGc; mapHolders: allowed holders of the weak map ({} = no map);      *)
(* vals: the Gc values an ephemeron may have (0 = its value holds no Gc    *)
(* handle); nest: a mutator-held row may instead lie directly in the value *)
(* of an ephemeron created later (rows are <<kind, k, v, h, hr>>, hr = the *)
(* index of that ephemeron or 0).  The order of the sequence is the        *)
(* allocation order of the boxes, which the collector's passes follow; the *)
(* families sweep all orders.                                              *)
(***************************************************************************)
EXTENDS Naturals, FiniteSets, Sequences

CONSTANT Families

SeqsUpTo(S, n) == UNION {[1..m -> S] : m \in 0..n}
NoMap == 99          \* value of mh when the shape has no weak map

\* the components a family sweeps; the MC modules quantify over them one by one (\E ... in Init), so that TLC
\* enumerates the shapes without building the set of all of them
RootSetsOf(f) == f.rootSets
EdgeSetsOf(f) == {s \in SUBSET ((1..f.K) \X (1..f.K)) : Cardinality(s) <= f.maxEdges}
BaseRows(f)   == {<<"eph", k, v, h>> : k \in 1..f.K, v \in f.vals, h \in f.holders}
                   \cup (IF f.weakRows THEN {<<"weak", k, 0, 0>> : k \in 1..f.K} ELSE {})
\* hr per position: 0, or a later position (which has to be an ephemeron; the row itself is then not held by a node)
HrMaps(n, nest) == IF nest THEN {g \in [1..n -> 0..n] : \A i \in 1..n : g[i] = 0 \/ g[i] > i} ELSE {[i \in 1..n |-> 0]}
RowSeqsN(f, n) ==
  LET hm == HrMaps(n, f.nest) IN
  UNION {{[i \in 1..n |-> <<w[i][1], w[i][2], w[i][3], w[i][4], g[i]>>] :
             g \in {gg \in hm : \A i \in 1..n : gg[i] # 0 => w[gg[i]][1] = "eph" /\ w[i][4] = 0}} :
         w \in [1..n -> BaseRows(f)]}
RowSeqsOf(f)  == UNION {RowSeqsN(f, n) : n \in 0..f.maxRows}
MapsOf(f)     == {<<NoMap, <<>>>>} \cup {<<h, t>> : h \in f.mapHolders, t \in SeqsUpTo((1..f.K) \X (1..f.K), f.maxEnts)}
Shape(f, r, e, w, m) == [K |-> f.K, roots |-> r, edges |-> e, rows |-> w, mh |-> m[1], ents |-> m[2]]

\* the abstract state (GcSpec variables) of a shape; rows first, then the entries of the map, as the script creates them.
\* An entry whose key was inserted before is replaced (the earlier row is not held any more).
AbsOf(s) ==
  LET nr == Len(s.rows)
      ne == Len(s.ents)
      later(i) == \E j \in (i + 1)..ne : s.ents[j][1] = s.ents[i][1]
  IN [nalloc |-> s.K, nodes |-> 1..s.K,
      H |-> [n \in 1..s.K |-> IF n \in s.roots THEN 1 ELSE 0],
      E |-> [p \in s.edges |-> 1],
      armed |-> [n \in 1..s.K |-> 0],
      P |-> [x \in 1..(nr + ne) |->
               IF x <= nr THEN [kind |-> s.rows[x][1], k |-> s.rows[x][2], v |-> s.rows[x][3], h |-> s.rows[x][4],
                                hr |-> s.rows[x][5], ok |-> TRUE, held |-> TRUE]
               ELSE [kind |-> "ent", k |-> s.ents[x - nr][1], v |-> s.ents[x - nr][2], h |-> 1, hr |-> 0,
                     ok |-> TRUE, held |-> ~later(x - nr)]],
      M |-> IF s.mh = NoMap THEN <<>> ELSE <<[h |-> s.mh, held |-> TRUE]>>]

-----------------------------------------------------------------------------
(* The families used by the configs                                         *)

Fam(K, rs, me, mr, hs, wr, mh, mx) ==
  [K |-> K, rootSets |-> rs, maxEdges |-> me, maxRows |-> mr, holders |-> hs, weakRows |-> wr, mapHolders |-> mh, maxEnts |-> mx,
   vals |-> 1..K, nest |-> FALSE]
\* weak handles in ephemeron values: no edges, no map; every sequence of <= mr rows (WeakGc on any node, Ephemeron with
\* any key, any value in 0..K, any holder of hs), every assignment of earlier rows to the values of later ephemerons.
\* The families are closed under renaming the nodes, so the root sets {}, {1}, {1,2}, .. cover all root sets.
NFam(K, mr, hs) ==
  [K |-> K, rootSets |-> {1..j : j \in 0..K}, maxEdges |-> 0, maxRows |-> mr, holders |-> hs, weakRows |-> TRUE,
   mapHolders |-> {}, maxEnts |-> 0, vals |-> 0..K, nest |-> TRUE]

Graphs3   == Fam(3, SUBSET (1..3), 9, 0, {}, FALSE, {}, 0)                 \* every directed graph on 3 nodes (cycles, self loops)
EphSeq3   == Fam(3, SUBSET (1..3), 0, 3, {0}, FALSE, {}, 0)                \* up to 3 mutator-held ephemerons on 3 nodes
EphChain4 == Fam(4, {{4}}, 0, 3, {0}, FALSE, {}, 0)                        \* 4 nodes, one root, up to 3 ephemerons (3-round chains)
EphSeq4   == Fam(4, SUBSET (1..4), 0, 3, {0}, FALSE, {}, 0)
Mixed2    == Fam(2, SUBSET (1..2), 1, 2, 0..2, TRUE, {}, 0)                \* edges + rows held by nodes, on 2 nodes
Mixed3    == Fam(3, SUBSET (1..3), 1, 2, 0..3, TRUE, {}, 0)
Maps2     == Fam(2, SUBSET (1..2), 1, 0, {}, FALSE, 0..2, 2)               \* one weak map (any holder), up to 2 entries, on 2 nodes
Maps3     == Fam(3, SUBSET (1..3), 1, 0, {}, FALSE, 0..3, 2)
MapsEph3  == Fam(3, SUBSET (1..3), 0, 1, 0..3, FALSE, 0..3, 1)             \* a weak map and an ephemeron together

Nest3     == NFam(3, 3, {0})        \* incl. the chains C -> B -> A: A in the value of B, B's key alive only through C, all orders
Nest2x4   == NFam(2, 4, {0})        \* 4 rows on 2 nodes: values holding two handles, three levels of nesting
NestHeld2s == NFam(2, 2, 0..2)      \* the outer ephemeron held by a node
NestHeld2 == NFam(2, 3, 0..2)
Nest2     == NFam(2, 3, {0})

FamQuick    == {Graphs3, EphSeq3, EphChain4, Mixed2, Maps2}
FamThorough == {Graphs3, EphSeq4, Mixed3, Maps3, MapsEph3}
FamGate     == {Graphs3, EphChain4, Mixed2, Maps2}
FamNestQuick    == {Nest3, NestHeld2s}
FamNestThorough == {Nest3, Nest2x4, NestHeld2s}      \* NestHeld2 (about 10^5 shapes more) is left to a longer budget
FamNestGate     == {Nest2}
FamNestGateThorough == {Nest3, NestHeld2s}
FamNestHeld     == {NestHeld2s}
=============================================================================
