------------------------------ MODULE GcShapes ------------------------------
(***************************************************************************)
(* Finite families of heap shapes: K nodes, a root set, a set of heap      *)
(* edges, a sequence of weak rows (WeakGc / Ephemeron with any key, value  *)
(* and holder) and optionally one weak map (holder, entries).  A shape is  *)
(* the heap a set-up script builds (allocate everything, link, create the  *)
(* rows in order, drop the handles of the non-roots); the families are     *)
(* swept exhaustively, so that "correct for ALL graph shapes" is checked   *)
(* for every shape of the family and not only for those a short free       *)
(* history happens to reach.                                               *)
(*                                                                         *)
(* A family is a record                                                    *)
(*   [K, rootSets, maxEdges, maxRows, holders, weakRows, mapHolders,       *)
(*    maxEnts]                                                             *)
(* rootSets: the root sets to sweep (a set of subsets of 1..K); holders:   *)
(* allowed holders of an ephemeron (0 = mutator); weakRows: rows may be    *)
(* WeakGc; mapHolders: allowed holders of the weak map ({} = no map).      *)
(***************************************************************************)
EXTENDS Naturals, FiniteSets, Sequences

CONSTANT Families

SeqsUpTo(S, n) == UNION {[1..m -> S] : m \in 0..n}
NoMap == 99          \* value of mh when the shape has no weak map

\* the components a family sweeps; the MC modules quantify over them one by one (\E ... in Init), so that TLC
\* enumerates the shapes without building the set of all of them
RootSetsOf(f) == f.rootSets
EdgeSetsOf(f) == {s \in SUBSET ((1..f.K) \X (1..f.K)) : Cardinality(s) <= f.maxEdges}
RowSeqsOf(f)  == SeqsUpTo({<<"eph", k, v, h>> : k \in 1..f.K, v \in 1..f.K, h \in f.holders}
                            \cup (IF f.weakRows THEN {<<"weak", k, 0, 0>> : k \in 1..f.K} ELSE {}), f.maxRows)
MapsOf(f)     == {<<NoMap, <<>>>>} \cup {<<h, t>> : h \in f.mapHolders, t \in SeqsUpTo((1..f.K) \X (1..f.K), f.maxEnts)}
Shape(f, r, e, w, m) == [K |-> f.K, roots |-> r, edges |-> e, rows |-> w, mh |-> m[1], ents |-> m[2]]

\* the abstract state (GcSpec variables) of a shape; rows first, then the entries of the map, as the script creates them.
\* An entry whose key was inserted before is replaced (the earlier row is not held any more).
AbsOf(s) ==
  LET nr == Len(s.rows)
      ne == Len(s.ents)
      later(i) == \E j \in (i + 1)..ne : s.ents[j][1] = s.ents[i][1]
  IN [nalloc |-> s.K, nodes |-> 1..s.K,
      H |-> [n \in 1..s.K |-> IF n \in s.roots THEN 1 ELSE 0],
      E |-> [p \in s.edges |-> 1],
      armed |-> [n \in 1..s.K |-> 0],
      P |-> [x \in 1..(nr + ne) |->
               IF x <= nr THEN [kind |-> s.rows[x][1], k |-> s.rows[x][2], v |-> s.rows[x][3], h |-> s.rows[x][4],
                                ok |-> TRUE, held |-> TRUE]
               ELSE [kind |-> "ent", k |-> s.ents[x - nr][1], v |-> s.ents[x - nr][2], h |-> 1,
                     ok |-> TRUE, held |-> ~later(x - nr)]],
      M |-> IF s.mh = NoMap THEN <<>> ELSE <<[h |-> s.mh, held |-> TRUE]>>]

-----------------------------------------------------------------------------
(* The families used by the configs                                         *)

Fam(K, rs, me, mr, hs, wr, mh, mx) ==
  [K |-> K, rootSets |-> rs, maxEdges |-> me, maxRows |-> mr, holders |-> hs, weakRows |-> wr, mapHolders |-> mh, maxEnts |-> mx]

Graphs3   == Fam(3, SUBSET (1..3), 9, 0, {}, FALSE, {}, 0)                 \* every directed graph on 3 nodes (cycles, self loops)
EphSeq3   == Fam(3, SUBSET (1..3), 0, 3, {0}, FALSE, {}, 0)                \* up to 3 mutator-held ephemerons on 3 nodes
EphChain4 == Fam(4, {{4}}, 0, 3, {0}, FALSE, {}, 0)                        \* 4 nodes, one root, up to 3 ephemerons (3-round chains)
EphSeq4   == Fam(4, SUBSET (1..4), 0, 3, {0}, FALSE, {}, 0)
Mixed2    == Fam(2, SUBSET (1..2), 1, 2, 0..2, TRUE, {}, 0)                \* edges + rows held by nodes, on 2 nodes
Mixed3    == Fam(3, SUBSET (1..3), 1, 2, 0..3, TRUE, {}, 0)
Maps2     == Fam(2, SUBSET (1..2), 1, 0, {}, FALSE, 0..2, 2)               \* one weak map (any holder), up to 2 entries, on 2 nodes
Maps3     == Fam(3, SUBSET (1..3), 1, 0, {}, FALSE, 0..3, 2)
MapsEph3  == Fam(3, SUBSET (1..3), 0, 1, 0..3, FALSE, 0..3, 1)             \* a weak map and an ephemeron together

FamQuick    == {Graphs3, EphSeq3, EphChain4, Mixed2, Maps2}
FamThorough == {Graphs3, EphSeq4, Mixed3, Maps3, MapsEph3}
FamGate     == {Graphs3, EphChain4, Mixed2, Maps2}
=============================================================================
