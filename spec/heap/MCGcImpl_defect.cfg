CONSTANTS
  MaxN = 2
  MaxH = 2
  MaxE = 2
  MaxP = 1
  MaxM = 0
  AllowArm = TRUE
  Patched = FALSE
  MaxOps = 7
  Mode = "gate"
SPECIFICATION MCSpec
VIEW GateView
INVARIANT TypeOK
INVARIANT RcExact
INVARIANT RootedIffExternal
INVARIANT NoLiveFreed
INVARIANT FreedExactlyUnreachable
INVARIANT NoDangling
INVARIANT FinalizeOncePerCollection
INVARIANT DropAtMostOnce
INVARIANT UpgradeIffLive
INVARIANT EphValueIffKeyLive
INVARIANT NoMarkedCleared
INVARIANT EphValueOnlyWhileKeyLive
PROPERTY RefSpec
CHECK_DEADLOCK FALSE
