//! C03: compiles JS programs with the engine built from /repo and writes structured dumps of every
//! code block the compiler produced (ndjson, one result per scenario; see `tools/checks/C03.py`).
//!
//! Scenario: `{"id", "src", "kind": "script"|"module"|"run", "strict": bool, "events": n}`
//!   script: `Script::parse` + `Script::codeblock` (compile only)
//!   module: `Module::parse` + load + link (compile only; imports cannot be resolved)
//!   run:    script, then evaluated under small runtime limits so that blocks compiled later by
//!           `eval` / `Function` are captured by the log; `events` > 0 records that many
//!           per-instruction depth events.
//! Result: `{"id", "status": "ok"|"parse"|"compile"|"panic"|"decode_panic", "comps": [...], "events": [...]}`
//! where each comp is one compilation in the form `spec/vm/CodeBlockWF.tla` reads.
//!
//! `hdump --sig` prints the instruction set (opcode names, operand names and kinds) of the engine.

#[cfg(not(c03_hook))]
fn main() {
    println!("{{\"nohook\": true}}");
    std::process::exit(3);
}

#[cfg(c03_hook)]
fn main() {
    hooked::main();
}

#[cfg(c03_hook)]
mod hooked {
    use boa_engine::{
        Context, Module, Script, Source, context::ContextBuilder, verif::codeblock as hook,
        vm::RuntimeLimits,
    };
    use hcommon::*;
    use serde_json::{Map, Value, json};
    use std::collections::{BTreeMap, BTreeSet};
    use std::io::{BufRead, Write};

    /// TLC integers are 32-bit; anything this large is outside every table anyway.
    const BIG: i64 = 1 << 30;

    fn clamp(v: &Value) -> Value {
        match v {
            Value::Number(n) => {
                if let Some(i) = n.as_i64() {
                    json!(i.clamp(-BIG, BIG))
                } else if n.as_u64().is_some() {
                    json!(BIG)
                } else {
                    json!(0)
                }
            }
            Value::Array(a) => Value::Array(a.iter().map(clamp).collect()),
            other => other.clone(),
        }
    }

    fn u(v: &Value, k: &str) -> i64 {
        v.get(k).and_then(Value::as_i64).unwrap_or(BIG).clamp(-BIG, BIG)
    }

    fn b(v: &Value, k: &str) -> bool {
        v.get(k).and_then(Value::as_bool).unwrap_or(false)
    }

    /// One block in the form the specification reads. `index_of` maps block ids to 1-based indices
    /// inside the compilation.
    fn block_for_tlc(d: &Value, index_of: &BTreeMap<u64, usize>) -> Value {
        let flags = d.get("flags").cloned().unwrap_or(json!({}));
        let consts: Vec<Value> = d["constants"]
            .as_array()
            .map(|a| {
                a.iter()
                    .map(|c| match c["k"].as_str().unwrap_or("?") {
                        "string" => json!({"k": "s"}),
                        "bigint" => json!({"k": "n"}),
                        "function" => {
                            let id = c["id"].as_u64().unwrap_or(u64::MAX);
                            json!({"k": "f", "b": index_of.get(&id).copied().unwrap_or(0)})
                        }
                        "scope" => json!({"k": "c", "si": u(c, "scope_index"), "fn": b(c, "function"),
                                          "nl": u(c, "non_local"), "al": b(c, "all_local")}),
                        other => json!({"k": other}),
                    })
                    .collect()
            })
            .unwrap_or_default();
        let binds: Vec<Value> = d["bindings"]
            .as_array()
            .map(|a| {
                a.iter()
                    .map(|x| {
                        let s = match x["scope"].as_str().unwrap_or("?") {
                            "global_object" => "go",
                            "global_declarative" => "gd",
                            "stack" => "st",
                            _ => "?",
                        };
                        json!({"s": s, "i": u(x, "index"), "bi": u(x, "binding_index")})
                    })
                    .collect()
            })
            .unwrap_or_default();
        let handlers: Vec<Value> = d["handlers"]
            .as_array()
            .map(|a| {
                a.iter()
                    .map(|h| json!({"s": u(h, "start"), "e": u(h, "end"), "h": u(h, "handler"), "env": u(h, "environment_count")}))
                    .collect()
            })
            .unwrap_or_default();
        let code: Vec<Value> = d["code"]
            .as_array()
            .map(|a| {
                a.iter()
                    .map(|i| {
                        let mut args = Map::new();
                        if let Some(l) = i["args"].as_array() {
                            for t in l {
                                args.insert(t[0].as_str().unwrap_or("?").to_string(), clamp(&t[2]));
                            }
                        }
                        json!({"pc": u(i, "pc"), "nx": u(i, "next"), "op": i["op"], "a": Value::Object(args)})
                    })
                    .collect()
            })
            .unwrap_or_default();
        json!({
            "id": d["id"],
            "name": d["name"],
            "nreg": u(d, "register_count"),
            "nparam": u(d, "parameter_length"),
            "len": u(d, "bytecode_len"),
            "nic": u(d, "ic"),
            "async": b(&flags, "is_async"),
            "gen": b(&flags, "is_generator"),
            "bindid": b(&flags, "has_binding_identifier"),
            "fscope": b(&flags, "has_function_scope"),
            "strict": b(&flags, "strict"),
            "finish_env": d.get("open_envs_at_finish").and_then(Value::as_i64).unwrap_or(-1),
            "consts": consts,
            "binds": binds,
            "handlers": handlers,
            "glex": clamp(&d["global_lexs"]),
            "gvar": clamp(&d["global_vars"]),
            "gfn": clamp(&d["global_fns"]),
            "code": code,
        })
    }

    /// Builds the compilation rooted at `root` from the logged blocks.
    fn comp_for_tlc(root: u64, kind: &str, by_id: &BTreeMap<u64, Value>) -> Value {
        let mut order: Vec<u64> = Vec::new();
        let mut index_of: BTreeMap<u64, usize> = BTreeMap::new();
        let mut stack = vec![root];
        while let Some(id) = stack.pop() {
            if index_of.contains_key(&id) {
                continue;
            }
            let Some(d) = by_id.get(&id) else { continue };
            order.push(id);
            index_of.insert(id, order.len());
            if let Some(cs) = d["constants"].as_array() {
                for c in cs.iter().rev() {
                    if c["k"] == "function" {
                        if let Some(i) = c["id"].as_u64() {
                            stack.push(i);
                        }
                    }
                }
            }
        }
        let blocks: Vec<Value> = order.iter().map(|id| block_for_tlc(&by_id[id], &index_of)).collect();
        json!({"kind": kind, "root": 1, "blocks": blocks})
    }

    fn run_scenario(sc: &Value) -> Value {
        let id = sc.get("id").cloned().unwrap_or(Value::Null);
        let src = sc.get("src").and_then(Value::as_str).unwrap_or("").to_string();
        let kind = sc.get("kind").and_then(Value::as_str).unwrap_or("script").to_string();
        let strict = b(sc, "strict");
        let nevents = sc.get("events").and_then(Value::as_u64).unwrap_or(0) as usize;

        let mut ctx: Context = ContextBuilder::new().build().expect("context");
        install_print(&mut ctx);
        if strict {
            ctx.strict(true);
        }
        let mut lim = RuntimeLimits::default();
        lim.set_loop_iteration_limit(sc.get("loop").and_then(Value::as_u64).unwrap_or(300));
        lim.set_recursion_limit(sc.get("rec").and_then(Value::as_u64).unwrap_or(48) as usize);
        lim.set_stack_size_limit(sc.get("stack").and_then(Value::as_u64).unwrap_or(20_000) as usize);
        ctx.set_runtime_limits(lim);

        hook::set_code_block_log(true);
        hook::set_depth_events(0);

        let mut status = "ok";
        let mut root: Option<(u64, &str)> = None;
        let mut completion = Value::Null;
        match kind.as_str() {
            "module" => match Module::parse(Source::from_bytes(src.as_bytes()), None, &mut ctx) {
                Err(_) => status = "parse",
                Ok(m) => {
                    let _p = m.load(&mut ctx);
                    let _ = ctx.run_jobs();
                    match m.link(&mut ctx) {
                        Err(_) => status = "compile",
                        Ok(()) => {
                            // the module's own block is the last one logged
                        }
                    }
                }
            },
            _ => match Script::parse(Source::from_bytes(src.as_bytes()), None, &mut ctx) {
                Err(_) => status = "parse",
                Ok(s) => match s.codeblock(&mut ctx) {
                    Err(_) => status = "compile",
                    Ok(cb) => {
                        root = Some((cb.verif_id(), "script"));
                        if kind == "run" {
                            hook::set_depth_events(nevents);
                            let r = s.evaluate(&mut ctx);
                            let _ = ctx.run_jobs();
                            completion = json!(render_completion(&r, &mut ctx));
                        }
                    }
                },
            },
        }
        let events = hook::take_depth_events();
        hook::set_depth_events(0);
        let log = hook::take_code_block_log();
        hook::set_code_block_log(false);
        let _ = take_out();

        let mut by_id: BTreeMap<u64, Value> = BTreeMap::new();
        let mut referenced: BTreeSet<u64> = BTreeSet::new();
        let mut last_id = None;
        for d in log {
            if let Some(i) = d["id"].as_u64() {
                if let Some(cs) = d["constants"].as_array() {
                    for c in cs {
                        if c["k"] == "function" {
                            if let Some(f) = c["id"].as_u64() {
                                referenced.insert(f);
                            }
                        }
                    }
                }
                last_id = Some(i);
                by_id.insert(i, d);
            }
        }
        if kind == "module" && status == "ok" {
            if let Some(i) = last_id {
                root = Some((i, "module"));
            }
        }
        let mut comps = Vec::new();
        if let Some((r, k)) = root {
            comps.push(comp_for_tlc(r, k, &by_id));
        }
        // blocks compiled later (eval / Function): every logged block nobody references
        for (i, _) in &by_id {
            if Some(*i) != root.map(|r| r.0) && !referenced.contains(i) {
                comps.push(comp_for_tlc(*i, "late", &by_id));
            }
        }
        let mut out = json!({"id": id, "status": status, "comps": comps});
        if nevents > 0 {
            out["events"] = json!(events.iter().map(|e| e.to_vec()).collect::<Vec<_>>());
            out["completion"] = completion;
        }
        out
    }

    pub fn main() {
        quiet_panics();
        let args: Vec<String> = std::env::args().collect();
        if args.len() > 1 && args[1] == "--sig" {
            println!("{}", hook::opcode_signatures());
            return;
        }
        let input: Box<dyn BufRead + Send> = if args.len() > 1 {
            Box::new(std::io::BufReader::new(std::fs::File::open(&args[1]).expect("open input")))
        } else {
            Box::new(std::io::BufReader::new(std::io::stdin()))
        };
        // One worker thread with a large stack handles all scenarios; a panic is caught per scenario
        // (a stack overflow or abort kills the process: the driver attributes it to the unanswered scenario).
        let worker = std::thread::Builder::new()
            .stack_size(1 << 30)
            .spawn(move || {
                let stdout = std::io::stdout();
                for line in input.lines() {
                    let line = line.expect("read");
                    if line.trim().is_empty() {
                        continue;
                    }
                    let sc: Value = match serde_json::from_str(&line) {
                        Ok(v) => v,
                        Err(e) => {
                            eprintln!("bad scenario line: {e}");
                            std::process::exit(2);
                        }
                    };
                    let id = sc.get("id").cloned().unwrap_or(Value::Null);
                    let r = std::panic::catch_unwind(std::panic::AssertUnwindSafe(|| run_scenario(&sc)));
                    let mut res = match r {
                        Ok(v) => v,
                        Err(p) => {
                            let loc = LAST_PANIC.with(|c| c.borrow().clone());
                            hook::set_code_block_log(false);
                            hook::set_depth_events(0);
                            json!({"status": "panic", "panic": format!("{} @ {}", panic_message(&p), loc)})
                        }
                    };
                    res["id"] = id;
                    let mut lock = stdout.lock();
                    serde_json::to_writer(&mut lock, &res).expect("write");
                    lock.write_all(b"\n").expect("write");
                    lock.flush().expect("flush");
                }
            })
            .expect("spawn");
        worker.join().expect("worker");
    }
}
