//! Detects whether the engine this harness is built against carries the C03 hook
//! (`core/engine/src/verif/codeblock.rs`); sets `cfg(c03_hook)` if so. Without the hook the binary
//! still builds and answers every request with `{"nohook": true}` (the check turns that into exit 2).
use std::path::PathBuf;

fn main() {
    println!("cargo:rustc-check-cfg=cfg(c03_hook)");
    let out = PathBuf::from(std::env::var("OUT_DIR").expect("OUT_DIR"));
    // <harness>/target/.../build/hdump-*/out  ->  walk up to the workspace root
    let mut dir = out.as_path();
    let mut engine: Option<PathBuf> = None;
    while let Some(parent) = dir.parent() {
        let manifest = parent.join("Cargo.toml");
        if manifest.exists() && parent.join("crates").exists() {
            if let Ok(text) = std::fs::read_to_string(&manifest) {
                for line in text.lines() {
                    let l = line.trim();
                    if l.starts_with("boa_engine") {
                        if let Some(i) = l.find("path") {
                            let rest = &l[i..];
                            if let (Some(a), Some(b)) = (rest.find('"'), rest.rfind('"')) {
                                if b > a {
                                    engine = Some(PathBuf::from(&rest[a + 1..b]));
                                }
                            }
                        }
                    }
                }
            }
            println!("cargo:rerun-if-changed={}", manifest.display());
            break;
        }
        dir = parent;
    }
    if let Some(engine) = engine {
        let hook = engine.join("src/verif/codeblock.rs");
        println!("cargo:rerun-if-changed={}", hook.display());
        println!("cargo:rerun-if-changed={}", engine.join("src/verif").display());
        if hook.exists() {
            println!("cargo:rustc-cfg=c03_hook");
        }
    }
}
