//! Feature detection for the optional hook `boa_engine::verif::array_storage_kind` (proposal
//! work/proposals/C14-hook): the harness exposes `__kind(obj)` to scripts only when the engine has it.
use std::path::PathBuf;

fn main() {
    println!("cargo:rustc-check-cfg=cfg(has_array_kind)");
    // the workspace root is the nearest ancestor of OUT_DIR holding a [workspace] manifest (this also works when
    // the crates directory is a symlink shared with a mirror workspace that points at a scratch worktree)
    let mut dir = PathBuf::from(std::env::var("OUT_DIR").unwrap_or_default());
    let mut ws = PathBuf::from(std::env::var("CARGO_MANIFEST_DIR").unwrap_or_default()).join("../../Cargo.toml");
    while dir.pop() {
        let cand = dir.join("Cargo.toml");
        if std::fs::read_to_string(&cand).map(|t| t.contains("[workspace]")).unwrap_or(false) {
            ws = cand;
            break;
        }
    }
    println!("cargo:rerun-if-changed={}", ws.display());
    let mut engine = String::from("/repo/core/engine");
    if let Ok(text) = std::fs::read_to_string(&ws) {
        for line in text.lines() {
            if line.trim_start().starts_with("boa_engine") {
                if let Some(i) = line.find("path = \"") {
                    let rest = &line[i + 8..];
                    if let Some(j) = rest.find('"') {
                        engine = rest[..j].to_string();
                    }
                }
            }
        }
    }
    let verif = PathBuf::from(engine).join("src/verif.rs");
    println!("cargo:rerun-if-changed={}", verif.display());
    if std::fs::read_to_string(&verif).map(|s| s.contains("pub fn array_storage_kind")).unwrap_or(false) {
        println!("cargo:rustc-cfg=has_array_kind");
    }
}
