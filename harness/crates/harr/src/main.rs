//! C14 scenario runner: like `hjs` (one strict-mode script per scenario, native `print`), plus the global
//! `__kind(obj)` that reports the storage form of an object's indexed properties when the engine offers the
//! hook `boa_engine::verif::array_storage_kind` (otherwise the global is absent and scripts print "?").

use boa_engine::{Context, JsValue, Source, context::ContextBuilder};
use hcommon::*;
use serde_json::{Value, json};
use std::io::{BufRead, Write};

#[cfg(has_array_kind)]
fn install_kind(ctx: &mut Context) {
    use boa_engine::{JsResult, NativeFunction, js_string, property::Attribute};
    fn kind(_this: &JsValue, args: &[JsValue], _ctx: &mut Context) -> JsResult<JsValue> {
        Ok(match args.first().and_then(JsValue::as_object) {
            Some(o) => JsValue::from(js_string!(boa_engine::verif::array_storage_kind(&o))),
            None => JsValue::undefined(),
        })
    }
    let f = boa_engine::object::FunctionObjectBuilder::new(ctx.realm(), NativeFunction::from_fn_ptr(kind))
        .name(js_string!("__kind"))
        .length(1)
        .build();
    ctx.register_global_property(js_string!("__kind"), f, Attribute::empty())
        .expect("__kind registration");
}

#[cfg(not(has_array_kind))]
fn install_kind(_ctx: &mut Context) {}

fn run_scenario(sc: Value) -> Value {
    let mut steps_out = Vec::new();
    {
        let mut ctx = ContextBuilder::new().build().expect("context");
        install_print(&mut ctx);
        install_kind(&mut ctx);
        ctx.strict(true);
        let _ = take_out();
        for step in sc.get("steps").and_then(Value::as_array).cloned().unwrap_or_default() {
            let src = step.get("src").and_then(Value::as_str).unwrap_or("");
            let r = ctx.eval(Source::from_bytes(src));
            let c = render_completion(&r, &mut ctx);
            steps_out.push(json!({"out": take_out(), "c": c}));
        }
    }
    json!({"id": sc.get("id").cloned().unwrap_or(Value::Null), "steps": steps_out, "kindhook": cfg!(has_array_kind)})
}

fn main() {
    quiet_panics();
    let args: Vec<String> = std::env::args().collect();
    let input: Box<dyn BufRead> = if args.len() > 1 {
        Box::new(std::io::BufReader::new(std::fs::File::open(&args[1]).expect("open input")))
    } else {
        Box::new(std::io::BufReader::new(std::io::stdin()))
    };
    let stdout = std::io::stdout();
    for line in input.lines() {
        let line = line.expect("read");
        if line.trim().is_empty() {
            continue;
        }
        let sc: Value = match serde_json::from_str(&line) {
            Ok(v) => v,
            Err(e) => {
                eprintln!("bad scenario line: {e}");
                std::process::exit(2);
            }
        };
        let id = sc.get("id").cloned().unwrap_or(Value::Null);
        let res = match isolated(move || {
            let r = std::panic::catch_unwind(std::panic::AssertUnwindSafe(|| run_scenario(sc)));
            match r {
                Ok(v) => v,
                Err(p) => {
                    let loc = LAST_PANIC.with(|c| c.borrow().clone());
                    json!({"panic": format!("{} @ {}", panic_message(&p), loc)})
                }
            }
        }) {
            Ok(mut v) => {
                if v.get("panic").is_some() {
                    v["id"] = id;
                }
                v
            }
            Err(m) => json!({"id": id, "panic": m}),
        };
        let mut lock = stdout.lock();
        serde_json::to_writer(&mut lock, &res).expect("write");
        lock.write_all(b"\n").expect("write");
        lock.flush().expect("flush");
    }
}
