//! C19 evaluation clause: runs source texts on fresh contexts and reports print trace + completion per step.
//! Same scenario format and value rendering as hjs (eval / jobs steps only), but one long-lived worker thread
//! with a large stack instead of a thread per scenario (a panic is caught inside the worker; a scenario that does
//! not answer within its timeout is reported as {"hang": true} and the worker is replaced).

use boa_engine::{Context, Source, context::ContextBuilder, vm::RuntimeLimits};
use hcommon::*;
use serde_json::{Value, json};
use std::io::{BufRead, Write};
use std::sync::mpsc;
use std::time::Duration;

fn run_scenario(sc: &Value) -> Value {
    let cfg = sc.get("cfg").cloned().unwrap_or(json!({}));
    let mut steps_out = Vec::new();
    let mut ctx: Context = ContextBuilder::new().build().expect("context");
    install_print(&mut ctx);
    let mut lim = RuntimeLimits::default();
    if let Some(n) = cfg.get("loop").and_then(Value::as_u64) {
        lim.set_loop_iteration_limit(n);
    }
    if let Some(n) = cfg.get("rec").and_then(Value::as_u64) {
        lim.set_recursion_limit(n as usize);
    }
    ctx.set_runtime_limits(lim);
    let _ = take_out();
    for step in sc.get("steps").and_then(Value::as_array).cloned().unwrap_or_default() {
        let kind = step.get("kind").and_then(Value::as_str).unwrap_or("eval");
        let c = match kind {
            "jobs" => {
                let r = ctx.run_jobs().map(|()| boa_engine::JsValue::undefined());
                render_completion(&r, &mut ctx)
            }
            _ => {
                let src = step.get("src").and_then(Value::as_str).unwrap_or("");
                let r = ctx.eval(Source::from_bytes(src));
                render_completion(&r, &mut ctx)
            }
        };
        steps_out.push(json!({"out": take_out(), "c": c}));
    }
    json!({"steps": steps_out})
}

fn spawn_worker() -> (mpsc::Sender<Value>, mpsc::Receiver<Value>) {
    let (tx_in, rx_in) = mpsc::channel::<Value>();
    let (tx_out, rx_out) = mpsc::channel::<Value>();
    std::thread::Builder::new()
        .stack_size(512 << 20)
        .spawn(move || {
            while let Ok(sc) = rx_in.recv() {
                let r = std::panic::catch_unwind(std::panic::AssertUnwindSafe(|| run_scenario(&sc)));
                let v = match r {
                    Ok(v) => v,
                    Err(p) => {
                        let loc = LAST_PANIC.with(|c| c.borrow().clone());
                        let _ = take_out();
                        json!({"panic": format!("{} @ {}", panic_message(&p), loc)})
                    }
                };
                if tx_out.send(v).is_err() {
                    break;
                }
            }
        })
        .expect("spawn");
    (tx_in, rx_out)
}

fn main() {
    quiet_panics();
    let args: Vec<String> = std::env::args().collect();
    let input: Box<dyn BufRead> = if args.len() > 1 {
        Box::new(std::io::BufReader::new(std::fs::File::open(&args[1]).expect("open input")))
    } else {
        Box::new(std::io::BufReader::new(std::io::stdin()))
    };
    let stdout = std::io::stdout();
    let (mut tx, mut rx) = spawn_worker();
    for line in input.lines() {
        let line = line.expect("read");
        if line.trim().is_empty() {
            continue;
        }
        let sc: Value = match serde_json::from_str(&line) {
            Ok(v) => v,
            Err(e) => {
                eprintln!("bad scenario line: {e}");
                std::process::exit(2);
            }
        };
        let id = sc.get("id").cloned().unwrap_or(Value::Null);
        let tmo = sc.get("timeout_ms").and_then(Value::as_u64).unwrap_or(30_000);
        tx.send(sc).expect("worker alive");
        let mut res = match rx.recv_timeout(Duration::from_millis(tmo)) {
            Ok(v) => v,
            Err(_) => {
                let (t2, r2) = spawn_worker();
                tx = t2;
                rx = r2;
                json!({"hang": true})
            }
        };
        res["id"] = id;
        let mut lock = stdout.lock();
        serde_json::to_writer(&mut lock, &res).expect("write");
        lock.write_all(b"\n").expect("write");
        lock.flush().expect("flush");
    }
    std::process::exit(0);
}
