//! Feature detection: the promise job event hook (`boa_engine::verif::{set_job_events, take_job_events}`,
//! proposal work/proposals/C16-hook) may or may not be present in the tree the harness is built against.
use std::path::Path;

fn main() {
    println!("cargo::rustc-check-cfg=cfg(has_job_hook)");
    // the workspace manifest: of the mirror when the driver builds one (tools/mkmirror.sh links `crates`
    // into the mirror, so the package directory alone does not tell which workspace is being built)
    println!("cargo::rerun-if-env-changed=VERIF_HARNESS_DIR");
    let manifest = std::env::var("CARGO_MANIFEST_DIR").unwrap_or_default();
    let ws = match std::env::var("VERIF_HARNESS_DIR") {
        Ok(d) if !d.is_empty() => Path::new(&d).join("Cargo.toml"),
        _ => Path::new(&manifest).join("../../Cargo.toml"),
    };
    println!("cargo::rerun-if-changed={}", ws.display());
    let mut has = false;
    if let Ok(text) = std::fs::read_to_string(&ws) {
        for line in text.lines() {
            let line = line.trim_start();
            if !line.starts_with("boa_engine") {
                continue;
            }
            if let Some(a) = line.find("path = \"") {
                let rest = &line[a + 8..];
                if let Some(b) = rest.find('"') {
                    let p = Path::new(&rest[..b]).join("src/verif.rs");
                    println!("cargo::rerun-if-changed={}", p.display());
                    if let Ok(v) = std::fs::read_to_string(&p) {
                        has = v.contains("pub fn take_job_events");
                    }
                }
            }
        }
    }
    if has {
        println!("cargo::rustc-cfg=has_job_hook");
    }
}
