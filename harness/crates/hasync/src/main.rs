//! C16 replay binary: runs a rendered promise/async scenario (one or two scripts, each followed by a
//! drain of the job queue) under several host schedules and returns the observation stream of each.
//!
//! Input line:  {"id":…, "src":[script1, script2?], "modes":[MODE…]}
//!   MODE = {"m":"sync"}                          Script::evaluate + Context::run_jobs   (SimpleJobExecutor)
//!        | {"m":"eval"}                          Context::eval + Context::run_jobs      (SimpleJobExecutor)
//!        | {"m":"async","budget":b,"seed":s}     evaluate_async_with_budget(b) polled by hand, then
//!                                                SimpleJobExecutor::run_jobs_async polled by hand; the seed
//!                                                chooses what the host does between polls (nothing, extra
//!                                                no-op polls of an unrelated future, a forced collection)
//!        | {"m":"sweep","budgets":[b…],"seed":s}  the async schedule for every budget of the ascending list; the
//!                                                sweep stops after the first budget under which no evaluation
//!                                                yielded (all larger budgets give the very same execution) and
//!                                                then runs the last budget of the list; answers
//!                                                {"sweep":[{"budget":b,"steps":…,"jobs":…}…]}
//!        | {"m":"count","seed":s}                a strict FIFO executor defined here that records
//!                                                enqueue/run events into the observation stream and drains
//!                                                the queue in several run_jobs calls (seeded quotas); host
//!                                                hooks record HostPromiseRejectionTracker calls
//!   "reuse": true makes the sync/eval/async modes of one scenario share one context (count always builds
//!   its own context, because it installs its own executor and hooks)
//! Output line: {"id":…, "hook":bool, "res":[{"steps":[{"out":[…],"c":completion,"polls":n}…], "jobs":[["e",1],["r",1]…]}
//!               | {"panic":msg}]}
//!   "jobs" (only when the engine has the cfg(boa_verif) job event hook, "hook": true): what SimpleJobExecutor
//!   itself recorded in the sync/eval/async modes: ("e", id) enqueue, ("r", id) the job is called
//! Stream entries: print lines as rendered by hcommon ("s:label n:7"), "J+<id>" job enqueued (ids count
//! from 1 in enqueue order), "J><id>" job starts, "K:reject" / "K:handle" tracker calls, "J!<completion>"
//! a job returned an error (never expected), "J?other" a non-promise job was enqueued.

use boa_engine::{
    Context, JsResult, JsValue, Script, Source,
    builtins::promise::OperationType,
    context::{ContextBuilder, HostHooks},
    job::{Job, JobExecutor, PromiseJob, SimpleJobExecutor},
    object::JsObject,
};
use hcommon::*;
use serde_json::{Value, json};
use std::cell::{Cell, RefCell};
use std::collections::VecDeque;
use std::future::Future;
use std::io::{BufRead, Write};
use std::pin::Pin;
use std::rc::Rc;
use std::task::{Context as TaskCx, Poll, Waker};

fn push_event(s: String) {
    OUT.with(|o| o.borrow_mut().push(s));
}

/// xorshift64*: the only source of randomness (seeded by the driver from VERIF_SEED)
struct Rng(u64);
impl Rng {
    fn new(seed: u64) -> Self {
        Rng(seed.wrapping_mul(0x9E37_79B9_7F4A_7C15) | 1)
    }
    fn next(&mut self) -> u64 {
        let mut x = self.0;
        x ^= x >> 12;
        x ^= x << 25;
        x ^= x >> 27;
        self.0 = x;
        x.wrapping_mul(0x2545_F491_4F6C_DD1D)
    }
    fn below(&mut self, n: u64) -> u64 {
        (self.next() >> 33) % n
    }
}

/// Polls `fut` to completion with a no-op waker; `between` runs after every `Pending`.
fn poll_by_hand<F: Future>(fut: F, mut between: impl FnMut(u64)) -> (F::Output, u64) {
    let mut fut = std::pin::pin!(fut);
    let mut cx = TaskCx::from_waker(Waker::noop());
    let mut polls = 0u64;
    loop {
        polls += 1;
        if let Poll::Ready(v) = fut.as_mut().poll(&mut cx) {
            return (v, polls);
        }
        between(polls);
        if polls > 50_000_000 {
            panic!("future never completes");
        }
    }
}

/// An unrelated host future that the hand-rolled executor also polls now and then.
struct Idle(u32);
impl Future for Idle {
    type Output = ();
    fn poll(mut self: Pin<&mut Self>, _: &mut TaskCx<'_>) -> Poll<()> {
        if self.0 == 0 {
            Poll::Ready(())
        } else {
            self.0 -= 1;
            Poll::Pending
        }
    }
}

/// What the hand-rolled executor does between two polls: usually nothing, sometimes it polls an unrelated
/// future to completion, and (at most once per run, in a quarter of the runs) it forces a collection.
struct Noise {
    rng: Rng,
    gc_at: Option<u64>,
}

impl Noise {
    fn new(seed: u64) -> Self {
        let mut rng = Rng::new(seed);
        let gc_at = if rng.below(4) == 0 { Some(1 + rng.below(24)) } else { None };
        Noise { rng, gc_at }
    }
    fn between_polls(&mut self, polls: u64) {
        if self.gc_at == Some(polls) {
            self.gc_at = None;
            boa_gc::force_collect();
        }
        if self.rng.below(8) == 0 {
            let mut idle = std::pin::pin!(Idle(self.rng.below(3) as u32));
            let mut cx = TaskCx::from_waker(Waker::noop());
            while idle.as_mut().poll(&mut cx).is_pending() {}
        }
    }
}

// ---------------------------------------------------------------- counting executor + hooks

#[derive(Default)]
struct CountingExecutor {
    queue: RefCell<VecDeque<(u64, PromiseJob)>>,
    next_id: Cell<u64>,
    quota: Cell<u64>,
}

impl JobExecutor for CountingExecutor {
    fn enqueue_job(self: Rc<Self>, job: Job, _context: &mut Context) {
        match job {
            Job::PromiseJob(p) => {
                let id = self.next_id.get() + 1;
                self.next_id.set(id);
                push_event(format!("J+{id}"));
                self.queue.borrow_mut().push_back((id, p));
            }
            _ => push_event("J?other".into()),
        }
    }

    /// Runs at most `quota` jobs (strict FIFO, one at a time), then returns.
    fn run_jobs(self: Rc<Self>, context: &mut Context) -> JsResult<()> {
        let mut left = self.quota.get();
        while left > 0 {
            let next = self.queue.borrow_mut().pop_front();
            let Some((id, job)) = next else { break };
            left -= 1;
            push_event(format!("J>{id}"));
            if let Err(e) = job.call(context) {
                let c = render_error(&e, context);
                push_event(format!("J!{c}"));
            }
        }
        Ok(())
    }
}

struct TrackHooks;
impl HostHooks for TrackHooks {
    fn promise_rejection_tracker(
        &self,
        _promise: &JsObject<boa_engine::builtins::promise::Promise>,
        operation: OperationType,
        _context: &mut Context,
    ) {
        push_event(
            match operation {
                OperationType::Reject => "K:reject",
                OperationType::Handle => "K:handle",
            }
            .into(),
        );
    }
}

// ---------------------------------------------------------------- modes

#[cfg(has_job_hook)]
fn hook_start() {
    boa_engine::verif::set_job_events(true);
}
#[cfg(has_job_hook)]
fn hook_take() -> Value {
    let evs = boa_engine::verif::take_job_events();
    boa_engine::verif::set_job_events(false);
    Value::Array(evs.into_iter().map(|(k, id)| json!([k.to_string(), id])).collect())
}
#[cfg(not(has_job_hook))]
fn hook_start() {}
#[cfg(not(has_job_hook))]
fn hook_take() -> Value {
    Value::Null
}

fn step_json(c: String, polls: u64) -> Value {
    json!({"out": take_out(), "c": c, "polls": polls})
}

fn new_default_context() -> Context {
    let mut ctx = ContextBuilder::new().build().expect("context");
    install_print(&mut ctx);
    ctx
}

/// `shared`: the context (default executor and hooks) reused by the sync/eval/async modes of one scenario
/// when the driver asks for it ("reuse": true).  Every script of the scenario language (re)initialises all
/// the globals it uses and every run ends with an empty job queue, so a reused context is a legitimate
/// host history; it also costs a fifth of a fresh context per run.
fn run_mode(srcs: &[String], mode: &Value, shared: &mut Option<Context>, reuse: bool) -> Value {
    let m = mode.get("m").and_then(Value::as_str).unwrap_or("sync");
    let seed = mode.get("seed").and_then(Value::as_u64).unwrap_or(1);
    let mut rng = Rng::new(seed);
    let mut noise = Noise::new(seed ^ 0x5bd1_e995);
    let mut steps = Vec::new();
    let _ = take_out();
    match m {
        "sync" | "eval" | "async" => {
            let mut own;
            let ctx: &mut Context = if reuse {
                shared.get_or_insert_with(new_default_context)
            } else {
                own = new_default_context();
                &mut own
            };
            hook_start();
            for src in srcs {
                if m == "async" {
                    let budget = mode.get("budget").and_then(Value::as_u64).unwrap_or(256) as u32;
                    let (r, polls) = match Script::parse(Source::from_bytes(src.as_str()), None, ctx) {
                        Ok(script) => {
                            poll_by_hand(script.evaluate_async_with_budget(ctx, budget), |p| noise.between_polls(p))
                        }
                        Err(e) => (Err(e), 0),
                    };
                    steps.push(step_json(render_completion(&r, ctx), polls));
                    let ex = ctx
                        .downcast_job_executor::<SimpleJobExecutor>()
                        .expect("default executor is SimpleJobExecutor");
                    let (r, polls) = {
                        let cell = RefCell::new(&mut *ctx);
                        poll_by_hand(ex.run_jobs_async(&cell), |p| noise.between_polls(p))
                    };
                    let r = r.map(|()| JsValue::undefined());
                    steps.push(step_json(render_completion(&r, ctx), polls));
                } else {
                    let r = if m == "sync" {
                        Script::parse(Source::from_bytes(src.as_str()), None, ctx).and_then(|s| s.evaluate(ctx))
                    } else {
                        ctx.eval(Source::from_bytes(src.as_str()))
                    };
                    steps.push(step_json(render_completion(&r, ctx), 1));
                    let r = ctx.run_jobs().map(|()| JsValue::undefined());
                    steps.push(step_json(render_completion(&r, ctx), 1));
                }
            }
        }
        "count" => {
            let ex = Rc::new(CountingExecutor::default());
            let mut ctx = ContextBuilder::new()
                .job_executor(ex.clone())
                .host_hooks(Rc::new(TrackHooks))
                .build()
                .expect("context");
            install_print(&mut ctx);
            for src in srcs {
                let r = ctx.eval(Source::from_bytes(src.as_str()));
                steps.push(step_json(render_completion(&r, &mut ctx), 1));
                // drain in several run_jobs calls
                let mut calls = 0u64;
                let mut last = Ok(JsValue::undefined());
                while !ex.queue.borrow().is_empty() {
                    ex.quota.set(1 + rng.below(4));
                    calls += 1;
                    last = ctx.run_jobs().map(|()| JsValue::undefined());
                    if calls > 100_000 {
                        panic!("job queue never drains");
                    }
                }
                steps.push(step_json(render_completion(&last, &mut ctx), calls));
            }
        }
        _ => return json!({"panic": format!("unknown mode {m}")}),
    }
    if m == "count" {
        json!({"steps": steps})
    } else {
        json!({"steps": steps, "jobs": hook_take()})
    }
}

fn guarded(srcs: &[String], mode: &Value, shared: &mut Option<Context>, reuse: bool) -> Value {
    let r = std::panic::catch_unwind(std::panic::AssertUnwindSafe(|| run_mode(srcs, mode, shared, reuse)));
    match r {
        Ok(v) => v,
        Err(p) => {
            let loc = LAST_PANIC.with(|c| c.borrow().clone());
            let _ = take_out();
            if let Some(c) = shared.take() {
                std::mem::forget(c);
            }
            json!({"panic": format!("{} @ {}", panic_message(&p), loc)})
        }
    }
}

fn run_sweep(srcs: &[String], mode: &Value, shared: &mut Option<Context>, reuse: bool) -> Value {
    let budgets: Vec<u64> = mode
        .get("budgets")
        .and_then(Value::as_array)
        .map(|a| a.iter().filter_map(Value::as_u64).collect())
        .unwrap_or_default();
    let seed = mode.get("seed").and_then(Value::as_u64).unwrap_or(1);
    let mut out = Vec::new();
    let mut k = 0;
    while k < budgets.len() {
        let b = budgets[k];
        let m = json!({"m": "async", "budget": b, "seed": seed.wrapping_add(b)});
        let mut r = guarded(srcs, &m, shared, reuse);
        // did any evaluation (even steps) yield?
        let yielded = r
            .get("steps")
            .and_then(Value::as_array)
            .map(|st| st.iter().step_by(2).any(|s| s.get("polls").and_then(Value::as_u64).unwrap_or(1) > 1))
            .unwrap_or(true);
        r["budget"] = json!(b);
        out.push(r);
        if !yielded && k + 1 < budgets.len() {
            // every larger budget gives this very execution; still run the largest one of the list
            k = budgets.len() - 1;
        } else {
            k += 1;
        }
    }
    json!({"sweep": out})
}

fn run_scenario(sc: &Value) -> Value {
    let srcs: Vec<String> = sc
        .get("src")
        .and_then(Value::as_array)
        .map(|a| a.iter().filter_map(|s| s.as_str().map(str::to_owned)).collect())
        .unwrap_or_default();
    let modes = sc.get("modes").and_then(Value::as_array).cloned().unwrap_or_default();
    let reuse = sc.get("reuse").and_then(Value::as_bool).unwrap_or(false);
    let mut shared: Option<Context> = None;
    let mut res = Vec::new();
    for mode in &modes {
        if mode.get("m").and_then(Value::as_str) == Some("sweep") {
            res.push(run_sweep(&srcs, mode, &mut shared, reuse));
            continue;
        }
        let r = std::panic::catch_unwind(std::panic::AssertUnwindSafe(|| run_mode(&srcs, mode, &mut shared, reuse)));
        res.push(match r {
            Ok(v) => v,
            Err(p) => {
                let loc = LAST_PANIC.with(|c| c.borrow().clone());
                let _ = take_out();
                // a context that panicked is not reused
                if let Some(c) = shared.take() {
                    std::mem::forget(c);
                }
                json!({"panic": format!("{} @ {}", panic_message(&p), loc)})
            }
        });
    }
    json!({"id": sc.get("id").cloned().unwrap_or(Value::Null), "hook": cfg!(has_job_hook), "res": res})
}

fn main() {
    quiet_panics();
    // One long-lived thread with a large stack runs every scenario (a thread per scenario costs a fresh
    // malloc arena and page faults for every context).  Panics are caught per mode; an abort of the
    // process is attributed to the scenario being run by the driver (vlib.run_lines).
    let h = std::thread::Builder::new()
        .stack_size(1 << 30)
        .spawn(main_loop)
        .expect("spawn");
    if h.join().is_err() {
        std::process::exit(3);
    }
}

fn main_loop() {
    let args: Vec<String> = std::env::args().collect();
    let input: Box<dyn BufRead> = if args.len() > 1 {
        Box::new(std::io::BufReader::new(std::fs::File::open(&args[1]).expect("open input")))
    } else {
        Box::new(std::io::BufReader::new(std::io::stdin()))
    };
    let stdout = std::io::stdout();
    for line in input.lines() {
        let line = line.expect("read");
        if line.trim().is_empty() {
            continue;
        }
        let sc: Value = match serde_json::from_str(&line) {
            Ok(v) => v,
            Err(e) => {
                eprintln!("bad scenario line: {e}");
                std::process::exit(2);
            }
        };
        let res = run_scenario(&sc);
        let mut lock = stdout.lock();
        serde_json::to_writer(&mut lock, &res).expect("write");
        lock.write_all(b"\n").expect("write");
        lock.flush().expect("flush");
    }
}
