//! Shared pieces of the conformance harness: structural value rendering (never calls into JS),
//! the host `print` function, completion rendering and panic isolation.

use boa_engine::{
    Context, JsError, JsNativeErrorKind, JsObject, JsResult, JsValue, JsVariant, NativeFunction,
    error::EngineError, error::RuntimeLimitError, js_string, object::builtins::JsArray,
    property::Attribute,
};
use std::cell::RefCell;

thread_local! {
    /// The observation channel of the host `print` function.
    pub static OUT: RefCell<Vec<String>> = const { RefCell::new(Vec::new()) };
}

pub fn take_out() -> Vec<String> {
    OUT.with(|o| std::mem::take(&mut *o.borrow_mut()))
}

pub fn esc_units(units: impl Iterator<Item = u16>) -> String {
    let mut s = String::new();
    for u in units {
        if (0x20..0x7f).contains(&u) && u != 0x5c {
            s.push(u as u8 as char);
        } else if u == 0x5c {
            s.push_str("\\\\");
        } else {
            s.push_str(&format!("\\u{u:04X}"));
        }
    }
    s
}

pub fn render_num(x: f64) -> String {
    if x.is_nan() {
        "n:NaN".into()
    } else if x == 0.0 {
        if x.is_sign_negative() { "n:-0".into() } else { "n:0".into() }
    } else if x.is_infinite() {
        if x > 0.0 { "n:Infinity".into() } else { "n:-Infinity".into() }
    } else if x.fract() == 0.0 && x.abs() < 9_007_199_254_740_992.0 {
        format!("n:{}", x as i64)
    } else {
        format!("n:b:{:016X}", x.to_bits())
    }
}

fn error_class(obj: &JsObject, ctx: &Context) -> Option<&'static str> {
    let c = ctx.intrinsics().constructors();
    let table: [(&'static str, JsObject); 8] = [
        ("TypeError", c.type_error().prototype()),
        ("ReferenceError", c.reference_error().prototype()),
        ("RangeError", c.range_error().prototype()),
        ("SyntaxError", c.syntax_error().prototype()),
        ("EvalError", c.eval_error().prototype()),
        ("URIError", c.uri_error().prototype()),
        ("AggregateError", c.aggregate_error().prototype()),
        ("Error", c.error().prototype()),
    ];
    let mut p = obj.prototype();
    let mut n = 0;
    while let Some(o) = p {
        for (name, proto) in &table {
            if JsObject::equals(&o, proto) {
                return Some(name);
            }
        }
        n += 1;
        if n > 16 {
            break;
        }
        p = o.prototype();
    }
    None
}

/// Structural rendering of a value; never runs JS code.
pub fn render(v: &JsValue, ctx: &mut Context) -> String {
    match v.variant() {
        JsVariant::Undefined => "u".into(),
        JsVariant::Null => "null".into(),
        JsVariant::Boolean(b) => format!("b:{b}"),
        JsVariant::Integer32(i) => format!("n:{i}"),
        JsVariant::Float64(x) => render_num(x),
        JsVariant::String(s) => format!("s:{}", esc_units(s.iter())),
        JsVariant::BigInt(b) => format!("i:{b}"),
        JsVariant::Symbol(s) => match s.description() {
            Some(d) => format!("y:{}", esc_units(d.iter())),
            None => "y:".into(),
        },
        JsVariant::Object(o) => {
            if o.is_callable() {
                "o:Function".into()
            } else if o.is_array() {
                match JsArray::from_object(o.clone()).and_then(|a| a.length(ctx)) {
                    Ok(n) => format!("o:Array({n})"),
                    Err(_) => "o:Array(?)".into(),
                }
            } else if let Some(c) = error_class(&o, ctx) {
                format!("o:Error:{c}")
            } else {
                "o:Object".into()
            }
        }
    }
}

fn print(_this: &JsValue, args: &[JsValue], ctx: &mut Context) -> JsResult<JsValue> {
    let line = args.iter().map(|a| render(a, ctx)).collect::<Vec<_>>().join(" ");
    OUT.with(|o| o.borrow_mut().push(line));
    Ok(JsValue::undefined())
}

/// Installs the global `print` (non-writable, non-configurable so scripts cannot replace the channel).
pub fn install_print(ctx: &mut Context) {
    let f = boa_engine::object::FunctionObjectBuilder::new(ctx.realm(), NativeFunction::from_fn_ptr(print))
        .name(js_string!("print"))
        .length(0)
        .build();
    ctx.register_global_property(js_string!("print"), f, Attribute::empty())
        .expect("print registration");
}

pub fn native_kind_name(k: &JsNativeErrorKind) -> &'static str {
    match k {
        JsNativeErrorKind::Aggregate(_) => "AggregateError",
        JsNativeErrorKind::Error => "Error",
        JsNativeErrorKind::Eval => "EvalError",
        JsNativeErrorKind::Range => "RangeError",
        JsNativeErrorKind::Reference => "ReferenceError",
        JsNativeErrorKind::Syntax => "SyntaxError",
        JsNativeErrorKind::Type => "TypeError",
        JsNativeErrorKind::Uri => "URIError",
        _ => "OtherNativeError",
    }
}

/// `throw:<rendering>` | `limit:<kind>` | `enginepanic:<msg>`
pub fn render_error(e: &JsError, ctx: &mut Context) -> String {
    if let Some(eng) = e.as_engine() {
        return match eng {
            EngineError::RuntimeLimit(RuntimeLimitError::LoopIteration) => "limit:LoopIteration".into(),
            EngineError::RuntimeLimit(RuntimeLimitError::Recursion) => "limit:Recursion".into(),
            EngineError::RuntimeLimit(RuntimeLimitError::StackSize) => "limit:StackSize".into(),
            EngineError::Panic(p) => format!("enginepanic:{}", p.message()),
            #[allow(unreachable_patterns)]
            _ => "engine:other".into(),
        };
    }
    if let Some(n) = e.as_native() {
        return format!("throw:o:Error:{}", native_kind_name(n.kind()));
    }
    if let Some(v) = e.as_opaque() {
        let v = v.clone();
        return format!("throw:{}", render(&v, ctx));
    }
    "throw:?".into()
}

pub fn render_completion(r: &JsResult<JsValue>, ctx: &mut Context) -> String {
    match r {
        Ok(v) => format!("value:{}", render(v, ctx)),
        Err(e) => render_error(e, ctx),
    }
}

/// Runs `f` on a fresh thread with a large stack; a panic becomes `Err(message)`.
pub fn isolated<T: Send + 'static>(f: impl FnOnce() -> T + Send + 'static) -> Result<T, String> {
    let h = std::thread::Builder::new()
        .stack_size(512 << 20)
        .spawn(f)
        .expect("spawn");
    match h.join() {
        Ok(v) => Ok(v),
        Err(p) => Err(panic_message(&p)),
    }
}

pub fn panic_message(p: &Box<dyn std::any::Any + Send>) -> String {
    if let Some(s) = p.downcast_ref::<&str>() {
        (*s).to_string()
    } else if let Some(s) = p.downcast_ref::<String>() {
        s.clone()
    } else {
        "non-string panic".into()
    }
}

/// Silences the default panic hook output but records location + message of the last panic.
pub fn quiet_panics() {
    std::panic::set_hook(Box::new(|info| {
        let loc = info.location().map(|l| format!("{}:{}", l.file(), l.line())).unwrap_or_default();
        LAST_PANIC.with(|c| *c.borrow_mut() = format!("{loc}"));
    }));
}

thread_local! {
    pub static LAST_PANIC: RefCell<String> = const { RefCell::new(String::new()) };
}

// ---------------------------------------------------------------------------------------------- watchdog
// A scenario that does not come back (a native loop the runtime limits do not see) must not stall a whole
// check: once armed, the watchdog ends the process with exit status 3 when the deadline passes; the driver
// (vlib.run_lines) then records the unanswered scenario as {"abort": "exit status 3: watchdog ..."}.
static WATCHDOG_DEADLINE_MS: std::sync::atomic::AtomicU64 = std::sync::atomic::AtomicU64::new(0);

fn now_ms() -> u64 {
    std::time::SystemTime::now().duration_since(std::time::UNIX_EPOCH).map(|d| d.as_millis() as u64).unwrap_or(0)
}

/// Starts the watchdog thread (once per process).
pub fn start_watchdog() {
    std::thread::spawn(|| loop {
        std::thread::sleep(std::time::Duration::from_millis(200));
        let d = WATCHDOG_DEADLINE_MS.load(std::sync::atomic::Ordering::Relaxed);
        if d != 0 && now_ms() > d {
            eprintln!("watchdog: scenario exceeded its time budget");
            std::process::exit(3);
        }
    });
}

/// Arms the watchdog for the scenario that starts now (`ms` = 0 disarms it).
pub fn arm_watchdog(ms: u64) {
    WATCHDOG_DEADLINE_MS.store(if ms == 0 { 0 } else { now_ms() + ms }, std::sync::atomic::Ordering::Relaxed);
}

