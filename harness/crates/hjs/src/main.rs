//! Generic JS scenario runner. Reads one JSON scenario per line on stdin (or file argument),
//! writes one JSON result per line on stdout (flushed per scenario so that the driver can
//! attribute a process abort to the scenario that caused it).

use boa_engine::{
    Context, JsResult, JsValue, Script, Source, context::ContextBuilder, js_string,
    optimizer::OptimizerOptions, vm::RuntimeLimits,
};
use hcommon::*;
use serde_json::{Value, json};
use std::io::{BufRead, Write};
use std::task::{Context as TaskCx, Poll, Waker};

fn poll_to_end<F: Future>(fut: F) -> (F::Output, u64) {
    let mut fut = std::pin::pin!(fut);
    let mut cx = TaskCx::from_waker(Waker::noop());
    let mut polls = 0u64;
    loop {
        polls += 1;
        if let Poll::Ready(v) = fut.as_mut().poll(&mut cx) {
            return (v, polls);
        }
    }
}

fn arg_value(a: &Value) -> JsValue {
    match a {
        Value::Null => JsValue::null(),
        Value::Bool(b) => JsValue::from(*b),
        Value::Number(n) => {
            if let Some(i) = n.as_i64() {
                if let Ok(i) = i32::try_from(i) { JsValue::from(i) } else { JsValue::from(i as f64) }
            } else {
                JsValue::from(n.as_f64().unwrap_or(f64::NAN))
            }
        }
        Value::String(s) => JsValue::from(js_string!(s.as_str())),
        _ => JsValue::undefined(),
    }
}

fn apply_cfg(ctx: &mut Context, cfg: &Value) {
    let opt = cfg.get("opt").and_then(Value::as_u64).unwrap_or(14) as u8;
    ctx.set_optimizer_options(OptimizerOptions::from_bits_truncate(opt));
    if cfg.get("strict").and_then(Value::as_bool).unwrap_or(false) {
        ctx.strict(true);
    }
    let mut lim = RuntimeLimits::default();
    if let Some(n) = cfg.get("loop").and_then(Value::as_u64) {
        lim.set_loop_iteration_limit(n);
    }
    if let Some(n) = cfg.get("rec").and_then(Value::as_u64) {
        lim.set_recursion_limit(n as usize);
    }
    if let Some(n) = cfg.get("stack").and_then(Value::as_u64) {
        lim.set_stack_size_limit(n as usize);
    }
    ctx.set_runtime_limits(lim);
}

fn set_switches(cfg: &Value) {
    boa_engine::verif::set_ic_disabled(cfg.get("ic_off").and_then(Value::as_bool).unwrap_or(false));
    boa_gc::verif::set_stress(cfg.get("gc").and_then(Value::as_u64).unwrap_or(0));
    let b = |k: &str| cfg.get(k).and_then(Value::as_bool).unwrap_or(false);
    boa_engine::ast::verif::set_force_escape(b("force_escape"));
    boa_engine::verif::set_compiler_switches(b("no_const_cache"), b("no_hoist"), b("no_fusion"));
}

fn eval_step(ctx: &mut Context, step: &Value) -> JsResult<JsValue> {
    let src = step.get("src").and_then(Value::as_str).unwrap_or("");
    let via = step.get("via").and_then(Value::as_str).unwrap_or("bytes");
    match via {
        "bytes" => ctx.eval(Source::from_bytes(src)),
        "utf16" => {
            let u: Vec<u16> = src.encode_utf16().collect();
            ctx.eval(Source::from_utf16(&u))
        }
        "reader" => ctx.eval(Source::from_reader(src.as_bytes(), None)),
        "script" => {
            let s = Script::parse(Source::from_bytes(src), None, ctx)?;
            s.evaluate(ctx)
        }
        "async" => {
            let budget = step.get("budget").and_then(Value::as_u64).unwrap_or(256) as u32;
            let s = Script::parse(Source::from_bytes(src), None, ctx)?;
            let (r, _polls) = poll_to_end(s.evaluate_async_with_budget(ctx, budget));
            r
        }
        _ => ctx.eval(Source::from_bytes(src)),
    }
}

fn run_step(ctx: &mut Context, step: &Value) -> String {
    let kind = step.get("kind").and_then(Value::as_str).unwrap_or("eval");
    let r: JsResult<JsValue> = match kind {
        "eval" => eval_step(ctx, step),
        "jobs" => ctx.run_jobs().map(|()| JsValue::undefined()),
        "clearkept" => {
            ctx.clear_kept_objects();
            Ok(JsValue::undefined())
        }
        // run_jobs followed by the host's ClearKeptObjects (SimpleJobExecutor only clears while it has jobs)
        "jobsclear" => {
            let r = ctx.run_jobs().map(|()| JsValue::undefined());
            ctx.clear_kept_objects();
            r
        }
        "call" | "construct" => {
            let name = step.get("fn").and_then(Value::as_str).unwrap_or("f");
            let args: Vec<JsValue> = step
                .get("args")
                .and_then(Value::as_array)
                .map(|a| a.iter().map(arg_value).collect())
                .unwrap_or_default();
            let g = ctx.global_object();
            match g.get(js_string!(name), ctx) {
                Ok(f) => match f.as_object() {
                    Some(fo) => {
                        if kind == "call" {
                            fo.call(&JsValue::undefined(), &args, ctx)
                        } else {
                            fo.construct(&args, None, ctx).map(JsValue::from)
                        }
                    }
                    None => Ok(JsValue::from(js_string!("<<not-an-object>>"))),
                },
                Err(e) => Err(e),
            }
        }
        "gc" => {
            boa_gc::force_collect();
            Ok(JsValue::undefined())
        }
        _ => Ok(JsValue::undefined()),
    };
    render_completion(&r, ctx)
}

fn run_scenario(sc: Value) -> Value {
    let cfg = sc.get("cfg").cloned().unwrap_or(json!({}));
    let want_depths = sc.get("depths").and_then(Value::as_bool).unwrap_or(false);
    let want_ic = sc.get("ic_counters").and_then(Value::as_bool).unwrap_or(false);
    let base_stats = boa_gc::verif::stats();
    set_switches(&cfg);
    let mut steps_out = Vec::new();
    {
        let mut ctx = ContextBuilder::new().build().expect("context");
        install_print(&mut ctx);
        apply_cfg(&mut ctx, &cfg);
        let _ = take_out();
        let _ = boa_engine::verif::take_ic_counters();
        let d0 = boa_engine::verif::vm_depths(&ctx);
        for step in sc.get("steps").and_then(Value::as_array).cloned().unwrap_or_default() {
            let c = run_step(&mut ctx, &step);
            let mut o = json!({"out": take_out(), "c": c});
            if want_depths {
                let d = boa_engine::verif::vm_depths(&ctx);
                o["d"] = json!([d.0, d.1, d.2]);
            }
            if want_ic {
                let (h, m, s) = boa_engine::verif::take_ic_counters();
                o["ic"] = json!([h, m, s]);
            }
            steps_out.push(o);
        }
        if want_depths {
            steps_out.push(json!({"d0": [d0.0, d0.1, d0.2]}));
        }
    }
    set_switches(&json!({}));
    let mut res = json!({"id": sc.get("id").cloned().unwrap_or(Value::Null), "steps": steps_out});
    if sc.get("leak").and_then(Value::as_bool).unwrap_or(false) {
        boa_gc::force_collect();
        boa_gc::force_collect();
        let s = boa_gc::verif::stats();
        res["leak"] = json!([s.0 as i64 - base_stats.0 as i64, s.1 as i64 - base_stats.1 as i64, s.2 as i64 - base_stats.2 as i64]);
    }
    res
}

fn main() {
    quiet_panics();
    hcommon::start_watchdog();
    let args: Vec<String> = std::env::args().collect();
    let input: Box<dyn BufRead> = if args.len() > 1 {
        Box::new(std::io::BufReader::new(std::fs::File::open(&args[1]).expect("open input")))
    } else {
        Box::new(std::io::BufReader::new(std::io::stdin()))
    };
    let stdout = std::io::stdout();
    for line in input.lines() {
        let line = line.expect("read");
        if line.trim().is_empty() {
            continue;
        }
        let sc: Value = match serde_json::from_str(&line) {
            Ok(v) => v,
            Err(e) => {
                eprintln!("bad scenario line: {e}");
                std::process::exit(2);
            }
        };
        let id = sc.get("id").cloned().unwrap_or(Value::Null);
        hcommon::arm_watchdog(sc.get("timeout_ms").and_then(Value::as_u64).unwrap_or(0));
        let res = match isolated(move || {
            let r = std::panic::catch_unwind(std::panic::AssertUnwindSafe(|| run_scenario(sc)));
            match r {
                Ok(v) => v,
                Err(p) => {
                    let loc = LAST_PANIC.with(|c| c.borrow().clone());
                    json!({"panic": format!("{} @ {}", panic_message(&p), loc)})
                }
            }
        }) {
            Ok(mut v) => {
                if v.get("panic").is_some() {
                    v["id"] = id;
                }
                v
            }
            Err(m) => json!({"id": id, "panic": m}),
        };
        hcommon::arm_watchdog(0);
        let mut lock = stdout.lock();
        serde_json::to_writer(&mut lock, &res).expect("write");
        lock.write_all(b"\n").expect("write");
        lock.flush().expect("flush");
    }
}
