//! C20 replay binary: executes one *history* per input line on ONE thread.  A history creates several
//! `Context`s that are alive at the same time, further realms inside a context (`Context::create_realm`,
//! entered with `Context::enter_realm`), evaluates scripts inside a chosen realm, hands values from one
//! realm/context to another through Rust (`JsValue` handles, never through JS), drops contexts and makes
//! allocation noise (objects, shapes, strings, symbols, collections, whole contexts).
//!
//! Observation channel: every realm gets its own native `print` (non-writable, non-configurable global)
//! whose lines are tagged with the realm it was created for, so the trace also tells *whose* print ran.
//! Values are rendered natively (hcommon::render), never through JS.
//!
//! Scenario: {"id", "opts": {"share_realm": bool, "share_inbox": bool}, "steps": [
//!   {"op":"newctx","ctx":"A","realm":"A1"} | {"op":"newrealm","ctx":"A","realm":"A2"} |
//!   {"op":"eval","realm":"A1","src":"…","keep":"slot"?, "jobs":true?} |
//!   {"op":"pass","slot":"s","to":"B1"} | {"op":"dropctx","ctx":"A"} |
//!   {"op":"noise","kind":"objs|strings|symbols|gc|ctx|raw","n":k} ]}
//! Result: {"id", "steps":[{"out":[[tag,line]…], "c": completion} | {"ok":true} | {"err":…}]}
//! `share_realm` / `share_inbox` / `mirror_sab` are *mutation switches of the harness* used to demonstrate that the
//! check notices a loss of isolation (a second "realm" that is really the first one; a sabotage that silently also
//! happens in the sibling realms of the context, as if they shared their intrinsics); never set by the check proper.

use boa_engine::{
    Context, JsResult, JsString, JsSymbol, JsValue, NativeFunction, Source, context::ContextBuilder,
    js_string, object::FunctionObjectBuilder, property::Attribute, realm::Realm,
};
use boa_gc::{Gc, GcRefCell};
use hcommon::*;
use serde_json::{Value, json};
use std::cell::RefCell;
use std::collections::HashMap;
use std::io::{BufRead, Write};

thread_local! {
    /// All print lines of the thread in global order, tagged with the realm whose `print` produced them.
    static CHAN: RefCell<Vec<(String, String)>> = const { RefCell::new(Vec::new()) };
}

fn take_chan() -> Vec<(String, String)> {
    CHAN.with(|c| std::mem::take(&mut *c.borrow_mut()))
}

struct RealmEntry {
    ctx: String,
    realm: Realm,
    inbox: Gc<GcRefCell<JsValue>>,
}

struct World {
    ctxs: HashMap<String, Context>,
    realms: HashMap<String, RealmEntry>,
    slots: HashMap<String, JsValue>,
    share_realm: bool,
    share_inbox: bool,
    mirror_sab: bool,
}

fn tagged_print(_this: &JsValue, args: &[JsValue], tag: &String, ctx: &mut Context) -> JsResult<JsValue> {
    let line = args.iter().map(|a| render(a, ctx)).collect::<Vec<_>>().join(" ");
    CHAN.with(|c| c.borrow_mut().push((tag.clone(), line)));
    Ok(JsValue::undefined())
}

fn read_inbox(_this: &JsValue, _args: &[JsValue], cell: &Gc<GcRefCell<JsValue>>, _ctx: &mut Context) -> JsResult<JsValue> {
    Ok(cell.borrow().clone())
}

/// Installs `print` and `__inbox` into the realm that is current in `ctx`.
fn install_natives(ctx: &mut Context, tag: &str, inbox: &Gc<GcRefCell<JsValue>>) -> Result<(), String> {
    let p = FunctionObjectBuilder::new(
        ctx.realm(),
        NativeFunction::from_copy_closure_with_captures(tagged_print, tag.to_string()),
    )
    .name(js_string!("print"))
    .length(0)
    .build();
    ctx.register_global_property(js_string!("print"), p, Attribute::empty())
        .map_err(|e| format!("print registration: {e}"))?;
    let i = FunctionObjectBuilder::new(
        ctx.realm(),
        NativeFunction::from_copy_closure_with_captures(read_inbox, inbox.clone()),
    )
    .name(js_string!("__inbox"))
    .length(0)
    .build();
    ctx.register_global_property(js_string!("__inbox"), i, Attribute::empty())
        .map_err(|e| format!("inbox registration: {e}"))?;
    Ok(())
}

fn noise(kind: &str, n: u64) {
    match kind {
        "objs" => {
            // objects with many different shapes, arrays, closures, maps: allocated in a scratch context, then dropped
            let mut c = ContextBuilder::new().build().expect("context");
            let src = format!(
                "var keep=[];for(var i=0;i<{n};i++){{var o={{}};for(var j=0;j<(i%7)+1;j++){{o['k'+((i*31+j*17)%23)]=j;}}\
                 keep.push(o,[i,i+1],function(){{return i}},new Map([[i,o]]),'s'+i);if(i%5==0)delete o['k'+(i%23)];}}keep.length"
            );
            let _ = c.eval(Source::from_bytes(&src));
            drop(c);
        }
        "strings" => {
            let mut v = Vec::new();
            for i in 0..n {
                v.push(JsString::from(format!("noise-string-{i}-{}", i * 7919)));
                v.push(js_string!("length"));
            }
            drop(v);
        }
        "symbols" => {
            // advances the process-wide symbol hash counter
            for i in 0..n {
                let _ = JsSymbol::new(Some(JsString::from(format!("noise{i}"))));
            }
        }
        "gc" => {
            for _ in 0..n.max(1) {
                boa_gc::force_collect();
            }
        }
        "ctx" => {
            for _ in 0..n.max(1) {
                let mut c = ContextBuilder::new().build().expect("context");
                let _ = c.eval(Source::from_bytes("Array.prototype.push = 1; Symbol.for('noise-key'); [1,2,3].map(x=>x)"));
                let _ = c.create_realm();
                drop(c);
            }
        }
        "raw" => {
            // raw collector allocations that stay alive across the rest of the history
            let mut v = Vec::new();
            for i in 0..n {
                v.push(Gc::new(GcRefCell::new(i)));
            }
            std::mem::forget(v);
        }
        _ => {}
    }
}

impl World {
    fn step(&mut self, st: &Value) -> Value {
        let op = st.get("op").and_then(Value::as_str).unwrap_or("");
        let s = |k: &str| st.get(k).and_then(Value::as_str).unwrap_or("").to_string();
        match op {
            "newctx" => {
                let (cn, rn) = (s("ctx"), s("realm"));
                let mut ctx = match ContextBuilder::new().build() {
                    Ok(c) => c,
                    Err(e) => return json!({"err": format!("build: {e}")}),
                };
                let inbox = Gc::new(GcRefCell::new(JsValue::undefined()));
                if let Err(e) = install_natives(&mut ctx, &rn, &inbox) {
                    return json!({"err": e});
                }
                let realm = ctx.realm().clone();
                self.realms.insert(rn, RealmEntry { ctx: cn.clone(), realm, inbox });
                self.ctxs.insert(cn, ctx);
                json!({"ok": true})
            }
            "newrealm" => {
                let (cn, rn) = (s("ctx"), s("realm"));
                let Some(ctx) = self.ctxs.get_mut(&cn) else { return json!({"err": "no such context"}) };
                if self.share_realm {
                    // MUTATION (demonstration only): the "new" realm is the context's current realm
                    let realm = ctx.realm().clone();
                    let first = self.realms.values().find(|e| e.ctx == cn).map(|e| e.inbox.clone());
                    let inbox = first.unwrap_or_else(|| Gc::new(GcRefCell::new(JsValue::undefined())));
                    self.realms.insert(rn, RealmEntry { ctx: cn, realm, inbox });
                    return json!({"ok": true, "mutated": true});
                }
                let realm = match ctx.create_realm() {
                    Ok(r) => r,
                    Err(e) => return json!({"err": format!("create_realm: {e}")}),
                };
                let inbox = if self.share_inbox {
                    self.realms.values().find(|e| e.ctx == cn).map(|e| e.inbox.clone()).expect("first realm")
                } else {
                    Gc::new(GcRefCell::new(JsValue::undefined()))
                };
                let old = ctx.enter_realm(realm.clone());
                let r = install_natives(ctx, &rn, &inbox);
                ctx.enter_realm(old);
                if let Err(e) = r {
                    return json!({"err": e});
                }
                self.realms.insert(rn, RealmEntry { ctx: cn, realm, inbox });
                json!({"ok": true})
            }
            "eval" => {
                let rn = s("realm");
                let Some(re) = self.realms.get(&rn) else { return json!({"err": "no such realm"}) };
                let Some(ctx) = self.ctxs.get_mut(&re.ctx) else { return json!({"err": "context dropped"}) };
                let src = s("src");
                let jobs = st.get("jobs").and_then(Value::as_bool).unwrap_or(true);
                let _ = take_chan();
                let old = ctx.enter_realm(re.realm.clone());
                let r = ctx.eval(Source::from_bytes(&src));
                let jr = if jobs { ctx.run_jobs() } else { Ok(()) };
                let c = render_completion(&r, ctx);
                let jc = match &jr {
                    Ok(()) => "ok".to_string(),
                    Err(e) => render_error(e, ctx),
                };
                ctx.enter_realm(old);
                if let (Some(k), Ok(v)) = (st.get("keep").and_then(Value::as_str), &r) {
                    self.slots.insert(k.to_string(), v.clone());
                }
                let out: Vec<Value> = take_chan().into_iter().map(|(t, l)| json!([t, l])).collect();
                if self.mirror_sab && src.starts_with("__sab(") {
                    // MUTATION (demonstration only): the siblings of the realm suffer the same sabotage, silently
                    let cn = re.ctx.clone();
                    let sibs: Vec<Realm> = self.realms.iter().filter(|(n, e)| e.ctx == cn && **n != rn).map(|(_, e)| e.realm.clone()).collect();
                    for sr in sibs {
                        let old = ctx.enter_realm(sr);
                        let _ = ctx.eval(Source::from_bytes(&src));
                        ctx.enter_realm(old);
                    }
                    let _ = take_chan();
                }
                json!({"out": out, "c": c, "j": jc})
            }
            "pass" => {
                let Some(v) = self.slots.get(&s("slot")).cloned() else { return json!({"err": "empty slot"}) };
                let Some(re) = self.realms.get(&s("to")) else { return json!({"err": "no such realm"}) };
                *re.inbox.borrow_mut() = v;
                json!({"ok": true})
            }
            "dropctx" => {
                let cn = s("ctx");
                self.realms.retain(|_, e| e.ctx != cn);
                let had = self.ctxs.remove(&cn).is_some();
                if st.get("gc").and_then(Value::as_bool).unwrap_or(true) {
                    boa_gc::force_collect();
                }
                json!({"ok": had})
            }
            "noise" => {
                noise(&s("kind"), st.get("n").and_then(Value::as_u64).unwrap_or(8));
                json!({"ok": true})
            }
            _ => json!({"err": format!("unknown op {op}")}),
        }
    }
}

fn run_scenario(sc: Value) -> Value {
    let opts = sc.get("opts").cloned().unwrap_or(json!({}));
    let b = |k: &str| opts.get(k).and_then(Value::as_bool).unwrap_or(false);
    let mut w = World {
        ctxs: HashMap::new(),
        realms: HashMap::new(),
        slots: HashMap::new(),
        share_realm: b("share_realm"),
        share_inbox: b("share_inbox"),
        mirror_sab: b("mirror_sab"),
    };
    let _ = take_chan();
    let mut outs = Vec::new();
    for st in sc.get("steps").and_then(Value::as_array).cloned().unwrap_or_default() {
        outs.push(w.step(&st));
    }
    // deterministic teardown: slots first, then realms, then contexts
    w.slots.clear();
    w.realms.clear();
    w.ctxs.clear();
    json!({"id": sc.get("id").cloned().unwrap_or(Value::Null), "steps": outs})
}

fn one(sc: Value) -> (Value, bool) {
    let id = sc.get("id").cloned().unwrap_or(Value::Null);
    match std::panic::catch_unwind(std::panic::AssertUnwindSafe(|| run_scenario(sc))) {
        Ok(v) => (v, false),
        Err(p) => {
            let loc = LAST_PANIC.with(|c| c.borrow().clone());
            (json!({"id": id, "panic": format!("{} @ {}", panic_message(&p), loc)}), true)
        }
    }
}

/// `hrealm [--batch N] [FILE]`: N consecutive histories share one thread (default 1: a fresh thread per
/// history).  After a panic the thread is abandoned (its thread-local collector state may be poisoned) and the
/// remaining histories of the batch run on a new one.  Results are written in input order, one line each.
fn main() {
    quiet_panics();
    let mut args: Vec<String> = std::env::args().skip(1).collect();
    let mut batch = 1usize;
    if args.first().map(String::as_str) == Some("--batch") {
        batch = args.get(1).and_then(|s| s.parse().ok()).unwrap_or(1).max(1);
        args.drain(0..2);
    }
    let input: Box<dyn BufRead> = if let Some(f) = args.first() {
        Box::new(std::io::BufReader::new(std::fs::File::open(f).expect("open input")))
    } else {
        Box::new(std::io::BufReader::new(std::io::stdin()))
    };
    let mut scs: Vec<Value> = Vec::new();
    for line in input.lines() {
        let line = line.expect("read");
        if line.trim().is_empty() {
            continue;
        }
        match serde_json::from_str(&line) {
            Ok(v) => scs.push(v),
            Err(e) => {
                eprintln!("bad scenario line: {e}");
                std::process::exit(2);
            }
        }
    }
    let stdout = std::io::stdout();
    let emit = |v: &Value| {
        let mut lock = stdout.lock();
        serde_json::to_writer(&mut lock, v).expect("write");
        lock.write_all(b"\n").expect("write");
        lock.flush().expect("flush");
    };
    let mut i = 0usize;
    while i < scs.len() {
        let hi = (i + batch).min(scs.len());
        let chunk: Vec<Value> = scs[i..hi].to_vec();
        let first_id = chunk[0].get("id").cloned().unwrap_or(Value::Null);
        let (tx, rx) = std::sync::mpsc::channel::<Value>();
        let r = isolated(move || {
            for sc in chunk {
                let (v, panicked) = one(sc);
                let _ = tx.send(v);
                if panicked {
                    break;
                }
            }
        });
        let mut done = 0usize;
        for v in rx.try_iter() {
            emit(&v);
            done += 1;
        }
        if let Err(m) = r {
            // the thread died outside catch_unwind (e.g. a panic while dropping): blame the next unanswered history
            let id = scs.get(i + done).and_then(|s| s.get("id").cloned()).unwrap_or(first_id);
            emit(&json!({"id": id, "panic": format!("thread died: {m}")}));
            done += 1;
        }
        i += done.max(1);
    }
}
