//! C19 harness: parse / print / re-parse round trips of boa_parser + boa_ast, one JSON scenario per line.
//!
//! Scenario: {"id", "src": text | "u16": [code units] | "hex": "raw bytes", "goal": "script"|"module",
//!            "tree": bool, "timeout_ms": n}
//! Result:   {"id", "r1": {"ok":true}|{"err":{kind,msg,line,col,eline,ecol}}, "new1": [strings interned by the
//!            first parse], "p1": printed text, "tree": structural dump of the first AST (Parenthesized kept),
//!            "r2", "p2", "eq12": ASTs of source and of print equal up to positions, "r3", "p3",
//!            "eq23": AST PartialEq of parse(p1) and parse(p2), "ilen": [n0,n1,n2,n3] interner sizes}
//! A panic becomes {"id","panic":"msg @ file:line","stage":…}; a scenario that does not finish within its
//! timeout becomes {"id","hang":true} (the worker thread is abandoned).

use boa_ast::{
    Declaration, Expression, Statement, StatementListItem,
    declaration::{Binding, LexicalDeclaration, VarDeclaration, Variable, VariableList},
    expression::{
        Identifier,
        access::{PropertyAccess, PropertyAccessField},
        literal::{LiteralKind, PropertyDefinition, TemplateElement},
        operator::{assign::AssignTarget, update::UpdateTarget},
        OptionalOperationKind,
    },
    function::{ClassElement, ClassElementName, FormalParameterList, FunctionBody},
    property::{MethodDefinitionKind, PropertyName},
    scope::Scope,
    statement::{
        iteration::{ForLoopInitializer, IterableLoopInitializer},
        LabelledItem,
    },
};
use boa_interner::{Interner, Sym, ToIndentedString, ToInternedString};
use boa_parser::{Parser, Source};
use serde_json::{Value, json};
use std::cell::RefCell;
use std::io::{BufRead, Write};
use std::sync::mpsc;
use std::time::Duration;

// ---------------------------------------------------------------- panic isolation (as in hcommon)

thread_local! {
    static LAST_PANIC: RefCell<String> = const { RefCell::new(String::new()) };
    static STAGE: RefCell<&'static str> = const { RefCell::new("") };
}

fn quiet_panics() {
    std::panic::set_hook(Box::new(|info| {
        let loc = info.location().map(|l| format!("{}:{}", l.file(), l.line())).unwrap_or_default();
        LAST_PANIC.with(|c| *c.borrow_mut() = loc);
    }));
}

fn panic_message(p: &Box<dyn std::any::Any + Send>) -> String {
    if let Some(s) = p.downcast_ref::<&str>() {
        (*s).to_string()
    } else if let Some(s) = p.downcast_ref::<String>() {
        s.clone()
    } else {
        "non-string panic".into()
    }
}

fn stage(s: &'static str) {
    STAGE.with(|c| *c.borrow_mut() = s);
}

// ---------------------------------------------------------------- parsing

enum Input {
    Bytes(Vec<u8>),
    Utf16(Vec<u16>),
}

enum Ast {
    Script(boa_ast::Script),
    Module(boa_ast::Module),
}

impl Ast {
    /// Modules have no printer in boa_ast (import/export declarations do not implement
    /// `ToInternedString`): a module is printed only when it consists of statement list items.
    fn print(&self, i: &Interner) -> Option<String> {
        match self {
            Ast::Script(s) => Some(s.to_indented_string(i, 0)),
            Ast::Module(m) => {
                let mut buf = String::new();
                for it in m.items().items() {
                    match it {
                        boa_ast::ModuleItem::StatementListItem(x) => {
                            buf.push_str(&x.to_indented_string(i, 0));
                            buf.push('\n');
                        }
                        _ => return None,
                    }
                }
                Some(buf)
            }
        }
    }
    fn dbg(&self) -> String {
        match self {
            Ast::Script(s) => format!("{:?}", s.statements()),
            Ast::Module(m) => format!("{:?}", m.items()),
        }
    }
    fn same(&self, o: &Ast) -> bool {
        match (self, o) {
            (Ast::Script(a), Ast::Script(b)) => a == b,
            (Ast::Module(a), Ast::Module(b)) => a.items() == b.items(),
            _ => false,
        }
    }
}

fn err_json(e: &boa_parser::Error) -> Value {
    use boa_parser::Error as E;
    match e {
        E::Expected { span, context, found, .. } => json!({"kind": "Expected", "msg": format!("{context}: {found}"),
            "line": span.start().line_number(), "col": span.start().column_number(),
            "eline": span.end().line_number(), "ecol": span.end().column_number()}),
        E::Unexpected { span, message, .. } => json!({"kind": "Unexpected", "msg": message.to_string(),
            "line": span.start().line_number(), "col": span.start().column_number(),
            "eline": span.end().line_number(), "ecol": span.end().column_number()}),
        E::AbruptEnd => json!({"kind": "AbruptEnd", "msg": ""}),
        E::Lex { err } => match err {
            boa_parser::lexer::Error::IO(io) => json!({"kind": "IO", "msg": io.to_string()}),
            boa_parser::lexer::Error::Syntax(m, p) => json!({"kind": "Lex", "msg": m.to_string(),
                "line": p.line_number(), "col": p.column_number()}),
        },
        E::ScopeAnalysis { err } => json!({"kind": "Scope", "msg": err.to_string()}),
        E::General { message, position } => json!({"kind": "General", "msg": message.to_string(),
            "line": position.line_number(), "col": position.column_number()}),
    }
}

fn parse(input: &Input, module: bool, interner: &mut Interner) -> Result<Ast, Value> {
    let scope = Scope::new_global();
    match input {
        Input::Bytes(b) => {
            let mut p = Parser::new(Source::from_bytes(b.as_slice()));
            if module {
                p.parse_module(&scope, interner).map(Ast::Module).map_err(|e| err_json(&e))
            } else {
                p.parse_script(&scope, interner).map(Ast::Script).map_err(|e| err_json(&e))
            }
        }
        Input::Utf16(u) => {
            let mut p = Parser::new(Source::from_utf16(u.as_slice()));
            if module {
                p.parse_module(&scope, interner).map(Ast::Module).map_err(|e| err_json(&e))
            } else {
                p.parse_script(&scope, interner).map(Ast::Script).map_err(|e| err_json(&e))
            }
        }
    }
}

/// Removes positions (Span, LinearSpan, LinearPosition, LinearSpanIgnoreEq) from a Debug rendering.
fn scrub(s: &str) -> String {
    let b = s.as_bytes();
    let mut out = String::with_capacity(s.len());
    let mut i = 0;
    let pats: [(&str, u8, u8); 4] = [("Span((", b'(', b')'), ("LinearSpan {", b'{', b'}'), ("LinearPosition {", b'{', b'}'), ("LinearSpanIgnoreEq(", b'(', b')')];
    'outer: while i < b.len() {
        for (p, open, close) in pats {
            if b[i..].starts_with(p.as_bytes()) && (i == 0 || !(b[i - 1] as char).is_alphanumeric()) {
                // skip to the matching close of the first open bracket
                let mut j = i;
                while b[j] != open {
                    j += 1;
                }
                let mut d = 0i32;
                loop {
                    if b[j] == open {
                        d += 1;
                    } else if b[j] == close {
                        d -= 1;
                        if d == 0 {
                            break;
                        }
                    }
                    j += 1;
                }
                out.push('@');
                i = j + 1;
                continue 'outer;
            }
        }
        // copy one char (UTF-8 aware)
        let ch_len = match b[i] {
            x if x < 0x80 => 1,
            x if x >= 0xF0 => 4,
            x if x >= 0xE0 => 3,
            _ => 2,
        };
        out.push_str(&s[i..i + ch_len]);
        i += ch_len;
    }
    out
}

fn first_diff(a: &str, b: &str) -> Value {
    let n = a.bytes().zip(b.bytes()).take_while(|(x, y)| x == y).count();
    let lo = n.saturating_sub(80);
    let cut = |s: &str| -> String { s.chars().skip(s[..lo.min(s.len())].chars().count()).take(200).collect() };
    let mut lo2 = lo;
    while !a.is_char_boundary(lo2) || !b.is_char_boundary(lo2) {
        lo2 -= 1;
    }
    let _ = cut;
    let ca: String = a[lo2..].chars().take(200).collect();
    let cb: String = b[lo2..].chars().take(200).collect();
    json!([ca, cb])
}

fn sym_at(i: usize) -> Sym {
    const _: () = assert!(std::mem::size_of::<Sym>() == std::mem::size_of::<usize>());
    // SAFETY: `Sym` is a single `NonZeroUsize`; i >= 1.
    unsafe { std::mem::transmute::<usize, Sym>(i) }
}

fn units_json(u: &[u16]) -> Value {
    // JSON cannot carry lone surrogates as text reliably: strings are given as text when well formed,
    // else as {"u16": [...]}.
    match String::from_utf16(u) {
        Ok(s) => Value::String(s),
        Err(_) => json!({"u16": u}),
    }
}

fn interned_range(i: &Interner, from: usize, to: usize) -> Vec<Value> {
    let mut v = Vec::new();
    for k in from..to {
        if let Some(r) = i.resolve(sym_at(k + 1)) {
            v.push(units_json(r.utf16()));
        }
    }
    v
}

// ---------------------------------------------------------------- structural dump

struct D<'a> {
    i: &'a Interner,
}

impl D<'_> {
    fn s(&self, s: Sym) -> Value {
        units_json(self.i.resolve_expect(s).utf16())
    }
    fn id(&self, id: &Identifier) -> Value {
        self.s(id.sym())
    }
    fn args(&self, a: &[Expression]) -> Value {
        Value::Array(a.iter().map(|x| self.e(x)).collect())
    }
    fn field(&self, f: &PropertyAccessField) -> Value {
        match f {
            PropertyAccessField::Const(id) => json!(["dot", self.id(id)]),
            PropertyAccessField::Expr(e) => json!(["idx", self.e(e)]),
        }
    }
    fn access(&self, a: &PropertyAccess) -> Value {
        match a {
            PropertyAccess::Simple(s) => json!(["mem", self.e(s.target()), self.field(s.field())]),
            PropertyAccess::Private(p) => json!(["mem", self.e(p.target()), ["priv", self.s(p.field().description())]]),
            PropertyAccess::Super(s) => json!(["mem", ["super"], self.field(s.field())]),
        }
    }
    fn params(&self, p: &FormalParameterList) -> Value {
        Value::Array(p.as_ref().iter().map(|fp| {
            let v = self.variable(fp.variable());
            if fp.is_rest_param() { json!(["rest", v]) } else { v }
        }).collect())
    }
    fn body(&self, b: &FunctionBody) -> Value {
        Value::Array(b.statements().iter().map(|x| self.item(x)).collect())
    }
    fn binding(&self, b: &Binding) -> Value {
        match b {
            Binding::Identifier(id) => json!(["id", self.id(id)]),
            Binding::Pattern(p) => json!(["pat", p.to_interned_string(self.i)]),
        }
    }
    fn variable(&self, v: &Variable) -> Value {
        json!(["var", self.binding(v.binding()), v.init().map(|e| self.e(e))])
    }
    fn varlist(&self, l: &VariableList) -> Value {
        Value::Array(l.as_ref().iter().map(|v| self.variable(v)).collect())
    }
    fn pname(&self, n: &PropertyName) -> Value {
        match n {
            PropertyName::Literal(id) => json!(["key", self.id(id)]),
            PropertyName::Computed(e) => json!(["computed", self.e(e)]),
        }
    }
    fn mkind(k: MethodDefinitionKind) -> &'static str {
        match k {
            MethodDefinitionKind::Get => "get",
            MethodDefinitionKind::Set => "set",
            MethodDefinitionKind::Ordinary => "method",
            MethodDefinitionKind::Generator => "gen",
            MethodDefinitionKind::AsyncGenerator => "asyncgen",
            MethodDefinitionKind::Async => "async",
        }
    }
    fn class(&self, name: Option<Identifier>, sup: Option<&Expression>, ctor: Option<&boa_ast::function::FunctionExpression>, els: &[ClassElement]) -> Value {
        let mut v = Vec::new();
        if let Some(c) = ctor {
            v.push(json!(["ctor", self.params(c.parameters()), self.body(c.body())]));
        }
        for el in els {
            v.push(match el {
                ClassElement::MethodDefinition(m) => {
                    let n = match m.name() {
                        ClassElementName::PropertyName(p) => self.pname(p),
                        ClassElementName::PrivateName(p) => json!(["priv", self.s(p.description())]),
                    };
                    json!([Self::mkind(m.kind()), m.is_static(), n, self.params(m.parameters()), self.body(m.body())])
                }
                ClassElement::FieldDefinition(f) => json!(["field", false, self.pname(f.name()), f.initializer().map(|e| self.e(e))]),
                ClassElement::StaticFieldDefinition(f) => json!(["field", true, self.pname(f.name()), f.initializer().map(|e| self.e(e))]),
                ClassElement::PrivateFieldDefinition(f) => json!(["field", false, ["priv", self.s(f.name().description())], f.initializer().map(|e| self.e(e))]),
                ClassElement::PrivateStaticFieldDefinition(f) => json!(["field", true, ["priv", self.s(f.name().description())], f.initializer().map(|e| self.e(e))]),
                ClassElement::StaticBlock(b) => json!(["staticblock", self.body(b.statements())]),
            });
        }
        json!(["class", name.map(|n| self.id(&n)), sup.map(|e| self.e(e)), v])
    }

    fn e(&self, e: &Expression) -> Value {
        match e {
            Expression::This(_) => json!(["this"]),
            Expression::Identifier(id) => json!(["id", self.id(id)]),
            Expression::Literal(l) => match l.kind() {
                LiteralKind::String(s) => json!(["str", self.s(*s)]),
                LiteralKind::Num(n) => json!(["num", format!("{n:?}")]),
                LiteralKind::Int(n) => json!(["num", format!("{n}")]),
                LiteralKind::BigInt(n) => json!(["big", n.to_string()]),
                LiteralKind::Bool(b) => json!(["bool", b]),
                LiteralKind::Null => json!(["null"]),
                LiteralKind::Undefined => json!(["undefined"]),
            },
            Expression::RegExpLiteral(r) => json!(["regex", self.s(r.pattern()), self.s(r.flags())]),
            Expression::ArrayLiteral(a) => {
                let v: Vec<Value> = a.as_ref().iter().map(|x| x.as_ref().map_or(Value::Null, |x| self.e(x))).collect();
                json!(["arr", v])
            }
            Expression::ObjectLiteral(o) => {
                let v: Vec<Value> = o.properties().iter().map(|p| match p {
                    PropertyDefinition::IdentifierReference(id) => json!(["short", self.id(id)]),
                    PropertyDefinition::Property(n, e) => json!(["prop", self.pname(n), self.e(e)]),
                    PropertyDefinition::MethodDefinition(m) => json!([Self::mkind(m.kind()), self.pname(m.name()), self.params(m.parameters()), self.body(m.body())]),
                    PropertyDefinition::SpreadObject(e) => json!(["spread", self.e(e)]),
                    PropertyDefinition::CoverInitializedName(id, e) => json!(["cover", self.id(id), self.e(e)]),
                }).collect();
                json!(["obj", v])
            }
            Expression::Spread(s) => json!(["spread", self.e(s.target())]),
            Expression::FunctionExpression(f) => json!(["fn", if f.has_binding_identifier() { f.name().map(|n| self.id(&n)) } else { None }, self.params(f.parameters()), self.body(f.body())]),
            Expression::GeneratorExpression(f) => json!(["gen", if f.has_binding_identifier() { f.name().map(|n| self.id(&n)) } else { None }, self.params(f.parameters()), self.body(f.body())]),
            Expression::AsyncFunctionExpression(f) => json!(["asyncfn", if f.has_binding_identifier() { f.name().map(|n| self.id(&n)) } else { None }, self.params(f.parameters()), self.body(f.body())]),
            Expression::AsyncGeneratorExpression(f) => json!(["asyncgen", if f.has_binding_identifier() { f.name().map(|n| self.id(&n)) } else { None }, self.params(f.parameters()), self.body(f.body())]),
            Expression::ArrowFunction(f) => json!(["arrow", false, self.params(f.parameters()), self.body(f.body())]),
            Expression::AsyncArrowFunction(f) => json!(["arrow", true, self.params(f.parameters()), self.body(f.body())]),
            Expression::ClassExpression(c) => self.class(c.name(), c.super_ref(), c.constructor(), c.elements()),
            Expression::TemplateLiteral(t) => {
                let v: Vec<Value> = t.elements().iter().map(|x| match x {
                    TemplateElement::String(s) => json!(["chunk", self.s(*s)]),
                    TemplateElement::Expr(e) => self.e(e),
                }).collect();
                json!(["tpl", v])
            }
            Expression::PropertyAccess(a) => self.access(a),
            Expression::New(n) => json!(["new", self.e(n.constructor()), self.args(n.arguments())]),
            Expression::Call(c) => json!(["call", self.e(c.function()), self.args(c.args())]),
            Expression::SuperCall(c) => json!(["call", ["super"], self.args(c.arguments())]),
            Expression::ImportCall(c) => json!(["importcall", self.e(c.specifier())]),
            Expression::Optional(o) => {
                let v: Vec<Value> = o.chain().iter().map(|op| {
                    let k = match op.kind() {
                        OptionalOperationKind::SimplePropertyAccess { field } => self.field(field),
                        OptionalOperationKind::PrivatePropertyAccess { field } => json!(["priv", self.s(field.description())]),
                        OptionalOperationKind::Call { args } => json!(["call", self.args(args)]),
                    };
                    json!([op.shorted(), k])
                }).collect();
                json!(["opt", self.e(o.target()), v])
            }
            Expression::TaggedTemplate(t) => {
                let raws: Vec<Value> = t.raws().iter().map(|s| self.s(*s)).collect();
                let cooked: Vec<Value> = t.cookeds().iter().map(|s| s.map_or(Value::Null, |s| self.s(s))).collect();
                json!(["tagged", self.e(t.tag()), raws, cooked, self.args(t.exprs())])
            }
            Expression::NewTarget(_) => json!(["newtarget"]),
            Expression::ImportMeta(_) => json!(["importmeta"]),
            Expression::Assign(a) => {
                let l = match a.lhs() {
                    AssignTarget::Identifier(id) => json!(["id", self.id(id)]),
                    AssignTarget::Access(acc) => self.access(acc),
                    AssignTarget::Pattern(p) => json!(["pat", p.to_interned_string(self.i)]),
                };
                json!(["asg", a.op().to_string(), l, self.e(a.rhs())])
            }
            Expression::Unary(u) => json!(["un", u.op().to_string(), self.e(u.target())]),
            Expression::Update(u) => {
                let t = match u.target() {
                    UpdateTarget::Identifier(id) => json!(["id", self.id(id)]),
                    UpdateTarget::PropertyAccess(a) => self.access(a),
                };
                json!(["upd", format!("{:?}", u.op()), t])
            }
            Expression::Binary(b) => json!(["bin", b.op().to_string(), self.e(b.lhs()), self.e(b.rhs())]),
            Expression::BinaryInPrivate(b) => json!(["bin", "in", ["priv", self.s(b.lhs().description())], self.e(b.rhs())]),
            Expression::Conditional(c) => json!(["cond", self.e(c.condition()), self.e(c.if_true()), self.e(c.if_false())]),
            Expression::Await(a) => json!(["await", self.e(a.target())]),
            Expression::Yield(y) => json!(["yield", y.delegate(), y.target().map(|e| self.e(e))]),
            Expression::Parenthesized(p) => json!(["paren", self.e(p.expression())]),
        }
    }

    fn iter_init(&self, i: &IterableLoopInitializer) -> Value {
        match i {
            IterableLoopInitializer::Identifier(id) => json!(["id", self.id(id)]),
            IterableLoopInitializer::Access(a) => self.access(a),
            IterableLoopInitializer::Var(v) => json!(["vardecl", "var", [self.variable(v)]]),
            IterableLoopInitializer::Let(b) => json!(["vardecl", "let", [["var", self.binding(b), null]]]),
            IterableLoopInitializer::Const(b) => json!(["vardecl", "const", [["var", self.binding(b), null]]]),
            IterableLoopInitializer::Pattern(p) => json!(["pat", p.to_interned_string(self.i)]),
        }
    }

    fn lexical(&self, l: &LexicalDeclaration) -> Value {
        let k = match l {
            LexicalDeclaration::Const(_) => "const",
            LexicalDeclaration::Let(_) => "let",
            LexicalDeclaration::Using(_) => "using",
            LexicalDeclaration::AwaitUsing(_) => "await using",
        };
        json!(["vardecl", k, self.varlist(l.variable_list())])
    }

    fn var(&self, v: &VarDeclaration) -> Value {
        json!(["vardecl", "var", self.varlist(&v.0)])
    }

    fn st(&self, s: &Statement) -> Value {
        match s {
            Statement::Block(b) => json!(["block", b.statement_list().statements().iter().map(|x| self.item(x)).collect::<Vec<_>>()]),
            Statement::Var(v) => self.var(v),
            Statement::Empty => json!(["empty"]),
            Statement::Expression(e) => json!(["expr", self.e(e)]),
            Statement::If(i) => json!(["if", self.e(i.cond()), self.st(i.body()), i.else_node().map(|x| self.st(x))]),
            Statement::DoWhileLoop(d) => json!(["dowhile", self.st(d.body()), self.e(d.cond())]),
            Statement::WhileLoop(w) => json!(["while", self.e(w.condition()), self.st(w.body())]),
            Statement::ForLoop(f) => {
                let init = f.init().map(|i| match i {
                    ForLoopInitializer::Expression(e) => self.e(e),
                    ForLoopInitializer::Var(v) => self.var(v),
                    ForLoopInitializer::Lexical(l) => self.lexical(l.declaration()),
                });
                json!(["for", init, f.condition().map(|e| self.e(e)), f.final_expr().map(|e| self.e(e)), self.st(f.body())])
            }
            Statement::ForInLoop(f) => json!(["forin", self.iter_init(f.initializer()), self.e(f.target()), self.st(f.body())]),
            Statement::ForOfLoop(f) => json!(["forof", f.r#await(), self.iter_init(f.initializer()), self.e(f.iterable()), self.st(f.body())]),
            Statement::Switch(sw) => {
                let cases: Vec<Value> = sw.cases().iter().map(|c| json!([c.condition().map(|e| self.e(e)), c.body().statements().iter().map(|x| self.item(x)).collect::<Vec<_>>()])).collect();
                json!(["switch", self.e(sw.val()), cases])
            }
            Statement::Continue(c) => json!(["continue", c.label().map(|l| self.s(l))]),
            Statement::Break(c) => json!(["break", c.label().map(|l| self.s(l))]),
            Statement::Return(r) => json!(["return", r.target().map(|e| self.e(e))]),
            Statement::Labelled(l) => {
                let it = match l.item() {
                    LabelledItem::FunctionDeclaration(f) => json!(["fndecl", "fn", self.id(&f.name()), self.params(f.parameters()), self.body(f.body())]),
                    LabelledItem::Statement(s) => self.st(s),
                };
                json!(["label", self.s(l.label()), it])
            }
            Statement::Throw(t) => json!(["throw", self.e(t.target())]),
            Statement::Try(t) => {
                let c = t.catch().map(|c| json!([c.parameter().map(|b| self.binding(b)), c.block().statement_list().statements().iter().map(|x| self.item(x)).collect::<Vec<_>>()]));
                let f = t.finally().map(|f| f.block().statement_list().statements().iter().map(|x| self.item(x)).collect::<Vec<_>>());
                json!(["try", t.block().statement_list().statements().iter().map(|x| self.item(x)).collect::<Vec<_>>(), c, f])
            }
            Statement::With(w) => json!(["with", self.e(w.expression()), self.st(w.statement())]),
            Statement::Debugger => json!(["debugger"]),
        }
    }

    fn decl(&self, d: &Declaration) -> Value {
        match d {
            Declaration::FunctionDeclaration(f) => json!(["fndecl", "fn", self.id(&f.name()), self.params(f.parameters()), self.body(f.body())]),
            Declaration::GeneratorDeclaration(f) => json!(["fndecl", "gen", self.id(&f.name()), self.params(f.parameters()), self.body(f.body())]),
            Declaration::AsyncFunctionDeclaration(f) => json!(["fndecl", "asyncfn", self.id(&f.name()), self.params(f.parameters()), self.body(f.body())]),
            Declaration::AsyncGeneratorDeclaration(f) => json!(["fndecl", "asyncgen", self.id(&f.name()), self.params(f.parameters()), self.body(f.body())]),
            Declaration::ClassDeclaration(c) => json!(["classdecl", self.class(Some(c.name()), c.super_ref(), c.constructor(), c.elements())]),
            Declaration::Lexical(l) => self.lexical(l),
        }
    }

    fn item(&self, it: &StatementListItem) -> Value {
        match it {
            StatementListItem::Statement(s) => self.st(s),
            StatementListItem::Declaration(d) => self.decl(d),
        }
    }
}

fn tree(ast: &Ast, i: &Interner) -> Value {
    let d = D { i };
    match ast {
        Ast::Script(s) => json!({"strict": s.strict(), "body": s.statements().statements().iter().map(|x| d.item(x)).collect::<Vec<_>>()}),
        Ast::Module(m) => json!({"module": true, "body": m.items().items().iter().map(|x| match x {
            boa_ast::ModuleItem::StatementListItem(x) => d.item(x),
            boa_ast::ModuleItem::ImportDeclaration(_) => json!(["import"]),
            boa_ast::ModuleItem::ExportDeclaration(_) => json!(["export"]),
        }).collect::<Vec<_>>()}),
    }
}

// ---------------------------------------------------------------- one scenario

fn run(sc: &Value) -> Value {
    let module = sc.get("goal").and_then(Value::as_str) == Some("module");
    let want_tree = sc.get("tree").and_then(Value::as_bool).unwrap_or(false);
    let input = if let Some(u) = sc.get("u16").and_then(Value::as_array) {
        Input::Utf16(u.iter().map(|x| x.as_u64().unwrap_or(0) as u16).collect())
    } else if let Some(h) = sc.get("hex").and_then(Value::as_str) {
        let hb = h.as_bytes();
        Input::Bytes((0..hb.len() / 2).map(|k| u8::from_str_radix(&h[2 * k..2 * k + 2], 16).unwrap_or(0)).collect())
    } else {
        Input::Bytes(sc.get("src").and_then(Value::as_str).unwrap_or("").as_bytes().to_vec())
    };
    let mut out = json!({});
    let mut interner = Interner::default();
    let n0 = interner.len();
    stage("parse1");
    let r1 = parse(&input, module, &mut interner);
    let n1 = interner.len();
    out["new1"] = Value::Array(interned_range(&interner, n0, n1));
    let mut ilen = vec![n0, n1];
    match r1 {
        Err(e) => {
            out["r1"] = json!({"err": e});
        }
        Ok(a1) => {
            out["r1"] = json!({"ok": true});
            stage("print1");
            if want_tree {
                stage("tree");
                out["tree"] = tree(&a1, &interner);
            }
            let Some(p1) = a1.print(&interner) else {
                out["noprint"] = json!(true);
                out["ilen"] = json!(ilen);
                return out;
            };
            if false {
                stage("tree");
                out["tree"] = tree(&a1, &interner);
            }
            stage("parse2");
            let r2 = parse(&Input::Bytes(p1.clone().into_bytes()), module, &mut interner);
            ilen.push(interner.len());
            out["new2"] = Value::Array(interned_range(&interner, n1, interner.len()));
            out["p1"] = Value::String(p1);
            match r2 {
                Err(e) => {
                    out["r2"] = json!({"err": e});
                }
                Ok(a2) => {
                    out["r2"] = json!({"ok": true});
                    stage("print2");
                    let p2 = a2.print(&interner).unwrap_or_default();
                    stage("eq12");
                    let (d1, d2) = (scrub(&a1.dbg()), scrub(&a2.dbg()));
                    if d1 == d2 {
                        out["eq12"] = json!(true);
                    } else {
                        out["eq12"] = json!(false);
                        out["diff12"] = first_diff(&d1, &d2);
                    }
                    stage("parse3");
                    let n2 = interner.len();
                    let r3 = parse(&Input::Bytes(p2.clone().into_bytes()), module, &mut interner);
                    ilen.push(interner.len());
                    out["new3"] = Value::Array(interned_range(&interner, n2, interner.len()));
                    if p2 != out["p1"].as_str().unwrap_or("") {
                        out["p2"] = Value::String(p2);
                    } else {
                        out["p2same"] = json!(true);
                    }
                    match r3 {
                        Err(e) => {
                            out["r3"] = json!({"err": e});
                        }
                        Ok(a3) => {
                            out["r3"] = json!({"ok": true});
                            out["eq23"] = json!(a2.same(&a3));
                            stage("print3");
                            let p3 = a3.print(&interner).unwrap_or_default();
                            let same3 = match out.get("p2") {
                                Some(Value::String(s)) => *s == p3,
                                _ => out["p1"].as_str() == Some(p3.as_str()),
                            };
                            out["p3same"] = json!(same3);
                        }
                    }
                }
            }
        }
    }
    out["ilen"] = json!(ilen);
    out
}

/// JSON text with every non-ASCII character escaped (the driver splits the output into lines with Python's
/// `splitlines`, which also splits at U+2028, U+2029 and U+0085).
fn ascii_json(v: &Value) -> String {
    let s = serde_json::to_string(v).expect("serialize");
    if s.is_ascii() {
        return s;
    }
    let mut out = String::with_capacity(s.len() + 16);
    for ch in s.chars() {
        if ch.is_ascii() {
            out.push(ch);
        } else {
            let mut buf = [0u16; 2];
            for u in ch.encode_utf16(&mut buf) {
                out.push_str(&format!("\\u{u:04x}"));
            }
        }
    }
    out
}

/// A worker thread with a large stack that answers scenarios one by one. It survives panics (caught inside);
/// when it does not answer in time it is abandoned and replaced.
fn spawn_worker() -> (mpsc::Sender<Value>, mpsc::Receiver<Value>) {
    let (tx_in, rx_in) = mpsc::channel::<Value>();
    let (tx_out, rx_out) = mpsc::channel::<Value>();
    std::thread::Builder::new()
        .stack_size(512 << 20)
        .spawn(move || {
            while let Ok(sc) = rx_in.recv() {
                let r = std::panic::catch_unwind(std::panic::AssertUnwindSafe(|| run(&sc)));
                let v = match r {
                    Ok(v) => v,
                    Err(p) => {
                        let loc = LAST_PANIC.with(|c| c.borrow().clone());
                        let st = STAGE.with(|c| *c.borrow());
                        json!({"panic": format!("{} @ {}", panic_message(&p), loc), "stage": st})
                    }
                };
                if tx_out.send(v).is_err() {
                    break;
                }
            }
        })
        .expect("spawn");
    (tx_in, rx_out)
}

fn main() {
    quiet_panics();
    let args: Vec<String> = std::env::args().collect();
    let input: Box<dyn BufRead> = if args.len() > 1 {
        Box::new(std::io::BufReader::new(std::fs::File::open(&args[1]).expect("open input")))
    } else {
        Box::new(std::io::BufReader::new(std::io::stdin()))
    };
    let stdout = std::io::stdout();
    let (mut tx, mut rx) = spawn_worker();
    for line in input.lines() {
        let line = line.expect("read");
        if line.trim().is_empty() {
            continue;
        }
        let sc: Value = match serde_json::from_str(&line) {
            Ok(v) => v,
            Err(e) => {
                eprintln!("bad scenario line: {e}");
                std::process::exit(2);
            }
        };
        let id = sc.get("id").cloned().unwrap_or(Value::Null);
        let tmo = sc.get("timeout_ms").and_then(Value::as_u64).unwrap_or(20_000);
        tx.send(sc).expect("worker alive");
        let mut res = match rx.recv_timeout(Duration::from_millis(tmo)) {
            Ok(v) => v,
            Err(_) => {
                // the worker hangs (or died): abandon it
                let (t2, r2) = spawn_worker();
                tx = t2;
                rx = r2;
                json!({"hang": true})
            }
        };
        res["id"] = id;
        let mut lock = stdout.lock();
        lock.write_all(ascii_json(&res).as_bytes()).expect("write");
        lock.write_all(b"\n").expect("write");
        lock.flush().expect("flush");
    }
    // abandoned (hung) workers must not keep the process alive
    std::process::exit(0);
}
