//! replay-value: feeds 64-bit patterns emitted by spec/text/NanBox.tla (and all int32 values) to
//! `JsValue` and reads them back. Modes:
//!   hval words <file>     one {"id","w":[s,e,nib,h2,h1,h0],"d":"num"|"nan"} per line -> one summary line
//!   hval ints <stride>    sweeps i32 with the given stride (1 = all 2^32) plus the boundary set
//!   hval ptrs <n>         round-trips n heap values of each pointer kind

use boa_engine::{JsBigInt, JsObject, JsString, JsSymbol, JsValue, JsVariant, js_string, value::Type};
use serde_json::{Value, json};
use std::io::BufRead;

fn word_bits(w: &Value) -> u64 {
    let g = |i: usize| w[i].as_u64().unwrap_or(0);
    (g(0) << 63) | (g(1) << 52) | (g(2) << 48) | (g(3) << 32) | (g(4) << 16) | g(5)
}

/// (type tag, bits) as the embedder sees the value; Integer32 is a number with the bits of its f64.
fn observe(v: &JsValue) -> (String, u64) {
    match v.variant() {
        JsVariant::Float64(x) => (if x.is_nan() { "nan".into() } else { "num".into() }, x.to_bits()),
        JsVariant::Integer32(i) => ("num".into(), f64::from(i).to_bits()),
        JsVariant::Undefined => ("undef".into(), 0),
        JsVariant::Null => ("null".into(), 0),
        JsVariant::Boolean(b) => ("bool".into(), u64::from(b)),
        JsVariant::String(_) => ("string".into(), 0),
        JsVariant::Symbol(_) => ("symbol".into(), 0),
        JsVariant::BigInt(_) => ("bigint".into(), 0),
        JsVariant::Object(_) => ("object".into(), 0),
    }
}

fn check_word(rec: &Value, fails: &mut Vec<Value>) -> u64 {
    let bits = word_bits(&rec["w"]);
    let exp = rec["d"].as_str().unwrap_or("?");
    let x = f64::from_bits(bits);
    let mut n = 0;
    let ctors: [(&str, JsValue); 3] = [("new", JsValue::new(x)), ("rational", JsValue::rational(x)), ("from", JsValue::from(x))];
    for (name, v) in ctors {
        for (site, y) in [("direct", v.clone()), ("clone", v.clone().clone()), ("vec", vec![JsValue::undefined(), v.clone()][1].clone())] {
            n += 1;
            let (t, b) = observe(&y);
            let ok_type = t == exp;
            let ok_bits = if exp == "num" { b == bits } else { true };
            let ok_api = y.is_number() && y.get_type() == Type::Number && y.as_number().is_some_and(|z| if exp == "nan" { z.is_nan() } else { z.to_bits() == bits })
                && !y.is_undefined() && !y.is_null() && !y.is_boolean() && !y.is_object() && !y.is_string() && !y.is_symbol() && !y.is_bigint();
            if !(ok_type && ok_bits && ok_api) && fails.len() < 20 {
                fails.push(json!({"w": rec["w"], "bits": format!("{bits:016X}"), "ctor": name, "site": site, "expected": exp, "actual": t, "actual_bits": format!("{b:016X}"), "api_ok": ok_api}));
            }
        }
    }
    n
}

fn check_int(i: i32, fails: &mut Vec<Value>) {
    let v = JsValue::new(i);
    let ok = matches!(v.variant(), JsVariant::Integer32(j) if j == i)
        && v.as_number() == Some(f64::from(i))
        && v.is_number()
        && v.as_i32() == Some(i)
        && !v.is_object() && !v.is_string() && !v.is_boolean() && !v.is_null_or_undefined() && !v.is_bigint() && !v.is_symbol();
    let w = v.clone();
    let ok2 = matches!(w.variant(), JsVariant::Integer32(j) if j == i);
    if !(ok && ok2) && fails.len() < 20 {
        fails.push(json!({"int": i, "variant": format!("{:?}", v.variant())}));
    }
}

fn main() {
    let args: Vec<String> = std::env::args().collect();
    let mode = args.get(1).map(String::as_str).unwrap_or("");
    let mut fails: Vec<Value> = Vec::new();
    match mode {
        "words" => {
            let f = std::io::BufReader::new(std::fs::File::open(&args[2]).expect("open"));
            let mut evals = 0u64;
            let mut words = 0u64;
            for line in f.lines() {
                let line = line.expect("read");
                if line.trim().is_empty() { continue; }
                let rec: Value = serde_json::from_str(&line).expect("json");
                evals += check_word(&rec, &mut fails);
                words += 1;
            }
            println!("{}", json!({"id": "words", "words": words, "evals": evals, "fails": fails}));
        }
        "ints" => {
            let stride: i64 = args.get(2).and_then(|s| s.parse().ok()).unwrap_or(1);
            let mut n = 0u64;
            let mut i = i64::from(i32::MIN);
            while i <= i64::from(i32::MAX) {
                check_int(i as i32, &mut fails);
                n += 1;
                i += stride;
            }
            for b in [i32::MIN, i32::MIN + 1, -65536, -32769, -32768, -1, 0, 1, 32767, 32768, 65535, 65536, i32::MAX - 1, i32::MAX] {
                check_int(b, &mut fails);
                n += 1;
            }
            println!("{}", json!({"id": "ints", "ints": n, "fails": fails}));
        }
        "ptrs" => {
            let n: usize = args.get(2).and_then(|s| s.parse().ok()).unwrap_or(1000);
            let mut keep = Vec::new();
            let mut count = 0u64;
            for k in 0..n {
                let o = JsObject::with_null_proto();
                let s: JsString = js_string!(format!("str{k}").as_str());
                let y = JsSymbol::new(Some(js_string!("d"))).expect("symbol");
                let b = JsBigInt::from(k as i64);
                let vo = JsValue::from(o.clone());
                let vs = JsValue::from(s.clone());
                let vy = JsValue::from(y.clone());
                let vb = JsValue::from(b.clone());
                count += 4;
                let ok = matches!(vo.variant(), JsVariant::Object(ref p) if JsObject::equals(p, &o)) && vo.is_object() && !vo.is_number() && vo.as_number().is_none()
                    && matches!(vs.variant(), JsVariant::String(ref p) if *p == s) && vs.is_string() && !vs.is_number() && !vs.is_object()
                    && matches!(vy.variant(), JsVariant::Symbol(ref p) if *p == y) && vy.is_symbol() && !vy.is_number() && !vy.is_string()
                    && matches!(vb.variant(), JsVariant::BigInt(ref p) if *p == b) && vb.is_bigint() && !vb.is_number() && !vb.is_symbol();
                if !ok && fails.len() < 20 {
                    fails.push(json!({"ptr_round_trip": k}));
                }
                keep.push((vo, vs, vy, vb));
            }
            for (t, v) in [("undef", JsValue::undefined()), ("null", JsValue::null()), ("bool", JsValue::from(true)), ("bool", JsValue::from(false))] {
                count += 1;
                if observe(&v).0 != t || v.is_number() {
                    fails.push(json!({"constant": t}));
                }
            }
            println!("{}", json!({"id": "ptrs", "values": count, "fails": fails}));
        }
        _ => {
            eprintln!("usage: hval words <file> | ints <stride> | ptrs <n>");
            std::process::exit(2);
        }
    }
}
