//! Replay binary of check C06 (inline caches).  One JSON scenario per input line:
//! `{"id": .., "steps": [js source, ...], "cfgs": [{"ic_off": bool, "gc": n, "strict": bool}, ...]}`.
//! Every configuration runs all steps as successive `eval`s on ONE fresh context and yields
//! `{"steps": [{"out": [print lines], "c": completion, "ic": [hits, misses, stores]}, ...]}`; when the engine
//! panics the steps completed before it are kept and `"panic": "message @ file:line"` is added.  One output line per scenario: `{"id": .., "runs": [...]}`.
//!
//! Scenarios share a worker thread (a fresh thread per scenario costs more than the scenario);
//! after a panic the worker is replaced so that no thread-local engine state survives it.

use boa_engine::{Context, Source, context::ContextBuilder};
use hcommon::*;
use serde_json::{Value, json};
use std::io::{BufRead, Write};
use std::cell::RefCell;
use std::sync::Arc;

thread_local! {
    /// Steps completed by the run in progress (survives a panic of the engine).
    static STEPS: RefCell<Vec<Value>> = const { RefCell::new(Vec::new()) };
}

fn set_switches(cfg: &Value) {
    boa_engine::verif::set_ic_disabled(cfg.get("ic_off").and_then(Value::as_bool).unwrap_or(false));
    boa_gc::verif::set_stress(cfg.get("gc").and_then(Value::as_u64).unwrap_or(0));
}

fn run_one(steps: &[Value], cfg: &Value) -> Value {
    set_switches(cfg);
    STEPS.with(|v| v.borrow_mut().clear());
    {
        let mut ctx: Context = ContextBuilder::new().build().expect("context");
        install_print(&mut ctx);
        if cfg.get("strict").and_then(Value::as_bool).unwrap_or(false) {
            ctx.strict(true);
        }
        let _ = take_out();
        let _ = boa_engine::verif::take_ic_counters();
        for step in steps {
            let src = step.as_str().unwrap_or("");
            let r = ctx.eval(Source::from_bytes(src));
            let c = render_completion(&r, &mut ctx);
            let (h, m, s) = boa_engine::verif::take_ic_counters();
            let o = json!({"out": take_out(), "c": c, "ic": [h, m, s]});
            STEPS.with(|v| v.borrow_mut().push(o));
        }
    }
    set_switches(&json!({}));
    boa_gc::force_collect();
    json!({"steps": STEPS.with(|v| std::mem::take(&mut *v.borrow_mut()))})
}

struct Progress {
    next: usize,
    runs: Vec<Value>,
}

/// Processes scenarios from `p.next` on; returns early (with the progress) after a panic.
fn worker(scs: Arc<Vec<Value>>, mut p: Progress) -> Progress {
    let stdout = std::io::stdout();
    while p.next < scs.len() {
        let sc = &scs[p.next];
        let steps = sc.get("steps").and_then(Value::as_array).cloned().unwrap_or_default();
        let cfgs = sc.get("cfgs").and_then(Value::as_array).cloned().unwrap_or_else(|| vec![json!({})]);
        let mut panicked = false;
        while p.runs.len() < cfgs.len() {
            let cfg = &cfgs[p.runs.len()];
            let r = std::panic::catch_unwind(std::panic::AssertUnwindSafe(|| run_one(&steps, cfg)));
            match r {
                Ok(v) => p.runs.push(v),
                Err(e) => {
                    let loc = LAST_PANIC.with(|c| c.borrow().clone());
                    let done = STEPS.with(|v| std::mem::take(&mut *v.borrow_mut()));
                    let _ = take_out();
                    p.runs.push(json!({"steps": done, "panic": format!("{} @ {}", panic_message(&e), loc)}));
                    panicked = true;
                    break;
                }
            }
        }
        if p.runs.len() == cfgs.len() {
            let res = json!({"id": sc.get("id").cloned().unwrap_or(Value::Null), "runs": std::mem::take(&mut p.runs)});
            let mut lock = stdout.lock();
            serde_json::to_writer(&mut lock, &res).expect("write");
            lock.write_all(b"\n").expect("write");
            lock.flush().expect("flush");
            p.next += 1;
        }
        if panicked {
            return p;
        }
    }
    p
}

fn main() {
    quiet_panics();
    let args: Vec<String> = std::env::args().collect();
    let input: Box<dyn BufRead> = if args.len() > 1 {
        Box::new(std::io::BufReader::new(std::fs::File::open(&args[1]).expect("open input")))
    } else {
        Box::new(std::io::BufReader::new(std::io::stdin()))
    };
    let mut scs = Vec::new();
    for line in input.lines() {
        let line = line.expect("read");
        if line.trim().is_empty() {
            continue;
        }
        match serde_json::from_str::<Value>(&line) {
            Ok(v) => scs.push(v),
            Err(e) => {
                eprintln!("bad scenario line: {e}");
                std::process::exit(2);
            }
        }
    }
    let scs = Arc::new(scs);
    let mut p = Progress { next: 0, runs: Vec::new() };
    while p.next < scs.len() {
        let s2 = scs.clone();
        let h = std::thread::Builder::new()
            .stack_size(256 << 20)
            .spawn(move || worker(s2, p))
            .expect("spawn");
        p = match h.join() {
            Ok(p) => p,
            Err(_) => {
                eprintln!("worker died outside a scenario");
                std::process::exit(3);
            }
        };
    }
}
