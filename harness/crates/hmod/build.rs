//! Feature detection for optional hooks of boa_engine (`cfg(boa_verif)`): the harness must build both before
//! and after the coordinator has applied work/proposals/C17-hook/hook.patch.
use std::path::PathBuf;

fn main() {
    println!("cargo:rustc-check-cfg=cfg(has_module_events)");
    let ws = PathBuf::from(std::env::var("CARGO_MANIFEST_DIR").unwrap()).join("../../Cargo.toml");
    println!("cargo:rerun-if-changed={}", ws.display());
    let Ok(text) = std::fs::read_to_string(&ws) else { return };
    // boa_engine = { path = "/repo/core/engine" }
    let Some(line) = text.lines().find(|l| l.trim_start().starts_with("boa_engine")) else { return };
    let Some(start) = line.find("path = \"") else { return };
    let rest = &line[start + 8..];
    let Some(end) = rest.find('"') else { return };
    let verif = PathBuf::from(&rest[..end]).join("src/verif.rs");
    println!("cargo:rerun-if-changed={}", verif.display());
    if let Ok(src) = std::fs::read_to_string(&verif) {
        if src.contains("pub fn take_module_events") && src.contains("pub fn module_event_id") {
            println!("cargo:rustc-cfg=has_module_events");
        }
    }
}
