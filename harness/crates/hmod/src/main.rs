//! Module-graph scenario runner for property C17.
//!
//! Scenario (one JSON object per line):
//!   {"id":…, "modules": {"<specifier>": "<source text>", …},
//!    "steps": [ {"op":"load","m":spec,"p":label} | {"op":"link","m":spec} | {"op":"eval","m":spec,"p":label}
//!             | {"op":"lle","m":spec,"p":label} | {"op":"jobs"} | {"op":"state"} | {"op":"get","m":spec,"name":export} ]}
//! Result: {"id":…, "steps":[{"out":[print lines], "r": step result}…], "log":[[referrer, specifier]…],
//!          "parsed":[specifier…]}.
//! The loader is an in-memory logging `ModuleLoader`: every `load_imported_module` call is logged as
//! (referrer path, specifier); a specifier is parsed the first time it is asked for (by the host or by an
//! import) and the same `Module` is returned afterwards, as the host hook contract requires.
//! With the optional hook `verif::take_module_events` (detected by build.rs) the result also carries
//! "events": [[specifier, from, to]…], the recorded [[Status]] transitions.
//! A Rust panic is data: {"id":…, "panic": "msg @ file:line", "partial": [steps completed so far]}.

use boa_engine::{
    Context, JsError, JsNativeError, JsObject, JsResult, Module, Source,
    builtins::promise::PromiseState,
    js_string,
    module::{ModuleLoader, ModuleRequest, Referrer},
    object::builtins::JsPromise,
};
use hcommon::*;
use serde_json::{Value, json};
use std::cell::RefCell;
use std::collections::BTreeMap;
use std::io::{BufRead, Write};
use std::path::Path;
use std::rc::Rc;

thread_local! {
    static PARTIAL: RefCell<Vec<Value>> = const { RefCell::new(Vec::new()) };
}

#[derive(Default)]
struct LogLoader {
    sources: RefCell<BTreeMap<String, String>>,
    cache: RefCell<BTreeMap<String, Module>>,
    log: RefCell<Vec<(String, String)>>,
    parsed: RefCell<Vec<String>>,
}

impl LogLoader {
    fn get_or_parse(&self, spec: &str, context: &mut Context) -> JsResult<Module> {
        if let Some(m) = self.cache.borrow().get(spec) {
            return Ok(m.clone());
        }
        let Some(src) = self.sources.borrow().get(spec).cloned() else {
            return Err(JsNativeError::typ().with_message(format!("no such module: {spec}")).into());
        };
        self.parsed.borrow_mut().push(spec.to_string());
        let m = Module::parse(Source::from_reader(src.as_bytes(), Some(Path::new(spec))), None, context)?;
        self.cache.borrow_mut().insert(spec.to_string(), m.clone());
        Ok(m)
    }
}

impl ModuleLoader for LogLoader {
    async fn load_imported_module(
        self: Rc<Self>,
        referrer: Referrer,
        request: ModuleRequest,
        context: &RefCell<&mut Context>,
    ) -> JsResult<Module> {
        let spec = request.specifier().to_std_string_escaped();
        let from = referrer.path().map(|p| p.to_string_lossy().into_owned()).unwrap_or_else(|| "?".into());
        self.log.borrow_mut().push((from, spec.clone()));
        self.get_or_parse(&spec, &mut context.borrow_mut())
    }
}

fn promise_state(p: &JsPromise, ctx: &mut Context) -> String {
    match p.state() {
        PromiseState::Pending => "pending".into(),
        PromiseState::Fulfilled(v) => format!("fulfilled:{}", render(&v, ctx)),
        PromiseState::Rejected(v) => format!("rejected:{}", render_error(&JsError::from_opaque(v), ctx)),
    }
}

fn run_scenario(sc: Value) -> Value {
    let loader = Rc::new(LogLoader::default());
    if let Some(ms) = sc.get("modules").and_then(Value::as_object) {
        for (k, v) in ms {
            loader.sources.borrow_mut().insert(k.clone(), v.as_str().unwrap_or("").to_string());
        }
    }
    #[cfg(has_module_events)]
    boa_engine::verif::set_module_events(true);
    let mut ctx = Context::builder().module_loader(loader.clone()).build().expect("context");
    install_print(&mut ctx);
    let _ = take_out();
    let mut promises: Vec<(String, JsPromise)> = Vec::new();
    let mut steps_out = Vec::new();
    for step in sc.get("steps").and_then(Value::as_array).cloned().unwrap_or_default() {
        let op = step.get("op").and_then(Value::as_str).unwrap_or("");
        let spec = step.get("m").and_then(Value::as_str).unwrap_or("");
        let label = step.get("p").and_then(Value::as_str).unwrap_or("").to_string();
        let r: Value = match op {
            "load" | "link" | "eval" | "lle" | "get" => match loader.get_or_parse(spec, &mut ctx) {
                Err(e) => json!(format!("parse-{}", render_error(&e, &mut ctx))),
                Ok(m) => match op {
                    "load" => {
                        let p = m.load(&mut ctx);
                        promises.push((label, p));
                        json!("ok")
                    }
                    "link" => match m.link(&mut ctx) {
                        Ok(()) => json!("ok"),
                        Err(e) => json!(render_error(&e, &mut ctx)),
                    },
                    "eval" => match m.evaluate(&mut ctx) {
                        Ok(p) => {
                            promises.push((label, p));
                            json!("ok")
                        }
                        Err(e) => json!(render_error(&e, &mut ctx)),
                    },
                    "lle" => {
                        let p = m.load_link_evaluate(&mut ctx);
                        promises.push((label, p));
                        json!("ok")
                    }
                    _ => {
                        let name = step.get("name").and_then(Value::as_str).unwrap_or("x");
                        let ns = m.namespace(&mut ctx);
                        let r = ns.get(js_string!(name), &mut ctx);
                        json!(render_completion(&r, &mut ctx))
                    }
                },
            },
            "jobs" => match ctx.run_jobs() {
                Ok(()) => json!("ok"),
                Err(e) => json!(render_error(&e, &mut ctx)),
            },
            "state" => {
                let mut o = serde_json::Map::new();
                for (l, p) in &promises {
                    o.insert(l.clone(), json!(promise_state(p, &mut ctx)));
                }
                // identity classes: label -> first label holding the same promise object
                let mut same = serde_json::Map::new();
                for (i, (l, p)) in promises.iter().enumerate() {
                    let po: JsObject = p.clone().into();
                    for (l2, p2) in promises.iter().take(i + 1) {
                        let p2o: JsObject = p2.clone().into();
                        if JsObject::equals(&po, &p2o) {
                            same.insert(l.clone(), json!(l2));
                            break;
                        }
                    }
                }
                json!({"states": o, "same": same})
            }
            _ => json!("unknown-op"),
        };
        let o = json!({"out": take_out(), "r": r});
        PARTIAL.with(|p| p.borrow_mut().push(o.clone()));
        steps_out.push(o);
    }
    let log: Vec<Value> = loader.log.borrow().iter().map(|(a, b)| json!([a, b])).collect();
    let parsed: Vec<Value> = loader.parsed.borrow().iter().map(|s| json!(s)).collect();
    #[allow(unused_mut)]
    let mut res = json!({"id": sc.get("id").cloned().unwrap_or(Value::Null), "steps": steps_out, "log": log, "parsed": parsed});
    #[cfg(has_module_events)]
    {
        // status(module, from, to) events of the hook, with module ids mapped back to specifiers
        let ids: Vec<(usize, String)> = loader
            .cache
            .borrow()
            .iter()
            .filter_map(|(spec, m)| boa_engine::verif::module_event_id(m).map(|id| (id, spec.clone())))
            .collect();
        let evs: Vec<Value> = boa_engine::verif::take_module_events()
            .into_iter()
            .map(|(id, from, to)| {
                let name = ids.iter().find(|(i, _)| *i == id).map_or("?", |(_, s)| s.as_str());
                json!([name, from, to])
            })
            .collect();
        boa_engine::verif::set_module_events(false);
        res["events"] = json!(evs);
    }
    res
}

/// Runs scenarios on one big-stack thread until one of them panics; returns the results and whether the
/// thread has to be replaced (thread-local engine state is not trusted after a panic).
fn run_batch(lines: Vec<String>) -> (Vec<Value>, usize) {
    let h = std::thread::Builder::new()
        .stack_size(256 << 20)
        .spawn(move || {
            let mut done = 0usize;
            let stdout = std::io::stdout();
            for line in &lines {
                let sc: Value = match serde_json::from_str(line) {
                    Ok(v) => v,
                    Err(e) => {
                        eprintln!("bad scenario line: {e}");
                        std::process::exit(2);
                    }
                };
                let id = sc.get("id").cloned().unwrap_or(Value::Null);
                PARTIAL.with(|p| p.borrow_mut().clear());
                let _ = take_out();
                let r = std::panic::catch_unwind(std::panic::AssertUnwindSafe(|| run_scenario(sc)));
                let (res, panicked) = match r {
                    Ok(v) => (v, false),
                    Err(p) => {
                        let loc = LAST_PANIC.with(|c| c.borrow().clone());
                        let partial = PARTIAL.with(|p| p.borrow().clone());
                        let out = take_out();
                        (json!({"id": id, "panic": format!("{} @ {}", panic_message(&p), loc), "partial": partial, "out_at_panic": out}), true)
                    }
                };
                let mut lock = stdout.lock();
                serde_json::to_writer(&mut lock, &res).expect("write");
                lock.write_all(b"\n").expect("write");
                lock.flush().expect("flush");
                done += 1;
                if panicked {
                    break;
                }
            }
            done
        })
        .expect("spawn");
    match h.join() {
        Ok(done) => (Vec::new(), done),
        Err(_) => (Vec::new(), usize::MAX),
    }
}

fn main() {
    quiet_panics();
    let args: Vec<String> = std::env::args().collect();
    let input: Box<dyn BufRead> = if args.len() > 1 {
        Box::new(std::io::BufReader::new(std::fs::File::open(&args[1]).expect("open input")))
    } else {
        Box::new(std::io::BufReader::new(std::io::stdin()))
    };
    let mut lines: Vec<String> = input.lines().map(|l| l.expect("read")).filter(|l| !l.trim().is_empty()).collect();
    while !lines.is_empty() {
        let (_, done) = run_batch(lines.clone());
        if done == usize::MAX {
            // the worker thread died outside catch_unwind (e.g. a panic while unwinding): let the driver see an abort
            std::process::exit(101);
        }
        lines.drain(..done.min(lines.len()));
    }
}
