//! Host-entry scenario runner for C07 (HostVm.tla). Same scenario format as `hjs` (steps on one
//! context), plus:
//!  * an event stream (`"events": true`): one `enter` event before and one `exit` event after every
//!    host entry, with the VM depths read through `boa_engine::verif::vm_depths` at that moment;
//!  * host natives `__reenter(f, ...args)` / `__renew(f, ...args)`: a native function that makes a
//!    NESTED host entry (`JsObject::call` / `JsObject::construct`) and records `enter`/`exit` events
//!    around it, so that the balance of nested entries is observable without engine-internal hooks;
//!  * step kind `module` (parse + load_link_evaluate + run_jobs of a single source text module).
//!
//! Event: {"e":"enter"|"exit","k":kind,"n":nesting level,"f":frames,"s":stack,"p":pending,"c":completion class}

use boa_engine::{
    Context, JsResult, JsValue, Module, NativeFunction, Script, Source, builtins::promise::PromiseState,
    context::ContextBuilder, js_string, object::FunctionObjectBuilder, optimizer::OptimizerOptions,
    property::Attribute, vm::RuntimeLimits,
};
use hcommon::*;
use serde_json::{Value, json};
use std::cell::{Cell, RefCell};
use std::io::{BufRead, Write};
use std::task::{Context as TaskCx, Poll, Waker};

thread_local! {
    static EVENTS: RefCell<Vec<Value>> = const { RefCell::new(Vec::new()) };
    static NEST: Cell<u32> = const { Cell::new(0) };
}

fn completion_class(c: &str) -> &'static str {
    if c.starts_with("value:") {
        "normal"
    } else if c.starts_with("throw:") {
        "throw"
    } else if c.starts_with("limit:") {
        "limit"
    } else {
        "internal"
    }
}

fn ev(e: &str, kind: &str, ctx: &Context, c: Option<&str>) {
    let d = boa_engine::verif::vm_depths(ctx);
    let mut o = json!({"e": e, "k": kind, "n": NEST.with(Cell::get), "f": d.0, "s": d.1, "p": d.2});
    if let Some(c) = c {
        o["c"] = json!(completion_class(c));
    }
    EVENTS.with(|v| v.borrow_mut().push(o));
}

fn poll_to_end<F: Future>(fut: F) -> F::Output {
    let mut fut = std::pin::pin!(fut);
    let mut cx = TaskCx::from_waker(Waker::noop());
    loop {
        if let Poll::Ready(v) = fut.as_mut().poll(&mut cx) {
            return v;
        }
    }
}

fn arg_value(a: &Value) -> JsValue {
    match a {
        Value::Null => JsValue::null(),
        Value::Bool(b) => JsValue::from(*b),
        Value::Number(n) => {
            if let Some(i) = n.as_i64() {
                if let Ok(i) = i32::try_from(i) { JsValue::from(i) } else { JsValue::from(i as f64) }
            } else {
                JsValue::from(n.as_f64().unwrap_or(f64::NAN))
            }
        }
        Value::String(s) => JsValue::from(js_string!(s.as_str())),
        _ => JsValue::undefined(),
    }
}

fn apply_cfg(ctx: &mut Context, cfg: &Value) {
    let opt = cfg.get("opt").and_then(Value::as_u64).unwrap_or(14) as u8;
    ctx.set_optimizer_options(OptimizerOptions::from_bits_truncate(opt));
    if cfg.get("strict").and_then(Value::as_bool).unwrap_or(false) {
        ctx.strict(true);
    }
    let mut lim = RuntimeLimits::default();
    if let Some(n) = cfg.get("loop").and_then(Value::as_u64) {
        lim.set_loop_iteration_limit(n);
    }
    if let Some(n) = cfg.get("rec").and_then(Value::as_u64) {
        lim.set_recursion_limit(n as usize);
    }
    if let Some(n) = cfg.get("stack").and_then(Value::as_u64) {
        lim.set_stack_size_limit(n as usize);
    }
    ctx.set_runtime_limits(lim);
}

/// `__reenter(f, ...args)`: nested `JsObject::call`; `__renew(f, ...args)`: nested `JsObject::construct`.
fn nested(construct: bool, args: &[JsValue], ctx: &mut Context) -> JsResult<JsValue> {
    let kind = if construct { "construct" } else { "call" };
    let f = args.first().cloned().unwrap_or_default();
    let rest: Vec<JsValue> = args.iter().skip(1).cloned().collect();
    let Some(fo) = f.as_object() else {
        return Ok(JsValue::from(js_string!("<<not-an-object>>")));
    };
    NEST.with(|n| n.set(n.get() + 1));
    ev("enter", kind, ctx, None);
    let r = if construct {
        fo.construct(&rest, None, ctx).map(JsValue::from)
    } else {
        fo.call(&JsValue::undefined(), &rest, ctx)
    };
    let c = render_completion(&r, ctx);
    ev("exit", kind, ctx, Some(&c));
    NEST.with(|n| n.set(n.get() - 1));
    r
}

fn reenter(_this: &JsValue, args: &[JsValue], ctx: &mut Context) -> JsResult<JsValue> {
    nested(false, args, ctx)
}

fn renew(_this: &JsValue, args: &[JsValue], ctx: &mut Context) -> JsResult<JsValue> {
    nested(true, args, ctx)
}

fn install_natives(ctx: &mut Context) {
    for (name, f) in [("__reenter", reenter as fn(&JsValue, &[JsValue], &mut Context) -> JsResult<JsValue>), ("__renew", renew)] {
        let fo = FunctionObjectBuilder::new(ctx.realm(), NativeFunction::from_fn_ptr(f))
            .name(js_string!(name))
            .length(1)
            .build();
        ctx.register_global_property(js_string!(name), fo, Attribute::empty())
            .expect("native registration");
    }
}

fn eval_step(ctx: &mut Context, step: &Value) -> JsResult<JsValue> {
    // raw inputs (C02): UTF-16 code units incl. lone surrogates, or arbitrary bytes incl. invalid UTF-8
    if let Some(u) = step.get("u16").and_then(Value::as_array) {
        let units: Vec<u16> = u.iter().map(|x| x.as_u64().unwrap_or(0) as u16).collect();
        return ctx.eval(Source::from_utf16(&units));
    }
    if let Some(h) = step.get("hex").and_then(Value::as_str) {
        let bytes: Vec<u8> = (0..h.len() / 2).map(|i| u8::from_str_radix(&h[2 * i..2 * i + 2], 16).unwrap_or(0)).collect();
        return if step.get("via").and_then(Value::as_str) == Some("reader") {
            ctx.eval(Source::from_reader(&bytes[..], None))
        } else {
            ctx.eval(Source::from_bytes(&bytes))
        };
    }
    let src = step.get("src").and_then(Value::as_str).unwrap_or("");
    let via = step.get("via").and_then(Value::as_str).unwrap_or("bytes");
    match via {
        "script" => {
            let s = Script::parse(Source::from_bytes(src), None, ctx)?;
            s.evaluate(ctx)
        }
        "async" => {
            let budget = step.get("budget").and_then(Value::as_u64).unwrap_or(256) as u32;
            let s = Script::parse(Source::from_bytes(src), None, ctx)?;
            poll_to_end(s.evaluate_async_with_budget(ctx, budget))
        }
        _ => ctx.eval(Source::from_bytes(src)),
    }
}

fn module_step(ctx: &mut Context, step: &Value) -> JsResult<JsValue> {
    let src = step.get("src").and_then(Value::as_str).unwrap_or("");
    let m = if let Some(u) = step.get("u16").and_then(Value::as_array) {
        let units: Vec<u16> = u.iter().map(|x| x.as_u64().unwrap_or(0) as u16).collect();
        Module::parse(Source::from_utf16(&units), None, ctx)?
    } else {
        Module::parse(Source::from_bytes(src), None, ctx)?
    };
    let p = m.load_link_evaluate(ctx);
    ctx.run_jobs()?;
    match p.state() {
        PromiseState::Fulfilled(v) => Ok(v),
        PromiseState::Rejected(e) => Err(boa_engine::JsError::from_opaque(e)),
        PromiseState::Pending => Ok(JsValue::from(js_string!("<<pending>>"))),
    }
}

fn step_kind(step: &Value) -> &'static str {
    match step.get("kind").and_then(Value::as_str).unwrap_or("eval") {
        "eval" => {
            if step.get("via").and_then(Value::as_str) == Some("async") { "evalasync" } else { "eval" }
        }
        "jobs" => "jobs",
        "call" => "call",
        "construct" => "construct",
        "module" => "module",
        "gc" => "gc",
        _ => "other",
    }
}

fn run_step(ctx: &mut Context, step: &Value) -> String {
    let kind = step_kind(step);
    // the function lookup is done before the entry proper so that the event brackets exactly the entry
    let mut callee = None;
    if kind == "call" || kind == "construct" {
        let name = step.get("fn").and_then(Value::as_str).unwrap_or("f");
        let g = ctx.global_object();
        match g.get(js_string!(name), ctx) {
            Ok(f) => callee = f.as_object(),
            Err(e) => return render_completion(&Err(e), ctx),
        }
        if callee.is_none() {
            return "value:s:<<not-an-object>>".into();
        }
    }
    ev("enter", kind, ctx, None);
    let r: JsResult<JsValue> = match kind {
        "eval" | "evalasync" => eval_step(ctx, step),
        "jobs" => ctx.run_jobs().map(|()| JsValue::undefined()),
        "module" => module_step(ctx, step),
        "call" | "construct" => {
            let args: Vec<JsValue> = step
                .get("args")
                .and_then(Value::as_array)
                .map(|a| a.iter().map(arg_value).collect())
                .unwrap_or_default();
            let fo = callee.expect("checked");
            if kind == "call" {
                fo.call(&JsValue::undefined(), &args, ctx)
            } else {
                fo.construct(&args, None, ctx).map(JsValue::from)
            }
        }
        "gc" => {
            boa_gc::force_collect();
            Ok(JsValue::undefined())
        }
        _ => Ok(JsValue::undefined()),
    };
    let c = render_completion(&r, ctx);
    ev("exit", kind, ctx, Some(&c));
    c
}

fn run_scenario(sc: Value) -> Value {
    let cfg = sc.get("cfg").cloned().unwrap_or(json!({}));
    let want_events = sc.get("events").and_then(Value::as_bool).unwrap_or(false);
    boa_gc::verif::set_stress(cfg.get("gc").and_then(Value::as_u64).unwrap_or(0));
    let mut steps_out = Vec::new();
    EVENTS.with(|v| v.borrow_mut().clear());
    NEST.with(|n| n.set(0));
    let d0;
    {
        let mut ctx = ContextBuilder::new().build().expect("context");
        install_print(&mut ctx);
        install_natives(&mut ctx);
        apply_cfg(&mut ctx, &cfg);
        let _ = take_out();
        let d = boa_engine::verif::vm_depths(&ctx);
        d0 = json!([d.0, d.1, d.2]);
        for step in sc.get("steps").and_then(Value::as_array).cloned().unwrap_or_default() {
            let c = run_step(&mut ctx, &step);
            let d = boa_engine::verif::vm_depths(&ctx);
            steps_out.push(json!({"out": take_out(), "c": c, "d": [d.0, d.1, d.2]}));
        }
    }
    boa_gc::verif::set_stress(0);
    let mut res = json!({"id": sc.get("id").cloned().unwrap_or(Value::Null), "d0": d0, "steps": steps_out});
    if want_events {
        res["ev"] = Value::Array(EVENTS.with(|v| std::mem::take(&mut *v.borrow_mut())));
    }
    res
}

fn main() {
    quiet_panics();
    hcommon::start_watchdog();
    let args: Vec<String> = std::env::args().collect();
    let input: Box<dyn BufRead> = if args.len() > 1 {
        Box::new(std::io::BufReader::new(std::fs::File::open(&args[1]).expect("open input")))
    } else {
        Box::new(std::io::BufReader::new(std::io::stdin()))
    };
    let stdout = std::io::stdout();
    for line in input.lines() {
        let line = line.expect("read");
        if line.trim().is_empty() {
            continue;
        }
        let sc: Value = match serde_json::from_str(&line) {
            Ok(v) => v,
            Err(e) => {
                eprintln!("bad scenario line: {e}");
                std::process::exit(2);
            }
        };
        let id = sc.get("id").cloned().unwrap_or(Value::Null);
        hcommon::arm_watchdog(sc.get("timeout_ms").and_then(Value::as_u64).unwrap_or(0));
        let res = match isolated(move || {
            let r = std::panic::catch_unwind(std::panic::AssertUnwindSafe(|| run_scenario(sc)));
            match r {
                Ok(v) => v,
                Err(p) => {
                    let loc = LAST_PANIC.with(|c| c.borrow().clone());
                    let evs = EVENTS.with(|v| std::mem::take(&mut *v.borrow_mut()));
                    json!({"panic": format!("{} @ {}", panic_message(&p), loc), "ev": evs})
                }
            }
        }) {
            Ok(mut v) => {
                if v.get("panic").is_some() {
                    v["id"] = id;
                }
                v
            }
            Err(m) => json!({"id": id, "panic": m}),
        };
        hcommon::arm_watchdog(0);
        let mut lock = stdout.lock();
        serde_json::to_writer(&mut lock, &res).expect("write");
        lock.write_all(b"\n").expect("write");
        lock.flush().expect("flush");
    }
}
