//! replay-gc: executes operation histories emitted by spec/heap/MCGc*.tla against the real `boa_gc`
//! (`Gc`, `WeakGc`, `Ephemeron`, `WeakMap`, `force_collect`) and reports what was observed.
//!
//! Input (file given as argv[1]): one history per line
//!   {"id":…, "ops":[{"op":"alloc","n":1,"k":0}, {"op":"link","a":1,"b":2}, …]}
//! Output: one line per history
//!   {"id":…, "obs":[<one observation per op>], "end":{"fin":[…],"drop":[…],"st":[s,e,w]}}
//! or {"id":…, "obs":[… up to the failing op …], "panic":"msg @ file:line"}.
//!
//! Observation of an op: {} when nothing is observable, {"r":x} for upgrade / ephval / wmget / wmrem,
//! {"fin":[ids],"drop":[ids],"st":[strong boxes, ephemeron boxes, weak maps]} for collect; any op may carry
//! "ev" (Finalize/Drop events that happened outside a collect), "bad" (canary / identity failures),
//! "autogc" (the allocator ran a collection by itself) or "err" (the history is not executable: renderer bug).
//!
//! The payload type `Node` derives `Trace`; `Finalize` (of the node) and `Drop` (of its `Probe` field) append
//! `(event, node id)` to a thread-local log. Every access through a handle checks the node's canary and id.
//! Node kind 1 ("leaky") keeps its edges in a field marked `#[unsafe_ignore_trace]`; it exists only so that
//! the check can demonstrate that a missing `Trace` edge is noticed.
//!
//! Every history runs on a fresh thread, i.e. on a fresh thread-local heap. A crash of the process is data
//! for the driver (`vlib.run_lines`).

use boa_gc::{Ephemeron, Finalize, Gc, GcRefCell, Trace, WeakGc, WeakMap, force_collect};
use serde_json::{Map, Value, json};
use std::cell::{Cell, RefCell};
use std::collections::BTreeMap;
use std::io::{BufRead, Write};

const MAGIC: u64 = 0xC0FF_EE5E_ED00_0000;
const DEAD: u64 = 0xDEAD_DEAD_DEAD_DEAD;

thread_local! {
    /// (0 = finalize | 1 = drop, node id)
    static LOG: RefCell<Vec<(u8, u32)>> = const { RefCell::new(Vec::new()) };
    /// Handles created by resurrecting finalizers; the mutator adopts them after the collection.
    static RES: RefCell<Vec<(u32, Gc<Node>)>> = const { RefCell::new(Vec::new()) };
    static LAST_PANIC_LOC: RefCell<String> = const { RefCell::new(String::new()) };
    /// Canary / identity failures.
    static BAD: RefCell<Vec<String>> = const { RefCell::new(Vec::new()) };
}

fn log_ev(kind: u8, id: u32) {
    let _ = LOG.try_with(|l| {
        if let Ok(mut l) = l.try_borrow_mut() {
            l.push((kind, id));
        }
    });
}

fn bad(msg: String) {
    let _ = BAD.try_with(|l| {
        if let Ok(mut l) = l.try_borrow_mut() {
            if l.len() < 16 {
                l.push(msg);
            }
        }
    });
}

/// The untraced part of a node: identity, canary, finalizer programme. Its `Drop` is the node's "freed" event.
struct Probe {
    id: u32,
    canary: Cell<u64>,
    /// 0, or the id of the edge target the finalizer hands to the mutator (one shot).
    arm: Cell<u32>,
    leaky: bool,
}

impl Probe {
    fn ok(&self) -> bool {
        // SAFETY: plain read of an initialised field; volatile so that the check is never folded away.
        let c = unsafe { std::ptr::read_volatile(self.canary.as_ptr()) };
        c == (MAGIC | u64::from(self.id))
    }
}

impl Finalize for Probe {}
// SAFETY: `Probe` holds no garbage-collected pointers.
unsafe impl Trace for Probe {
    boa_gc::empty_trace!();
}

impl Drop for Probe {
    fn drop(&mut self) {
        if !self.ok() {
            bad(format!("drop of poisoned node {}", self.id));
        }
        log_ev(1, self.id);
        // SAFETY: plain write to an owned field; volatile so that it survives as a tombstone.
        unsafe { std::ptr::write_volatile(self.canary.as_ptr(), DEAD) };
    }
}

/// The value of an ephemeron: an optional `Gc` handle and any number of weak handles (`WeakGc`, `Ephemeron`) that
/// lie directly in it, i.e. `Ephemeron<Node, WeakGc<Node>>`, `Ephemeron<Node, Ephemeron<Node, ..>>` and their
/// combinations. The value is built before `Ephemeron::new` and never changes afterwards.
#[derive(Trace, Finalize)]
struct Val {
    g: Option<Gc<Node>>,
    w: Vec<(u32, WeakGc<Node>)>,
    e: Vec<(u32, Eph)>,
}

type Eph = Ephemeron<Node, Val>;
type Wm = WeakMap<Node, Gc<Node>>;

#[derive(Trace)]
struct Node {
    probe: Probe,
    edges: GcRefCell<Vec<Gc<Node>>>,
    /// Edges of a "leaky" container: deliberately invisible to the collector.
    #[unsafe_ignore_trace]
    hidden: GcRefCell<Vec<Gc<Node>>>,
    ephs: GcRefCell<Vec<(u32, Eph)>>,
    maps: GcRefCell<Vec<(u32, Wm)>>,
}

impl Node {
    fn out(&self) -> &GcRefCell<Vec<Gc<Node>>> {
        if self.probe.leaky { &self.hidden } else { &self.edges }
    }
}

impl Finalize for Node {
    fn finalize(&self) {
        let p = &self.probe;
        if !p.ok() {
            bad(format!("finalize of poisoned node {}", p.id));
        }
        log_ev(0, p.id);
        let t = p.arm.get();
        if t != 0 {
            p.arm.set(0);
            if let Ok(edges) = self.out().try_borrow() {
                if let Some(g) = edges.iter().find(|g| g.probe.id == t) {
                    let h = g.clone();
                    let _ = RES.try_with(|r| r.borrow_mut().push((t, h)));
                }
            }
        }
    }
}

#[derive(Default)]
struct World {
    handles: BTreeMap<u32, Vec<Gc<Node>>>,
    weaks: BTreeMap<u32, WeakGc<Node>>,
    ephs: BTreeMap<u32, Eph>,
    eph_holder: BTreeMap<u32, u32>,
    /// weak row (WeakGc or Ephemeron) -> the ephemeron in whose value its handle lies
    in_value: BTreeMap<u32, u32>,
    maps: BTreeMap<u32, Wm>,
    map_holder: BTreeMap<u32, u32>,
}

fn check(g: &Gc<Node>, want: u32, how: &str) {
    let p = &g.probe;
    if !p.ok() || p.id != want {
        bad(format!("{how}: expected live node {want}, found id {} canary {:#x}", p.id, p.canary.get()));
    }
}

fn num(o: &Value, k: &str) -> Result<u32, String> {
    o.get(k).and_then(Value::as_u64).map(|x| x as u32).ok_or_else(|| format!("missing field {k}"))
}

impl World {
    fn node(&self, a: u32) -> Result<&Gc<Node>, String> {
        let g = self.handles.get(&a).and_then(|v| v.last()).ok_or_else(|| format!("no handle on node {a}"))?;
        check(g, a, "handle");
        Ok(g)
    }

    /// Row ids from the outermost ephemeron (held by the mutator or a node) down to row `x`.
    fn path(&self, x: u32) -> Vec<u32> {
        let mut p = vec![x];
        let mut c = x;
        while let Some(&o) = self.in_value.get(&c) {
            p.push(o);
            c = o;
        }
        p.reverse();
        p
    }

    /// Follows `path` (ephemeron ids, each lying in the value of the one before) from `eph`; the last element of
    /// `rest` is looked up among the ephemerons (`f`) or, with `weak`, among the weak pointers (`g`) of the value.
    fn descend<R>(
        eph: &Eph,
        rest: &[u32],
        weak: bool,
        f: &mut dyn FnMut(&Eph) -> R,
        g: &mut dyn FnMut(&WeakGc<Node>) -> R,
    ) -> Result<R, String> {
        let Some((&next, tail)) = rest.split_first() else {
            return Ok(f(eph));
        };
        let v = eph.value().ok_or_else(|| format!("the ephemeron holding row {next} has no value"))?;
        if let Some(k) = &v.g {
            check(k, k.probe.id, "ephemeron value on a path");
        }
        if tail.is_empty() && weak {
            let (_, w) = v.w.iter().find(|(id, _)| *id == next).ok_or_else(|| format!("weak {next} not in the value"))?;
            return Ok(g(w));
        }
        let (_, inner) = v.e.iter().find(|(id, _)| *id == next).ok_or_else(|| format!("ephemeron {next} not in the value"))?;
        Self::descend(inner, tail, weak, f, g)
    }

    fn with_eph<R>(&self, e: u32, f: impl FnOnce(&Eph) -> R) -> Result<R, String> {
        if self.in_value.contains_key(&e) {
            let p = self.path(e);
            let mut f = Some(f);
            return self.with_top_eph(p[0], |top| {
                Self::descend(top, &p[1..], false, &mut |x| (f.take().expect("once"))(x), &mut |_| unreachable!())
            })?;
        }
        self.with_top_eph(e, f)
    }

    /// An ephemeron held by the mutator or by a node.
    fn with_top_eph<R>(&self, e: u32, f: impl FnOnce(&Eph) -> R) -> Result<R, String> {
        let h = *self.eph_holder.get(&e).ok_or_else(|| format!("unknown ephemeron {e}"))?;
        if h == 0 {
            return self.ephs.get(&e).map(f).ok_or_else(|| format!("ephemeron {e} not held"));
        }
        let n = self.node(h)?;
        let v = n.ephs.borrow();
        v.iter().find(|(id, _)| *id == e).map(|(_, x)| f(x)).ok_or_else(|| format!("ephemeron {e} not in node {h}"))
    }

    fn with_weak<R>(&self, w: u32, f: impl FnOnce(&WeakGc<Node>) -> R) -> Result<R, String> {
        if self.in_value.contains_key(&w) {
            let p = self.path(w);
            let mut f = Some(f);
            return self.with_top_eph(p[0], |top| {
                Self::descend(top, &p[1..], true, &mut |_| unreachable!(), &mut |x| (f.take().expect("once"))(x))
            })?;
        }
        self.weaks.get(&w).map(f).ok_or_else(|| format!("unknown weak {w}"))
    }

    fn with_map<R>(&mut self, m: u32, f: impl FnOnce(&mut Wm) -> R) -> Result<R, String> {
        let h = *self.map_holder.get(&m).ok_or_else(|| format!("unknown weak map {m}"))?;
        if h == 0 {
            return self.maps.get_mut(&m).map(f).ok_or_else(|| format!("weak map {m} not held"));
        }
        let n = self.node(h)?.clone();
        let mut v = n.maps.borrow_mut();
        v.iter_mut().find(|(id, _)| *id == m).map(|(_, x)| f(x)).ok_or_else(|| format!("weak map {m} not in node {h}"))
    }

    /// After a collection: handles the mutator holds (or was handed by a finalizer) on nodes that the collection
    /// dropped are dangling. They are reported and forgotten (never touched again), so that the heap stays usable.
    fn after_collect(&mut self, dropped: &[u32]) -> Vec<u32> {
        let mut dangling = Vec::new();
        let got: Vec<(u32, Gc<Node>)> = RES.with(|r| std::mem::take(&mut *r.borrow_mut()));
        for (id, g) in got {
            if dropped.contains(&id) {
                dangling.push(id);
                std::mem::forget(g);
            } else {
                check(&g, id, "resurrected handle");
                self.handles.entry(id).or_default().push(g);
            }
        }
        for id in dropped {
            if let Some(v) = self.handles.remove(id) {
                dangling.push(*id);
                for g in v {
                    std::mem::forget(g);
                }
            }
        }
        dangling.sort_unstable();
        dangling.dedup();
        dangling
    }

    fn exec(&mut self, o: &Value) -> Result<Map<String, Value>, String> {
        let mut out = Map::new();
        let op = o.get("op").and_then(Value::as_str).ok_or("missing op")?;
        match op {
            "alloc" => {
                let n = num(o, "n")?;
                let leaky = num(o, "k")? == 1;
                let g = Gc::new(Node {
                    probe: Probe { id: n, canary: Cell::new(MAGIC | u64::from(n)), arm: Cell::new(0), leaky },
                    edges: GcRefCell::new(Vec::new()),
                    hidden: GcRefCell::new(Vec::new()),
                    ephs: GcRefCell::new(Vec::new()),
                    maps: GcRefCell::new(Vec::new()),
                });
                if self.handles.insert(n, vec![g]).is_some() {
                    return Err(format!("node id {n} reused"));
                }
            }
            "clone" => {
                let a = num(o, "a")?;
                let g = self.node(a)?.clone();
                self.handles.get_mut(&a).expect("present").push(g);
            }
            "droph" => {
                let a = num(o, "a")?;
                self.node(a)?;
                let v = self.handles.get_mut(&a).expect("present");
                v.pop();
                if v.is_empty() {
                    self.handles.remove(&a);
                }
            }
            "link" => {
                let (a, b) = (num(o, "a")?, num(o, "b")?);
                let g = self.node(b)?.clone();
                self.node(a)?.out().borrow_mut().push(g);
            }
            "unlink" => {
                let (a, b) = (num(o, "a")?, num(o, "b")?);
                let n = self.node(a)?;
                let mut v = n.out().borrow_mut();
                let pos = v.iter().position(|g| g.probe.id == b).ok_or_else(|| format!("no edge {a}->{b}"))?;
                check(&v[pos], b, "edge");
                let g = v.remove(pos);
                drop(v);
                drop(g);
            }
            "load" => {
                let (a, b) = (num(o, "a")?, num(o, "b")?);
                let n = self.node(a)?;
                let v = n.out().borrow();
                let g = v.iter().find(|g| g.probe.id == b).ok_or_else(|| format!("no edge {a}->{b}"))?;
                check(g, b, "edge");
                let g = g.clone();
                drop(v);
                self.handles.entry(b).or_default().push(g);
            }
            "weak" => {
                let (w, a) = (num(o, "w")?, num(o, "a")?);
                let wk = WeakGc::new(self.node(a)?);
                self.weaks.insert(w, wk);
            }
            "upgrade" => {
                let w = num(o, "w")?;
                let (up, got) = self.with_weak(w, |wk| (wk.is_upgradable(), wk.upgrade()))?;
                match got {
                    Some(g) => {
                        let id = g.probe.id;
                        check(&g, id, "upgrade");
                        self.handles.entry(id).or_default().push(g);
                        out.insert("r".into(), json!(id));
                        if !up {
                            bad(format!("weak {w}: upgrade succeeded but is_upgradable() was false"));
                        }
                    }
                    None => {
                        out.insert("r".into(), json!(0));
                        if up {
                            bad(format!("weak {w}: upgrade failed but is_upgradable() was true"));
                        }
                    }
                }
            }
            "dropw" => {
                let w = num(o, "w")?;
                self.weaks.remove(&w).ok_or_else(|| format!("weak {w} not held by the mutator"))?;
            }
            "eph" => {
                let (e, k, v, h) = (num(o, "e")?, num(o, "k")?, num(o, "v")?, num(o, "h")?);
                let mut val = Val { g: if v == 0 { None } else { Some(self.node(v)?.clone()) }, w: Vec::new(), e: Vec::new() };
                // the weak handles the mutator moves into the value (it must hold them itself)
                let ws: Vec<u32> = match o.get("ws") {
                    None => Vec::new(),
                    Some(a) => a.as_array().ok_or("ws is not a list")?.iter().filter_map(Value::as_u64).map(|x| x as u32).collect(),
                };
                self.node(k)?;
                if h != 0 {
                    self.node(h)?;
                }
                for x in ws {
                    if let Some(wk) = self.weaks.remove(&x) {
                        val.w.push((x, wk));
                    } else if self.eph_holder.get(&x) == Some(&0) && !self.in_value.contains_key(&x) {
                        let inner = self.ephs.remove(&x).ok_or_else(|| format!("ephemeron {x} not held by the mutator"))?;
                        val.e.push((x, inner));
                    } else {
                        return Err(format!("row {x} is not held by the mutator"));
                    }
                    self.in_value.insert(x, e);
                }
                let eph = Ephemeron::new(self.node(k)?, val);
                if h == 0 {
                    self.ephs.insert(e, eph);
                } else {
                    self.node(h)?.ephs.borrow_mut().push((e, eph));
                }
                self.eph_holder.insert(e, h);
            }
            "ephval" => {
                let e = num(o, "e")?;
                let (r, s) = self.with_eph(e, |eph| match eph.value() {
                    Some(v) => {
                        if !eph.has_value() {
                            bad(format!("ephemeron {e}: value() is Some but has_value() is false"));
                        }
                        match &v.g {
                            Some(g) => {
                                check(g, g.probe.id, "ephemeron value");
                                (g.probe.id, 1)
                            }
                            None => (0, 1),
                        }
                    }
                    None => {
                        if eph.has_value() {
                            bad(format!("ephemeron {e}: value() is None but has_value() is true"));
                        }
                        (0, 0)
                    }
                })?;
                out.insert("r".into(), json!(r));
                out.insert("s".into(), json!(s));
            }
            "drope" => {
                let e = num(o, "e")?;
                self.ephs.remove(&e).ok_or_else(|| format!("ephemeron {e} not held by the mutator"))?;
                self.eph_holder.remove(&e);
            }
            "wm" => {
                let (m, h) = (num(o, "m")?, num(o, "h")?);
                let map: Wm = WeakMap::new();
                if h == 0 {
                    self.maps.insert(m, map);
                } else {
                    self.node(h)?.maps.borrow_mut().push((m, map));
                }
                self.map_holder.insert(m, h);
            }
            "wmins" => {
                let (m, k, v) = (num(o, "m")?, num(o, "k")?, num(o, "v")?);
                let key = self.node(k)?.clone();
                let val = self.node(v)?.clone();
                self.with_map(m, |map| map.insert(&key, val))?;
            }
            "wmrem" => {
                let (m, k) = (num(o, "m")?, num(o, "k")?);
                let key = self.node(k)?.clone();
                let r = self.with_map(m, |map| map.remove(&key))?;
                out.insert("r".into(), json!(u32::from(r)));
            }
            "wmget" => {
                let (m, k) = (num(o, "m")?, num(o, "k")?);
                let key = self.node(k)?.clone();
                let r = self.with_map(m, |map| {
                    let has = map.contains_key(&key);
                    let r = match map.get(&key) {
                        Some(eph) => match eph.value() {
                            Some(v) => {
                                check(&v, v.probe.id, "weak map value");
                                v.probe.id
                            }
                            None => {
                                bad(format!("weak map {m}: entry for live key {k} has no value"));
                                0
                            }
                        },
                        None => 0,
                    };
                    if has != (r != 0) {
                        bad(format!("weak map {m}: contains_key({k}) = {has} but get gave {r}"));
                    }
                    r
                })?;
                out.insert("r".into(), json!(r));
            }
            "dropwm" => {
                let m = num(o, "m")?;
                self.maps.remove(&m).ok_or_else(|| format!("weak map {m} not held by the mutator"))?;
                self.map_holder.remove(&m);
            }
            "arm" => {
                let (a, t) = (num(o, "a")?, num(o, "t")?);
                self.node(a)?.probe.arm.set(t);
            }
            "collect" => {
                force_collect();
                let (fin, drp) = take_log();
                let dangling = self.after_collect(&drp);
                if !dangling.is_empty() {
                    out.insert("uaf".into(), json!(dangling));
                }
                let st = boa_gc::verif::stats();
                out.insert("fin".into(), json!(fin));
                out.insert("drop".into(), json!(drp));
                out.insert("st".into(), json!([st.0, st.1, st.2]));
            }
            other => return Err(format!("unknown op {other}")),
        }
        Ok(out)
    }
}

fn take_log() -> (Vec<u32>, Vec<u32>) {
    let evs: Vec<(u8, u32)> = LOG.with(|l| std::mem::take(&mut *l.borrow_mut()));
    let mut fin: Vec<u32> = evs.iter().filter(|e| e.0 == 0).map(|e| e.1).collect();
    let mut drp: Vec<u32> = evs.iter().filter(|e| e.0 == 1).map(|e| e.1).collect();
    fin.sort_unstable();
    drp.sort_unstable();
    (fin, drp)
}

fn take_bad() -> Vec<String> {
    BAD.with(|l| std::mem::take(&mut *l.borrow_mut()))
}

/// Runs one history on the current (fresh) thread. Observations are pushed to `obs` as they are made so that
/// they survive a panic.
fn run_history(h: &Value, obs: &mut Vec<Value>, end: &mut Option<Value>) {
    let mut w = World::default();
    let ops = h.get("ops").and_then(Value::as_array).cloned().unwrap_or_default();
    for o in &ops {
        let colls = boa_gc::verif::stats().4;
        let is_collect = o.get("op").and_then(Value::as_str) == Some("collect");
        let mut m = match w.exec(o) {
            Ok(m) => m,
            Err(e) => {
                let mut m = Map::new();
                m.insert("err".into(), json!(e));
                m
            }
        };
        if !is_collect {
            if boa_gc::verif::stats().4 != colls {
                m.insert("autogc".into(), json!(true));
            }
            let (fin, drp) = take_log();
            if !fin.is_empty() || !drp.is_empty() {
                m.insert("ev".into(), json!({"fin": fin, "drop": drp}));
            }
        }
        let b = take_bad();
        if !b.is_empty() {
            m.insert("bad".into(), json!(b));
        }
        let stop = m.contains_key("err") || m.contains_key("uaf");
        obs.push(Value::Object(m));
        if stop {
            break;
        }
    }
    // Teardown: the mutator lets go of everything (handles handed out by finalizers are dropped right after the
    // collection that produced them); everything must be finalised and freed.
    drop(w);
    let mut rounds = Vec::new();
    let mut uaf = Vec::new();
    for _ in 0..4 {
        force_collect();
        let (f, d) = take_log();
        let got: Vec<(u32, Gc<Node>)> = RES.with(|r| std::mem::take(&mut *r.borrow_mut()));
        for (id, g) in got {
            if d.contains(&id) {
                uaf.push(id);
                std::mem::forget(g);
            }
        }
        rounds.push(json!({"fin": f, "drop": d}));
    }
    let st = boa_gc::verif::stats();
    let mut e = json!({"rounds": rounds, "st": [st.0, st.1, st.2]});
    if !uaf.is_empty() {
        e["uaf"] = json!(uaf);
    }
    let b = take_bad();
    if !b.is_empty() {
        e["bad"] = json!(b);
    }
    *end = Some(e);
}

/// Runs histories `from..` on the current thread (one thread = one heap) until the input is exhausted or a
/// history leaves the heap in a state that cannot be trusted (panic, dangling handle, canary failure, boxes left
/// after the teardown); returns the index of the next history to run (on a fresh thread, i.e. a fresh heap).
fn run_some(all: &[Value], from: usize, progress: &std::sync::atomic::AtomicUsize) -> usize {
    let stdout = std::io::stdout();
    let mut i = from;
    while i < all.len() {
        let h = &all[i];
        i += 1;
        let mut obs = Vec::new();
        let mut end = None;
        let r = std::panic::catch_unwind(std::panic::AssertUnwindSafe(|| run_history(h, &mut obs, &mut end)));
        let panic = r.err().map(|p| {
            p.downcast_ref::<String>().cloned().or_else(|| p.downcast_ref::<&str>().map(|s| (*s).to_string())).unwrap_or_else(|| "panic".into())
                + &LAST_PANIC_LOC.with(|c| c.borrow().clone())
        });
        let mut dirty = panic.is_some();
        dirty |= obs.iter().any(|o| o.get("bad").is_some() || o.get("uaf").is_some() || o.get("err").is_some());
        match &end {
            Some(e) => dirty |= e.get("bad").is_some() || e.get("uaf").is_some() || e["st"] != json!([0, 0, 0]),
            None => dirty = true,
        }
        let mut out = Map::new();
        out.insert("id".into(), h.get("id").cloned().unwrap_or(Value::Null));
        out.insert("obs".into(), Value::Array(obs));
        if let Some(e) = end {
            out.insert("end".into(), e);
        }
        if let Some(p) = panic {
            out.insert("panic".into(), json!(p));
        }
        let mut lock = stdout.lock();
        let _ = writeln!(lock, "{}", Value::Object(out));
        let _ = lock.flush();
        drop(lock);
        progress.store(i, std::sync::atomic::Ordering::SeqCst);
        if dirty {
            // Whatever happened, do not leave handles in thread-locals for the TLS destructors.
            let _ = std::panic::catch_unwind(|| RES.with(|r| for (_, g) in r.borrow_mut().drain(..) { std::mem::forget(g) }));
            let _ = LOG.try_with(|l| l.borrow_mut().clear());
            let _ = BAD.try_with(|l| l.borrow_mut().clear());
            break;
        }
    }
    i
}

fn main() {
    std::panic::set_hook(Box::new(|info| {
        let loc = info.location().map(|l| format!(" @ {}:{}", l.file(), l.line())).unwrap_or_default();
        let _ = LAST_PANIC_LOC.try_with(|c| *c.borrow_mut() = loc);
    }));
    let path = std::env::args().nth(1).expect("usage: hgc <histories.ndjson>");
    let f = std::io::BufReader::new(std::fs::File::open(path).expect("open input"));
    let mut all = Vec::new();
    for line in f.lines() {
        let line = line.expect("read");
        let line = line.trim();
        if !line.is_empty() {
            all.push(serde_json::from_str::<Value>(line).expect("json"));
        }
    }
    let all = std::sync::Arc::new(all);
    let progress = std::sync::Arc::new(std::sync::atomic::AtomicUsize::new(0));
    let mut next = 0;
    while next < all.len() {
        let a = all.clone();
        let pr = progress.clone();
        let from = next;
        next = match std::thread::Builder::new().stack_size(8 << 20).spawn(move || run_some(&a, from, &pr)).expect("spawn").join() {
            Ok(n) => n,
            Err(_) => {
                // the worker died outside catch_unwind (e.g. in a TLS destructor)
                let done = progress.load(std::sync::atomic::Ordering::SeqCst);
                if done > from {
                    done
                } else {
                    println!("{}", json!({"id": all[from].get("id"), "obs": [], "panic": "worker thread died"}));
                    from + 1
                }
            }
        };
    }
}
