//! C15 replay runner: a reduced `hjs` (one `eval` per step, native `print`; a context serves HBUF_GROUP
//! (default 64) consecutive scenarios, each of which rebuilds its own JS-level state; HBUF_GROUP=1 gives
//! a fresh context per scenario and is used to confirm failures) built with boa's `experimental` feature (ArrayBuffer transfer/detached) and with the host
//! function `detachBuffer(buf)` (= DetachArrayBuffer(buf, undefined), what test262's `$262.detachArrayBuffer`
//! does). One JSON scenario per line `{"id", "steps": ["src", …]}` -> `{"id", "steps": [{"out": […], "c": completion}]}`;
//! flushed per scenario so that an abort of the process is attributed to the scenario that caused it.

use boa_engine::{
    Context, JsNativeError, JsResult, JsValue, NativeFunction, Source, context::ContextBuilder, js_string,
    object::builtins::JsArrayBuffer, property::Attribute,
};
use hcommon::*;
use serde_json::{Value, json};
use std::io::{BufRead, Write};

fn detach_buffer(_this: &JsValue, args: &[JsValue], _ctx: &mut Context) -> JsResult<JsValue> {
    let obj = args
        .first()
        .and_then(JsValue::as_object)
        .ok_or_else(|| JsNativeError::typ().with_message("detachBuffer: not an object"))?;
    let buf = JsArrayBuffer::from_object(obj.clone())?;
    buf.detach(&JsValue::undefined())?;
    Ok(JsValue::null())
}

fn new_context() -> Context {
    let mut ctx = ContextBuilder::new().build().expect("context");
    install_print(&mut ctx);
    let f = boa_engine::object::FunctionObjectBuilder::new(ctx.realm(), NativeFunction::from_fn_ptr(detach_buffer))
        .name(js_string!("detachBuffer"))
        .length(1)
        .build();
    ctx.register_global_property(js_string!("detachBuffer"), f, Attribute::empty())
        .expect("detachBuffer registration");
    ctx
}

fn run_scenario(ctx: &mut Context, sc: &Value) -> Value {
    let mut steps_out = Vec::new();
    let _ = take_out();
    for step in sc.get("steps").and_then(Value::as_array).cloned().unwrap_or_default() {
        let src = step.as_str().unwrap_or("");
        let r = ctx.eval(Source::from_bytes(src));
        let c = render_completion(&r, ctx);
        steps_out.push(json!({"out": take_out(), "c": c}));
    }
    json!({"id": sc.get("id").cloned().unwrap_or(Value::Null), "steps": steps_out})
}

fn emit(res: &Value) {
    let stdout = std::io::stdout();
    let mut lock = stdout.lock();
    serde_json::to_writer(&mut lock, res).expect("write");
    lock.write_all(b"\n").expect("write");
    lock.flush().expect("flush");
}

/// Runs a group of scenarios on one worker thread. The context is shared by the scenarios of the group
/// (every scenario starts by re-creating its JS-level state); after a panic a fresh context is used.
fn run_group(group: Vec<Value>) {
    let done = isolated(move || {
        let mut ctx: Option<Context> = None;
        for sc in &group {
            let id = sc.get("id").cloned().unwrap_or(Value::Null);
            let mut c = ctx.take().unwrap_or_else(new_context);
            let r = std::panic::catch_unwind(std::panic::AssertUnwindSafe(|| run_scenario(&mut c, sc)));
            match r {
                Ok(v) => {
                    emit(&v);
                    ctx = Some(c);
                }
                Err(p) => {
                    let loc = LAST_PANIC.with(|c| c.borrow().clone());
                    emit(&json!({"id": id, "panic": format!("{} @ {}", panic_message(&p), loc)}));
                    std::mem::forget(c);
                }
            }
        }
    });
    if let Err(m) = done {
        eprintln!("worker thread failed: {m}");
        std::process::exit(3);
    }
}

fn main() {
    quiet_panics();
    let args: Vec<String> = std::env::args().collect();
    let input: Box<dyn BufRead> = if args.len() > 1 {
        Box::new(std::io::BufReader::new(std::fs::File::open(&args[1]).expect("open input")))
    } else {
        Box::new(std::io::BufReader::new(std::io::stdin()))
    };
    let group_size: usize = std::env::var("HBUF_GROUP").ok().and_then(|s| s.parse().ok()).unwrap_or(64);
    let mut group = Vec::new();
    for line in input.lines() {
        let line = line.expect("read");
        if line.trim().is_empty() {
            continue;
        }
        let sc: Value = match serde_json::from_str(&line) {
            Ok(v) => v,
            Err(e) => {
                eprintln!("bad scenario line: {e}");
                std::process::exit(2);
            }
        };
        group.push(sc);
        if group.len() >= group_size {
            run_group(std::mem::take(&mut group));
        }
    }
    if !group.is_empty() {
        run_group(group);
    }
}
