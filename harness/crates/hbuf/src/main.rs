//! C15 replay runner: a reduced `hjs` (one fresh context per scenario, one `eval` per step, native
//! `print`) built with boa's `experimental` feature (ArrayBuffer transfer/detached) and with the host
//! function `detachBuffer(buf)` (= DetachArrayBuffer(buf, undefined), what test262's `$262.detachArrayBuffer`
//! does). One JSON scenario per line `{"id", "steps": ["src", …]}` -> `{"id", "steps": [{"out": […], "c": completion}]}`;
//! flushed per scenario so that an abort of the process is attributed to the scenario that caused it.

use boa_engine::{
    Context, JsNativeError, JsResult, JsValue, NativeFunction, Source, context::ContextBuilder, js_string,
    object::builtins::JsArrayBuffer, property::Attribute,
};
use hcommon::*;
use serde_json::{Value, json};
use std::io::{BufRead, Write};

fn detach_buffer(_this: &JsValue, args: &[JsValue], _ctx: &mut Context) -> JsResult<JsValue> {
    let obj = args
        .first()
        .and_then(JsValue::as_object)
        .ok_or_else(|| JsNativeError::typ().with_message("detachBuffer: not an object"))?;
    let buf = JsArrayBuffer::from_object(obj.clone())?;
    buf.detach(&JsValue::undefined())?;
    Ok(JsValue::null())
}

fn run_scenario(sc: &Value) -> Value {
    let mut steps_out = Vec::new();
    {
        let mut ctx = ContextBuilder::new().build().expect("context");
        install_print(&mut ctx);
        let f = boa_engine::object::FunctionObjectBuilder::new(ctx.realm(), NativeFunction::from_fn_ptr(detach_buffer))
            .name(js_string!("detachBuffer"))
            .length(1)
            .build();
        ctx.register_global_property(js_string!("detachBuffer"), f, Attribute::empty())
            .expect("detachBuffer registration");
        let _ = take_out();
        for step in sc.get("steps").and_then(Value::as_array).cloned().unwrap_or_default() {
            let src = step.as_str().unwrap_or("");
            let r = ctx.eval(Source::from_bytes(src));
            let c = render_completion(&r, &mut ctx);
            steps_out.push(json!({"out": take_out(), "c": c}));
        }
    }
    json!({"id": sc.get("id").cloned().unwrap_or(Value::Null), "steps": steps_out})
}

fn main() {
    quiet_panics();
    let args: Vec<String> = std::env::args().collect();
    let input: Box<dyn BufRead> = if args.len() > 1 {
        Box::new(std::io::BufReader::new(std::fs::File::open(&args[1]).expect("open input")))
    } else {
        Box::new(std::io::BufReader::new(std::io::stdin()))
    };
    let stdout = std::io::stdout();
    for line in input.lines() {
        let line = line.expect("read");
        if line.trim().is_empty() {
            continue;
        }
        let sc: Value = match serde_json::from_str(&line) {
            Ok(v) => v,
            Err(e) => {
                eprintln!("bad scenario line: {e}");
                std::process::exit(2);
            }
        };
        let id = sc.get("id").cloned().unwrap_or(Value::Null);
        let res = match isolated(move || {
            let r = std::panic::catch_unwind(std::panic::AssertUnwindSafe(|| run_scenario(&sc)));
            match r {
                Ok(v) => v,
                Err(p) => {
                    let loc = LAST_PANIC.with(|c| c.borrow().clone());
                    json!({"panic": format!("{} @ {}", panic_message(&p), loc)})
                }
            }
        }) {
            Ok(mut v) => {
                if v.get("panic").is_some() {
                    v["id"] = id;
                }
                v
            }
            Err(m) => json!({"id": id, "panic": m}),
        };
        let mut lock = stdout.lock();
        serde_json::to_writer(&mut lock, &res).expect("write");
        lock.write_all(b"\n").expect("write");
        lock.flush().expect("flush");
    }
}
