//! replay-string: checks boa_string against the observations emitted by spec/text/JsString.tla.
//! Input: one TLC record per line {"id":n,"un":{...},"bin":{...}}; output one line per record
//! {"id":n,"evals":k,"fails":[...]}.

use boa_string::{
    CodePoint, CommonJsStringBuilder, JsStr, JsString, Latin1JsStringBuilder, Utf16JsStringBuilder,
};
use serde_json::{Value, json};
use std::hash::{Hash, Hasher};
use std::io::{BufRead, Write};

fn units(v: &Value) -> Vec<u16> {
    v.as_array().map(|a| a.iter().map(|x| x.as_u64().unwrap_or(0) as u16).collect()).unwrap_or_default()
}

fn latin1_able(u: &[u16]) -> bool {
    u.iter().all(|c| *c <= 0xFF)
}

fn bytes_of(u: &[u16]) -> Vec<u8> {
    u.iter().map(|c| *c as u8).collect()
}

fn rep(u: &[u16]) -> JsString {
    if latin1_able(u) { JsString::from(JsStr::latin1(&bytes_of(u))) } else { JsString::from(JsStr::utf16(u)) }
}

/// Every way this harness knows to obtain a JsString with the code units `u`.
fn constructors(u: &[u16], full: bool) -> Vec<(String, JsString)> {
    let mut v: Vec<(String, JsString)> = Vec::new();
    v.push(("from_u16_slice".into(), JsString::from(u)));
    v.push(("jsstr_utf16".into(), JsString::from(JsStr::utf16(u))));
    if latin1_able(u) {
        v.push(("jsstr_latin1".into(), JsString::from(JsStr::latin1(&bytes_of(u)))));
    }
    if let Ok(s) = String::from_utf16(u) {
        v.push(("from_str".into(), JsString::from(s.as_str())));
    }
    {
        let mut pad = vec![0x78u16, 0x3C0];
        pad.extend_from_slice(u);
        pad.push(0x79);
        let big = JsString::from(JsStr::utf16(&pad));
        v.push(("slice_of_utf16".into(), big.slice(2, 2 + u.len())));
        if full {
            let mid = big.slice(1, 3 + u.len());
            v.push(("slice_of_slice".into(), mid.slice(1, 1 + u.len())));
            if let Some(g) = big.get(2..2 + u.len()) {
                v.push(("get_range".into(), g));
            }
        }
    }
    if latin1_able(u) {
        let mut pad = vec![b'x'];
        pad.extend(bytes_of(u));
        pad.push(b'y');
        let big = JsString::from(JsStr::latin1(&pad));
        v.push(("slice_of_latin1".into(), big.slice(1, 1 + u.len())));
    }
    if full {
        let mut b = Utf16JsStringBuilder::new();
        for c in u {
            b.push(*c);
        }
        v.push(("builder_utf16".into(), b.build()));
        if latin1_able(u) {
            let mut b = Latin1JsStringBuilder::new();
            b.extend_from_slice(&bytes_of(u));
            // SAFETY: every unit is <= 0xFF, i.e. the data is Latin-1.
            v.push(("builder_latin1".into(), unsafe { b.build_as_latin1() }));
        }
        {
            let mut b = CommonJsStringBuilder::new();
            let mut i = 0;
            let singles: Vec<[u16; 1]> = u.iter().map(|c| [*c]).collect();
            while i < u.len() {
                let c = u[i];
                let hi = (0xD800..0xDC00).contains(&c);
                if hi && i + 1 < u.len() && (0xDC00..0xE000).contains(&u[i + 1]) {
                    let cp = ((u32::from(c) - 0xD800) << 10) + (u32::from(u[i + 1]) - 0xDC00) + 0x10000;
                    b.push(char::from_u32(cp).expect("valid"));
                    i += 2;
                } else if (0xD800..0xE000).contains(&c) {
                    b.push(JsStr::utf16(&singles[i]));
                    i += 1;
                } else if c <= 0xFF && i % 2 == 0 {
                    b.push(c as u8);
                    i += 1;
                } else {
                    b.push(char::from_u32(u32::from(c)).expect("bmp"));
                    i += 1;
                }
            }
            v.push(("builder_common".into(), b.build()));
        }
        for k in 0..=u.len() {
            let (a, bb) = u.split_at(k);
            let (ja, jb) = (rep(a), rep(bb));
            v.push((format!("concat@{k}"), JsString::concat(ja.as_str(), jb.as_str())));
            if k == 1 {
                let e = JsString::from(JsStr::utf16(&[]));
                v.push((format!("concat_array@{k}"), JsString::concat_array(&[ja.as_str(), e.as_str(), jb.as_str()])));
            }
        }
    }
    v
}

fn h<T: Hash>(t: &T) -> u64 {
    let mut s = std::collections::hash_map::DefaultHasher::new();
    t.hash(&mut s);
    s.finish()
}

struct Ck {
    fails: Vec<Value>,
    evals: u64,
    u: Vec<u16>,
}

impl Ck {
    fn eq<T: PartialEq + std::fmt::Debug>(&mut self, op: &str, ctor: &str, expected: T, actual: T) {
        self.evals += 1;
        if expected != actual && self.fails.len() < 20 {
            self.fails.push(json!({"op": op, "ctor": ctor, "u": self.u, "expected": format!("{expected:?}"), "actual": format!("{actual:?}")}));
        }
    }
}

fn cp_tuple(c: CodePoint) -> (u32, bool) {
    match c {
        CodePoint::Unicode(ch) => (ch as u32, false),
        CodePoint::UnpairedSurrogate(s) => (u32::from(s), true),
    }
}

fn check_record(rec: &Value) -> Value {
    let un = &rec["un"];
    let u = units(&un["u"]);
    let mut ck = Ck { fails: vec![], evals: 0, u: u.clone() };
    let ctors = constructors(&u, true);
    let h0 = h(&ctors[0].1);
    let exp_cps: Vec<(u32, usize, bool)> = un["cps"].as_array().map(|a| a.iter().map(|t| (t[0].as_u64().unwrap() as u32, t[1].as_u64().unwrap() as usize, t[2].as_bool().unwrap())).collect()).unwrap_or_default();
    let exp_cpat: Vec<(u32, bool)> = un["cpat"].as_array().map(|a| a.iter().map(|t| (t[0].as_u64().unwrap() as u32, t[1].as_bool().unwrap())).collect()).unwrap_or_default();
    let wf = un["wf"].as_bool().unwrap_or(false);
    for (name, s) in &ctors {
        let n = name.as_str();
        ck.eq("len", n, u.len(), s.len());
        ck.eq("is_empty", n, u.is_empty(), s.is_empty());
        ck.eq("to_vec", n, u.clone(), s.to_vec());
        ck.eq("iter", n, u.clone(), s.iter().collect::<Vec<u16>>());
        ck.eq("as_str.len", n, u.len(), s.as_str().len());
        ck.eq("as_str.to_vec", n, u.clone(), s.as_str().to_vec());
        for i in 0..u.len() + 2 {
            ck.eq("code_unit_at", n, u.get(i).copied(), s.code_unit_at(i));
        }
        let cps: Vec<(u32, usize, bool)> = s.code_points().map(|c| { let (v, up) = cp_tuple(c); (v, c.code_unit_count(), up) }).collect();
        ck.eq("code_points", n, exp_cps.clone(), cps);
        for (i, e) in exp_cpat.iter().enumerate() {
            ck.eq("code_point_at", n, *e, cp_tuple(s.code_point_at(i)));
            ck.eq("as_str.code_point_at", n, *e, cp_tuple(s.as_str().code_point_at(i)));
        }
        match s.to_std_string() {
            Ok(st) => {
                ck.eq("to_std_string.is_ok", n, wf, true);
                ck.eq("to_std_string", n, u.clone(), st.encode_utf16().collect::<Vec<u16>>());
            }
            Err(_) => ck.eq("to_std_string.is_ok", n, wf, false),
        }
        ck.eq("to_std_string_lossy", n, units(&un["lossy"]), s.to_std_string_lossy().encode_utf16().collect::<Vec<u16>>());
        ck.eq("display_lossy", n, units(&un["lossy"]), format!("{}", s.display_lossy()).encode_utf16().collect::<Vec<u16>>());
        ck.eq("trim", n, units(&un["trim"]), s.trim().to_vec());
        ck.eq("trim_start", n, units(&un["trims"]), s.trim_start().to_vec());
        ck.eq("trim_end", n, units(&un["trime"]), s.trim_end().to_vec());
        match un["num"]["k"].as_str() {
            Some("nan") => ck.eq("to_number", n, true, s.to_number().is_nan()),
            Some("int") => {
                let v = un["num"]["v"].as_f64().unwrap_or(0.0);
                let neg = un["num"]["neg"].as_bool().unwrap_or(false);
                let e = if neg { -v } else { v };
                let a = s.to_number();
                ck.eq("to_number", n, e.to_bits(), a.to_bits());
            }
            _ => {}
        }
        if let Some(sl) = un["slices"].as_array() {
            for t in sl {
                let (p1, p2) = (t[0].as_u64().unwrap() as usize, t[1].as_u64().unwrap() as usize);
                let e = units(&t[2]);
                ck.eq("slice", n, e.clone(), s.slice(p1, p2).to_vec());
                ck.eq("get(range)", n, Some(e.clone()), s.get(p1..p2).map(|x| x.to_vec()));
                ck.eq("slice.hash", n, h(&JsString::from(JsStr::utf16(&e))), h(&s.slice(p1, p2)));
            }
            ck.eq("slice(clamp)", n, u.clone(), s.slice(0, u.len() + 3).to_vec());
            ck.eq("get(out of range)", n, None, s.get(0..u.len() + 1).map(|x| x.to_vec()));
        }
        ck.eq("hash", n, h0, h(s));
        ck.eq("hash(JsStr)", n, h(&JsStr::utf16(&u)), h(&s.as_str()));
        ck.eq("eq [u16]", n, true, *s == u[..]);
        ck.eq("[u16] eq", n, true, u[..] == *s);
        if wf {
            let st = String::from_utf16(&u).expect("wf");
            ck.eq("eq str (same)", n, true, *s == *st.as_str());
            ck.eq("JsStr eq str (same)", n, true, s.as_str() == *st.as_str());
        }
    }
    // binary operations against every v, under several representations of both operands
    if let Some(bin) = rec["bin"].as_object() {
        for (_k, b) in bin {
            let v = units(&b["v"]);
            let vcs = constructors(&v, false);
            let cmp = b["cmp"].as_i64().unwrap_or(9);
            let expected_ord = match cmp { -1 => std::cmp::Ordering::Less, 0 => std::cmp::Ordering::Equal, _ => std::cmp::Ordering::Greater };
            let mut uv = u.clone();
            uv.extend_from_slice(&v);
            let idx: Vec<i64> = b["idx"].as_array().map(|a| a.iter().map(|x| x.as_i64().unwrap()).collect()).unwrap_or_default();
            let vstr = String::from_utf16(&v).ok();
            for (n, s) in &ctors {
                if n.starts_with("concat") && n != "concat@1" {
                    continue;
                }
                for (vn, vs) in &vcs {
                    let nn = format!("{n}|{vn}");
                    let nn = nn.as_str();
                    ck.eq("eq", nn, cmp == 0, s == vs);
                    ck.eq("ne", nn, cmp != 0, s != vs);
                    ck.eq("cmp", nn, expected_ord, s.cmp(vs));
                    ck.eq("JsStr cmp", nn, expected_ord, s.as_str().cmp(&vs.as_str()));
                    ck.eq("eq JsStr", nn, cmp == 0, *s == vs.as_str());
                    ck.eq("eq [u16]", nn, cmp == 0, *s == v[..]);
                    if cmp == 0 {
                        ck.eq("hash eq", nn, h(vs), h(s));
                    }
                    ck.eq("concat", nn, uv.clone(), JsString::concat(s.as_str(), vs.as_str()).to_vec());
                    ck.eq("starts_with", nn, b["sw"].as_bool().unwrap(), s.starts_with(vs.as_str()));
                    ck.eq("ends_with", nn, b["ew"].as_bool().unwrap(), s.ends_with(vs.as_str()));
                    for (from, e) in idx.iter().enumerate() {
                        let e = if *e < 0 { None } else { Some(*e as usize) };
                        ck.eq("index_of", nn, e, s.index_of(vs.as_str(), from));
                    }
                }
                if let Some(vst) = &vstr {
                    ck.eq("eq str", n, cmp == 0, *s == *vst.as_str());
                    ck.eq("str eq", n, cmp == 0, *vst.as_str() == *s);
                    ck.eq("JsStr eq str", n, cmp == 0, s.as_str() == *vst.as_str());
                    ck.eq("eq &str", n, cmp == 0, *s == vst.as_str());
                }
                if v.len() == 1 && v[0] <= 0xFF && !idx.is_empty() {
                    ck.eq("contains", n, idx[0] >= 0, s.contains(v[0] as u8));
                }
            }
        }
    }
    json!({"id": rec["id"], "evals": ck.evals, "ctors": ctors.len(), "fails": ck.fails})
}

thread_local! {
    static LAST_PANIC: std::cell::RefCell<String> = const { std::cell::RefCell::new(String::new()) };
}

fn quiet_panics() {
    std::panic::set_hook(Box::new(|info| {
        let loc = info.location().map(|l| format!("{}:{}", l.file(), l.line())).unwrap_or_default();
        LAST_PANIC.with(|c| *c.borrow_mut() = loc);
    }));
}

fn panic_message(p: &Box<dyn std::any::Any + Send>) -> String {
    if let Some(s) = p.downcast_ref::<&str>() {
        (*s).to_string()
    } else if let Some(s) = p.downcast_ref::<String>() {
        s.clone()
    } else {
        "non-string panic".into()
    }
}

fn main() {
    quiet_panics();
    let args: Vec<String> = std::env::args().collect();
    let input = std::io::BufReader::new(std::fs::File::open(&args[1]).expect("open input"));
    let stdout = std::io::stdout();
    for line in input.lines() {
        let line = line.expect("read");
        if line.trim().is_empty() {
            continue;
        }
        let rec: Value = serde_json::from_str(&line).expect("json");
        let id = rec["id"].clone();
        let res = match std::panic::catch_unwind(|| check_record(&rec)) {
            Ok(v) => v,
            Err(p) => json!({"id": id, "panic": format!("{} @ {}", panic_message(&p), LAST_PANIC.with(|c| c.borrow().clone()))}),
        };
        let mut lock = stdout.lock();
        serde_json::to_writer(&mut lock, &res).expect("write");
        lock.write_all(b"\n").expect("write");
        lock.flush().expect("flush");
    }
}
