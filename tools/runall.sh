#!/bin/sh
# Runs the given tier of every check (or of the ids given) one after another; logs under work/runall/.
# usage: tools/runall.sh quick [C01 C03 ...]
cd "$(dirname "$0")/.."
tier=${1:-quick}; shift
ids=${*:-$(ls tools/checks | sed -n 's/^\(C[0-9]*\)\.py$/\1/p')}
mkdir -p work/runall
for id in $ids; do
  s=$(date +%s)
  ./check "$id" --tier "$tier" > "work/runall/$id.$tier.log" 2>&1
  rc=$?
  e=$(date +%s)
  v=$(grep -c '^VIOLATION' "work/runall/$id.$tier.log")
  k=$(grep -c '^KNOWN-FINDING' "work/runall/$id.$tier.log")
  echo "$id tier=$tier rc=$rc wall=$((e-s))s violations=$v known=$k"
done
