#!/usr/bin/env python3
"""Extracts JS snippets from the string literals of boa's own tests (core/engine/src/**/tests*.rs and
core/engine/src/tests/**) and writes the ones the engine's parser accepts to corpus/c03/extracted.jsonl
(committed; the check never reads /repo's tests).  Run at development time:
    VERIF_HARNESS_DIR=... tools/c03_extract.py [--repo /repo]
Needs the hdump binary (build it with `cargo build --offline -p hdump` in the harness directory)."""
import json
import os
import re
import subprocess
import sys

ROOT = os.path.dirname(os.path.dirname(os.path.abspath(__file__)))
sys.path.insert(0, os.path.join(ROOT, "tools"))
import vlib  # noqa: E402

RAW = re.compile(r'r(#*)"(.*?)"\1', re.S)
PLAIN = re.compile(r'"((?:[^"\\]|\\.)*)"', re.S)
ESC = {"n": "\n", "t": "\t", "r": "\r", "0": "\0", "\\": "\\", '"': '"', "'": "'"}


def unescape(s):
    out = []
    i = 0
    while i < len(s):
        c = s[i]
        if c == "\\" and i + 1 < len(s):
            d = s[i + 1]
            if d in ESC:
                out.append(ESC[d]); i += 2
            elif d == "\n":            # line continuation: skip the newline and leading blanks
                i += 2
                while i < len(s) and s[i] in " \t\n":
                    i += 1
            elif d == "u" and i + 2 < len(s) and s[i + 2] == "{":
                j = s.index("}", i)
                try:
                    out.append(chr(int(s[i + 3:j], 16)))
                except (ValueError, OverflowError):
                    pass
                i = j + 1
            elif d == "x" and i + 3 < len(s):
                try:
                    out.append(chr(int(s[i + 2:i + 4], 16)))
                except ValueError:
                    pass
                i += 4
            else:
                out.append(d); i += 2
        else:
            out.append(c); i += 1
    return "".join(out)


def dedent(s):
    lines = s.split("\n")
    ind = [len(l) - len(l.lstrip()) for l in lines if l.strip()]
    k = min(ind) if ind else 0
    return "\n".join(l[k:] for l in lines).strip()


def literals(text):
    spans = []
    for m in RAW.finditer(text):
        spans.append((m.start(), m.end(), m.group(2)))
    covered = [(a, b) for a, b, _ in spans]
    for m in PLAIN.finditer(text):
        if any(a <= m.start() < b for a, b in covered):
            continue
        if m.start() > 0 and text[m.start() - 1] in "r#'":
            continue
        spans.append((m.start(), m.end(), unescape(m.group(1))))
    spans.sort()
    return [s for _, _, s in spans]


def main():
    repo = "/repo"
    if "--repo" in sys.argv:
        repo = sys.argv[sys.argv.index("--repo") + 1]
    base = os.path.join(repo, "core/engine/src")
    files = []
    for dp, _ds, fs in os.walk(base):
        for f in fs:
            p = os.path.join(dp, f)
            rel = os.path.relpath(p, base)
            if f.endswith(".rs") and (f.startswith("tests") or "/tests/" in "/" + rel or rel.startswith("tests/")):
                files.append(p)
    files.sort()
    cands = []
    seen = set()
    for p in files:
        for s in literals(open(p, encoding="utf-8", errors="replace").read()):
            s = dedent(s)
            if len(s) < 8 or len(s) > 6000 or s in seen:
                continue
            # must look like a program: an operator, call, declaration or statement terminator
            if not re.search(r"[;=(){}\[\]]", s):
                continue
            seen.add(s)
            cands.append({"file": os.path.relpath(p, repo), "src": s})
    binary = os.path.join(vlib.HARNESS, "target", "debug", "hdump")
    scen = [{"id": i, "src": c["src"], "kind": "script"} for i, c in enumerate(cands)]
    res = vlib.run_lines(binary, scen)
    out = []
    stats = {}
    for i, c in enumerate(cands):
        st = res[i].get("status", "abort")
        stats[st] = stats.get(st, 0) + 1
        if st in ("ok", "compile", "panic", "decode_panic"):
            out.append(c)
    os.makedirs(os.path.join(ROOT, "corpus", "c03"), exist_ok=True)
    with open(os.path.join(ROOT, "corpus", "c03", "extracted.jsonl"), "w") as f:
        for c in out:
            f.write(json.dumps(c, sort_keys=True) + "\n")
    print(f"{len(files)} files, {len(cands)} candidate literals, status {stats}, kept {len(out)}")


if __name__ == "__main__":
    main()
