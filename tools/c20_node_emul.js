// DEVELOPMENT-TIME ONLY (no registered command uses node): an emulation of harness/crates/hrealm on top of node's
// `vm` contexts (each vm context is a realm of the same agent).  Same scenario / result format, so the histories
// and expectations that spec/realm/Realms.tla + tools/c20_catalogue.py produce can be cross-checked against a second
// engine while the catalogue is being written.  Usage: nodejs tools/c20_node_emul.js FILE  (ndjson in, ndjson out)
'use strict';
const vm = require('vm');
const fs = require('fs');

const SETUP = `(function(emit, tag){
  var O=Object, gp=O.getPrototypeOf, isArr=Array.isArray, dp=O.defineProperty, cr=O.create;
  var F64=Float64Array, U32=Uint32Array, rapply=Reflect.apply;
  var symDesc=O.getOwnPropertyDescriptor(Symbol.prototype,'description').get;
  var errs=[['TypeError',TypeError.prototype],['ReferenceError',ReferenceError.prototype],['RangeError',RangeError.prototype],
    ['SyntaxError',SyntaxError.prototype],['EvalError',EvalError.prototype],['URIError',URIError.prototype],
    ['AggregateError',AggregateError.prototype],['Error',Error.prototype]];
  var lenGet=function(a){return a.length};
  function hex(n,w){var s='';for(var i=0;i<w;i++){s='0123456789ABCDEF'[n&15]+s;n=n>>>4}return s}
  function esc(s){var r='';for(var i=0;i<s.length;i++){var u=s.charCodeAt(i);
    if(u===0x5c)r+='\\\\\\\\';else if(u>=0x20&&u<0x7f)r+=s[i];else r+='\\\\u'+hex(u,4)}return r}
  function num(x){ if(x!==x)return 'n:NaN'; if(x===0)return (1/x<0)?'n:-0':'n:0'; if(x===1/0)return 'n:Infinity'; if(x===-1/0)return 'n:-Infinity';
    if(x%1===0&&(x<0?-x:x)<9007199254740992)return 'n:'+x; var f=new F64(1);f[0]=x;var u=new U32(f.buffer);return 'n:b:'+hex(u[1],8)+hex(u[0],8)}
  function render(v){var t=typeof v;
    if(t==='undefined')return 'u'; if(v===null)return 'null'; if(t==='boolean')return 'b:'+v; if(t==='number')return num(v);
    if(t==='string')return 's:'+esc(v); if(t==='bigint')return 'i:'+v;
    if(t==='symbol'){var d=rapply(symDesc,v,[]);return d===undefined?'y:':'y:'+esc(d)}
    if(t==='function')return 'o:Function';
    if(isArr(v))return 'o:Array('+lenGet(v)+')';
    var p=gp(v),n=0;while(p!==null&&n<=16){for(var i=0;i<errs.length;i++)if(p===errs[i][1])return 'o:Error:'+errs[i][0];n++;p=gp(p)}
    return 'o:Object'}
  var cell;
  var d=cr(null);d.value=function print(){var a=[];for(var i=0;i<arguments.length;i++)a[i]=render(arguments[i]);
    var s='';for(var i=0;i<a.length;i++)s+=(i?' ':'')+a[i];emit(tag,s)};dp(globalThis,'print',d);
  var d2=cr(null);d2.value=function __inbox(){return cell};dp(globalThis,'__inbox',d2);
  return {set:function(v){cell=v}, render:render};
})`;

function runScenario(sc) {
  const chan = [];
  const emit = (tag, line) => { chan.push([String(tag), String(line)]); };
  const realms = {};   // name -> {ctxname, context, set, render}
  const ctxs = {};     // name -> true
  const slots = {};
  const outs = [];
  function mkRealm(cn, rn) {
    const context = vm.createContext({}, {microtaskMode: 'afterEvaluate'});
    const f = vm.runInContext(SETUP, context);
    const h = f(emit, rn);
    realms[rn] = {ctx: cn, context, set: h.set, render: h.render};
  }
  for (const st of sc.steps || []) {
    switch (st.op) {
      case 'newctx': ctxs[st.ctx] = true; mkRealm(st.ctx, st.realm); outs.push({ok: true}); break;
      case 'newrealm': mkRealm(st.ctx, st.realm); outs.push({ok: true}); break;
      case 'eval': {
        const re = realms[st.realm];
        if (!re) { outs.push({err: 'no such realm'}); break; }
        chan.length = 0;
        let c;
        try {
          const v = vm.runInContext(st.src, re.context);
          if (st.keep) slots[st.keep] = v;
          c = 'value:' + re.render(v);
        } catch (e) {
          c = 'throw:' + re.render(e);
        }
        outs.push({out: chan.slice(), c, j: 'ok'});
        chan.length = 0;
        break;
      }
      case 'pass': realms[st.to].set(slots[st.slot]); outs.push({ok: true}); break;
      case 'dropctx':
        for (const k of Object.keys(realms)) if (realms[k].ctx === st.ctx) delete realms[k];
        delete ctxs[st.ctx]; outs.push({ok: true}); break;
      case 'noise': outs.push({ok: true}); break;
      default: outs.push({err: 'unknown op'});
    }
  }
  return {id: sc.id, steps: outs};
}

const lines = fs.readFileSync(process.argv[2], 'utf8').split('\n');
for (const l of lines) {
  if (!l.trim()) continue;
  const sc = JSON.parse(l);
  let r;
  try { r = runScenario(sc); } catch (e) { r = {id: sc.id, panic: String(e && e.stack || e)}; }
  process.stdout.write(JSON.stringify(r) + '\n');
}
