#!/bin/sh
# Development helper: confirms a seeded change in the scratch worktree /tmp/wt-seed (demo fails with, passes without).
# usage: tools/seedconfirm.sh <out-dir> <crate> <test-file-name-without-.rs> <dest-dir-in-repo>
set -e
OUT=$1; CRATE=$2; T=$3; DEST=$4
[ -d /tmp/seed-target ] || cp -r /tmp/mut-base-target /tmp/seed-target
for mode in with without; do
  git -C /tmp/wt-seed checkout -q -- . && git -C /tmp/wt-seed clean -fdq && git -C /tmp/wt-seed checkout -q --detach "$(git -C /repo rev-parse HEAD)"
  [ $mode = with ] && git -C /tmp/wt-seed apply "$OUT/patch.diff"
  mkdir -p /tmp/wt-seed/$DEST && cp "$OUT/demo/$T.rs" /tmp/wt-seed/$DEST/
  echo "== demo $mode change"
  (cd /tmp/wt-seed && CARGO_TARGET_DIR=/tmp/seed-target cargo test --offline -p $CRATE --test $T 2>&1 | grep -E "^test |test result|panicked" | head -8) || true
done
git -C /tmp/wt-seed checkout -q -- . && git -C /tmp/wt-seed clean -fdq
