#!/bin/sh
# Development helper: confirms a seeded change in the scratch worktree /tmp/wt-$TAG (demo fails with, passes without).
# usage: tools/seedconfirm.sh <out-dir> <crate> <test-file-name-without-.rs> <dest-dir-in-repo>
set -e
TAG=${SEEDTAG:-seed}   # SEEDTAG selects a private worktree/mirror/target (several confirmations can run side by side)
OUT=$1; CRATE=$2; T=$3; DEST=$4
[ -d /tmp/$TAG-target ] || cp -a /tmp/mut-base-target /tmp/$TAG-target
for mode in with without; do
  git -C /tmp/wt-$TAG checkout -q -- . && git -C /tmp/wt-$TAG clean -fdq && git -C /tmp/wt-$TAG checkout -q --detach "$(git -C /repo rev-parse HEAD)"
  [ $mode = with ] && git -C /tmp/wt-$TAG apply "$OUT/patch.diff"
  mkdir -p /tmp/wt-$TAG/$DEST && cp "$OUT/demo/$T.rs" /tmp/wt-$TAG/$DEST/
  echo "== demo $mode change"
  (cd /tmp/wt-$TAG && CARGO_TARGET_DIR=/tmp/$TAG-target cargo test --offline -p $CRATE --test $T 2>&1 | grep -E "^test |test result|panicked" | head -8) || true
done
git -C /tmp/wt-$TAG checkout -q -- . && git -C /tmp/wt-$TAG clean -fdq
