#!/usr/bin/env python3
"""tools/mkmutprompt.py <ID> <N> [hint] -> prints the prompt for a mutation sub-agent (property text only, nothing from /verif)."""
import json, sys, os
ROOT = os.path.dirname(os.path.dirname(os.path.abspath(__file__)))
pid, n = sys.argv[1], sys.argv[2]
hint = sys.argv[3] if len(sys.argv) > 3 else "pick a mechanism/code path of your own choice among the anchors."
p = [json.loads(l) for l in open(os.path.join(ROOT, "properties.jsonl")) if json.loads(l)["id"] == pid][0]
t = open(os.path.join(ROOT, "tools", "mutation_prompt.md")).read()
t = (t.replace("@ID@", pid).replace("@N@", n).replace("@TITLE@", p["title"]).replace("@STATEMENT@", p["statement"])
      .replace("@QUANT@", p["quantifier"]["text"]).replace("@FILES@", ", ".join(p["anchors"]["files"])).replace("@HINT@", hint))
print(t)
