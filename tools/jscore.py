#!/usr/bin/env python3
"""MiniJS support library for the checks that use spec/lang/JsCore.tla as their oracle
(C01, C04, C05, C08, C10, C19, C20).

  AST          nested dicts, field "t" is the node kind (DESIGN.md Appendix C; SCHEMA below is normative).
               Builders: lit/num/string/ident/... at the end of this section.
  render(ast)  fully parenthesised JavaScript source of a program (or of any node).
  flatten(ast) the node-table form JsCore.tla evaluates (children by index, strings as code units).
  expect(programs, workers=4, timeout=1800) -> (results, stats)
               runs TLC once over the batch; results[i] = {"out": [print lines in hjs format],
               "c": "value:..."|"throw:..."|"OutOfModel", "steps": n, "why": reason when OutOfModel}
               (an early error is "throw:o:Error:SyntaxError" with empty out, as hjs reports it);
               stats = {"states", "distinct", "wall", "cmd", "oom": count}.
               Raises vlib.ToolError when the model gate fails (invariant violated, deadlock = missing rule,
               nondeterminism).
  wrap_call(ast)  the program "function f(){BODY}" + the expectation program "function f(){BODY}; f()"
               for the host-call entry mode.
  generators   grids(...) deterministic interaction grids; gen_program(rng, profile=...) seeded random programs.
"""
import json
import os
import random
import re
import sys

sys.path.insert(0, os.path.dirname(os.path.abspath(__file__)))
import vlib

# ------------------------------------------------------------------------------------------- schema
REQ = object()
# node kind -> ordered fields with defaults (REQ = required).  Child order = field order.
SCHEMA = {
    "program": [("strict", False), ("body", REQ)],
    "var": [("decls", REQ)], "let": [("decls", REQ)], "const": [("decls", REQ)],
    "decl": [("target", REQ), ("init", 0)],
    "function": [("name", REQ), ("params", REQ), ("body", REQ)],
    "generator": [("name", REQ), ("params", REQ), ("body", REQ)],
    "fn": [("name", ""), ("params", REQ), ("body", REQ)],
    "genfn": [("name", ""), ("params", REQ), ("body", REQ)],
    "arrow": [("params", REQ), ("body", []), ("ebody", 0)],
    "method": [("params", REQ), ("body", REQ), ("gen", False)],
    "param": [("target", REQ), ("default", 0), ("rest", False)],
    "expr": [("e", REQ)], "block": [("body", REQ)], "if": [("c", REQ), ("a", REQ), ("b", 0)], "empty": [],
    "while": [("c", REQ), ("s", REQ)], "dowhile": [("s", REQ), ("c", REQ)],
    "for": [("init", 0), ("c", 0), ("update", 0), ("s", REQ)],
    "forin": [("kind", REQ), ("target", REQ), ("obj", REQ), ("s", REQ)],
    "forof": [("kind", REQ), ("target", REQ), ("iter", REQ), ("s", REQ)],
    "labeled": [("l", REQ), ("s", REQ)], "break": [("l", "")], "continue": [("l", "")],
    "return": [("e", 0)], "throw": [("e", REQ)],
    "try": [("b", REQ), ("p", 0), ("h", 0), ("f", 0)],
    "switch": [("d", REQ), ("cases", REQ)], "case": [("test", 0), ("body", REQ)],
    "print": [("args", REQ)],
    "class": [("name", REQ), ("super", 0), ("members", REQ)],
    "classexpr": [("name", ""), ("super", 0), ("members", REQ)],
    "cmember": [("kind", REQ), ("static", False), ("computed", False), ("key", ""), ("k", 0), ("v", 0)],
    "lit": [("val", REQ)], "ident": [("n", REQ)], "this": [], "newtarget": [],
    "array": [("elems", REQ)], "hole": [], "spread": [("e", REQ)],
    "object": [("props", REQ)],
    "prop": [("kind", "init"), ("computed", False), ("key", ""), ("k", 0), ("v", REQ), ("shorthand", False)],
    "template": [("quasis", REQ), ("exprs", REQ)],
    "unary": [("op", REQ), ("e", REQ)], "update": [("op", REQ), ("prefix", REQ), ("target", REQ)],
    "binary": [("op", REQ), ("l", REQ), ("r", REQ)], "logical": [("op", REQ), ("l", REQ), ("r", REQ)],
    "cond": [("c", REQ), ("a", REQ), ("b", REQ)], "seq": [("es", REQ)],
    "assign": [("op", REQ), ("target", REQ), ("e", REQ)],
    "member": [("o", REQ), ("computed", False), ("key", ""), ("k", 0), ("optional", False)],
    "call": [("f", REQ), ("args", REQ), ("optional", False)], "new": [("f", REQ), ("args", REQ)],
    "optchain": [("e", REQ)],
    "super_call": [("args", REQ)], "super_member": [("computed", False), ("key", ""), ("k", 0)],
    "yield": [("e", 0), ("delegate", False)],
    "arraypat": [("elems", REQ)], "pelem": [("target", REQ), ("default", 0)], "prest": [("target", REQ)],
    "objectpat": [("props", REQ), ("rest", 0)],
    "pprop": [("computed", False), ("key", ""), ("k", 0), ("target", REQ), ("default", 0)],
}
FUNCTION_KINDS = {"function", "generator", "fn", "genfn", "arrow", "method"}
STRING_FIELDS = {"key"}           # JS strings, sent to the model as code-unit lists
BINOPS = ["+", "-", "*", "/", "%", "**", "<<", ">>", ">>>", "&", "|", "^", "==", "!=", "===", "!==", "<", ">", "<=", ">=",
          "in", "instanceof"]


# ------------------------------------------------------------------------------------------- builders
def N(t, **kw):
    d = {"t": t}
    d.update(kw)
    return d


def undef(): return N("lit", val={"t": "undef"})
def null(): return N("lit", val={"t": "null"})
def boolean(b): return N("lit", val={"t": "bool", "b": bool(b)})


def num(n):
    """n: int with |n| < 2**30, or one of 'nz' (-0), 'nan', 'pinf', 'ninf'"""
    if isinstance(n, str):
        return N("lit", val={"t": "num", "k": n, "n": 0})
    assert abs(n) < 2 ** 30
    return N("lit", val={"t": "num", "k": "int", "n": int(n)})


def string(s): return N("lit", val={"t": "str", "s": units(s)})
def ident(n): return N("ident", n=n)
def binary(op, l, r): return N("binary", op=op, l=l, r=r)
def logical(op, l, r): return N("logical", op=op, l=l, r=r)
def unary(op, e): return N("unary", op=op, e=e)
def update(op, prefix, target): return N("update", op=op, prefix=prefix, target=target)
def assign(target, e, op="="): return N("assign", op=op, target=target, e=e)
def cond(c, a, b): return N("cond", c=c, a=a, b=b)
def seq(*es): return N("seq", es=list(es))
def member(o, key): return N("member", o=o, key=key)
def index(o, k): return N("member", o=o, computed=True, k=k)
def call(f, *args): return N("call", f=f, args=list(args))
def new(f, *args): return N("new", f=f, args=list(args))
def array(*elems): return N("array", elems=list(elems))
def hole(): return N("hole")
def spread(e): return N("spread", e=e)
def obj(*props): return N("object", props=list(props))
def prop(key, v, kind="init"): return N("prop", key=key, v=v, kind=kind)
def cprop(k, v, kind="init"): return N("prop", computed=True, k=k, v=v, kind=kind)
def method(params, body, gen=False): return N("method", params=params, body=body, gen=gen)
def param(target, default=0, rest=False): return N("param", target=target if isinstance(target, dict) else ident(target), default=default, rest=rest)
def params(*names): return [param(n) for n in names]
def fn(ps, body, name=""): return N("fn", name=name, params=ps, body=body)
def genfn(ps, body, name=""): return N("genfn", name=name, params=ps, body=body)
def arrow(ps, body=None, ebody=0): return N("arrow", params=ps, body=body or [], ebody=ebody)
def function(name, ps, body): return N("function", name=name, params=ps, body=body)
def generator(name, ps, body): return N("generator", name=name, params=ps, body=body)
def template(quasis, exprs): return N("template", quasis=list(quasis), exprs=list(exprs))
def this(): return N("this")
def yield_(e=0, delegate=False): return N("yield", e=e, delegate=delegate)
def optchain(e): return N("optchain", e=e)

def decl(target, init=0): return N("decl", target=target if isinstance(target, dict) else ident(target), init=init)
def var(name, init=0): return N("var", decls=[decl(name, init)])
def let(name, init=0): return N("let", decls=[decl(name, init)])
def const(name, init): return N("const", decls=[decl(name, init)])
def expr(e): return N("expr", e=e)
def block(*body): return N("block", body=list(body))
def if_(c, a, b=0): return N("if", c=c, a=a, b=b)
def while_(c, s): return N("while", c=c, s=s)
def dowhile(s, c): return N("dowhile", s=s, c=c)
def for_(init, c, upd, s): return N("for", init=init, c=c, update=upd, s=s)
def forin(kind, target, o, s): return N("forin", kind=kind, target=target if isinstance(target, dict) else ident(target), obj=o, s=s)
def forof(kind, target, it, s): return N("forof", kind=kind, target=target if isinstance(target, dict) else ident(target), iter=it, s=s)
def labeled(l, s): return N("labeled", l=l, s=s)
def break_(l=""): return N("break", l=l)
def continue_(l=""): return N("continue", l=l)
def return_(e=0): return N("return", e=e)
def throw(e): return N("throw", e=e)
def try_(b, p=0, h=0, f=0): return N("try", b=b, p=(ident(p) if isinstance(p, str) else p), h=h, f=f)
def switch(d, *cases): return N("switch", d=d, cases=list(cases))
def case(test, *body): return N("case", test=test, body=list(body))
def print_(*args): return N("print", args=list(args))
def program(body, strict=False): return N("program", strict=strict, body=list(body))
def arraypat(*elems): return N("arraypat", elems=[e if e.get("t") in ("pelem", "prest", "hole") else N("pelem", target=e) for e in elems])
def pelem(target, default=0): return N("pelem", target=target, default=default)
def prest(target): return N("prest", target=target)
def objectpat(*props, rest=0): return N("objectpat", props=list(props), rest=(prest(rest) if rest and rest.get("t") != "prest" else rest))
def pprop(key, target=None, default=0): return N("pprop", key=key, target=target or ident(key), default=default)


def units(s):
    """UTF-16 code units of a Python string (lone surrogates allowed via surrogatepass)."""
    b = s.encode("utf-16-le", "surrogatepass")
    return [b[i] | (b[i + 1] << 8) for i in range(0, len(b), 2)]


def from_units(u):
    return b"".join(bytes([x & 255, x >> 8]) for x in u).decode("utf-16-le", "surrogatepass")


# ------------------------------------------------------------------------------------------- walking
def children(node):
    """(field, child) pairs in schema order; list fields are expanded."""
    for f, _ in SCHEMA[node["t"]]:
        v = node.get(f)
        if isinstance(v, dict) and "t" in v and f != "val":
            yield f, v
        elif isinstance(v, list):
            for x in v:
                if isinstance(x, dict) and "t" in x:
                    yield f, x


def walk(node):
    yield node
    for _, ch in children(node):
        yield from walk(ch)


def size(node):
    return sum(1 for _ in walk(node))


def _uses_arguments(fnode):
    """does the function mention the identifier `arguments` (outside nested non-arrow functions)?"""
    def rec(n, top):
        if n["t"] == "ident" and n["n"] == "arguments":
            return True
        if n["t"] in FUNCTION_KINDS and n["t"] != "arrow" and not top:
            return False
        return any(rec(ch, False) for _, ch in children(n))
    return rec(fnode, True)


# ------------------------------------------------------------------------------------------- flatten
def flatten(ast):
    """Node table for JsCore.tla: nodes[i-1] is node i (pre-order, root = 1); child fields hold indices
    (0 = absent), JS strings are code-unit lists, every node has `ch` (all children, in order)."""
    assert ast["t"] == "program"
    nodes = []

    def rec(n, in_chain):
        t = n["t"]
        if t not in SCHEMA:
            raise ValueError("unknown node kind %r" % t)
        known = {f for f, _ in SCHEMA[t]}
        extra = set(n) - known - {"t"}
        if extra:
            raise ValueError("unknown fields %r on %s" % (extra, t))
        out = {"t": t}
        nodes.append(out)
        my = len(nodes)
        ch = []
        if t in ("member", "call") and n.get("optional") and not in_chain:
            raise ValueError("optional member/call outside an optchain node")
        for f, dflt in SCHEMA[t]:
            v = n.get(f, dflt)
            if v is REQ:
                raise ValueError("missing field %s on %s" % (f, t))
            if v is None:
                v = 0
            if f == "val":
                out[f] = v
            elif isinstance(v, dict):
                chain = (t == "optchain") or (in_chain and t in ("member", "call") and f in ("o", "f"))
                out[f] = rec(v, chain)
                ch.append(out[f])
            elif isinstance(v, list):
                if f == "quasis":
                    out[f] = [units(x) for x in v]
                else:
                    out[f] = [rec(x, False) for x in v]
                    ch.extend(out[f])
            elif f in STRING_FIELDS:
                out[f] = units(v)
            else:
                out[f] = v
        out["ch"] = ch
        if t in FUNCTION_KINDS:
            out["usesArgs"] = _uses_arguments(n)
        if t == "assign":
            out["bop"] = n["op"][:-1] if n["op"] not in ("=", "&&=", "||=", "??=") else ""
        return my

    rec(ast, False)
    return {"strict": bool(ast.get("strict", False)), "nodes": nodes}


# ------------------------------------------------------------------------------------------- render
_IDENT_RE = re.compile(r"^[A-Za-z_$][A-Za-z0-9_$]*$")
_RESERVED = set("""break case catch class const continue debugger default delete do else enum export extends false
finally for function if import in instanceof new null return super switch this throw true try typeof var void while
with yield let static implements interface package private protected public await async of get set""".split())


def js_string(s):
    out = ['"']
    for u in units(s):
        if u == 0x22:
            out.append('\\"')
        elif u == 0x5C:
            out.append("\\\\")
        elif 0x20 <= u < 0x7F:
            out.append(chr(u))
        else:
            out.append("\\u%04X" % u)
    out.append('"')
    return "".join(out)


def _key(node):
    if node.get("computed"):
        return "[" + rx(node["k"]) + "]"
    k = node["key"]
    if _IDENT_RE.match(k) and k not in _RESERVED:
        return k
    return js_string(k)


def _lit(v):
    t = v["t"]
    if t == "undef":
        return "(void 0)"
    if t == "null":
        return "null"
    if t == "bool":
        return "true" if v["b"] else "false"
    if t == "str":
        return js_string(from_units(v["s"]))
    k = v["k"]
    if k == "int":
        return str(v["n"]) if v["n"] >= 0 else "(-%d)" % -v["n"]
    return {"nz": "(-0)", "nan": "(0/0)", "pinf": "(1/0)", "ninf": "(-1/0)"}[k]


def _params(ps):
    out = []
    for p in ps:
        s = ("..." if p.get("rest") else "") + rpat(p["target"])
        if p.get("default"):
            s += " = " + rx(p["default"])
        out.append(s)
    return "(" + ", ".join(out) + ")"


def _body(stmts):
    return "{ " + " ".join(rs(s) for s in stmts) + " }"


def rpat(p):
    """binding / assignment pattern or simple target (never parenthesised as a whole)"""
    t = p["t"]
    if t == "ident":
        return p["n"]
    if t in ("member", "super_member"):
        return rref(p)
    if t == "arraypat":
        parts = []
        for e in p["elems"]:
            if e["t"] == "hole":
                parts.append("")
            elif e["t"] == "prest":
                parts.append("..." + rpat(e["target"]))
            else:
                parts.append(rpat(e["target"]) + (" = " + rx(e["default"]) if e.get("default") else ""))
        s = ", ".join(parts)
        if p["elems"] and p["elems"][-1]["t"] == "hole":
            s += ","
        return "[" + s + "]"
    if t == "objectpat":
        parts = []
        for e in p["props"]:
            parts.append(_key(e) + ": " + rpat(e["target"]) + (" = " + rx(e["default"]) if e.get("default") else ""))
        if p.get("rest"):
            parts.append("..." + rpat(p["rest"]["target"]))
        return "{" + ", ".join(parts) + "}"
    raise ValueError("not a pattern: " + t)


def _chain(e):
    """member/call chain inside an optchain node, rendered without parentheses between the links"""
    t = e["t"]
    if t == "member":
        o = _chain_obj(e["o"])
        if e.get("computed"):
            return o + ("?.[" if e.get("optional") else "[") + rx(e["k"]) + "]"
        return o + ("?." if e.get("optional") else ".") + e["key"]
    if t == "call":
        return _chain_obj(e["f"]) + ("?.(" if e.get("optional") else "(") + _args(e["args"]) + ")"
    return rx(e)


def _chain_obj(x):
    return _chain(x) if x["t"] in ("member", "call") else _paren(rx(x))


def _paren(s):
    return s if (s.startswith("(") and _balanced(s)) else "(" + s + ")"


def _balanced(s):
    d = 0
    for i, ch in enumerate(s):
        if ch == "(":
            d += 1
        elif ch == ")":
            d -= 1
            if d == 0 and i != len(s) - 1:
                return False
    return d == 0


def _args(args):
    return ", ".join(("..." + rx(a["e"])) if a["t"] == "spread" else rx(a) for a in args)


def rref(e):
    """an expression in reference position (call callee, assignment target, delete/typeof operand)"""
    t = e["t"]
    if t == "ident":
        return e["n"]
    if t == "member":
        o = _paren(rx(e["o"]))
        return o + "[" + rx(e["k"]) + "]" if e.get("computed") else o + "." + e["key"]
    if t == "super_member":
        return "super[" + rx(e["k"]) + "]" if e.get("computed") else "super." + e["key"]
    return _paren(rx(e))


def _fnlike(prefix, n):
    return prefix + _params(n["params"]) + " " + _body(n["body"])


def _class(n):
    s = "class " + n.get("name", "")
    if n.get("super"):
        s += " extends " + _paren(rx(n["super"]))
    parts = []
    for m in n["members"]:
        pre = "static " if m.get("static") else ""
        k = _key(m)
        kind = m["kind"]
        if kind == "method":
            parts.append(pre + ("*" if m["v"].get("gen") else "") + k + _params(m["v"]["params"]) + " " + _body(m["v"]["body"]))
        elif kind in ("get", "set"):
            parts.append(pre + kind + " " + k + _params(m["v"]["params"]) + " " + _body(m["v"]["body"]))
        elif kind == "field":
            parts.append(pre + k + (" = " + rx(m["v"]) if m.get("v") else "") + ";")
        elif kind == "ctor":
            parts.append("constructor" + _params(m["v"]["params"]) + " " + _body(m["v"]["body"]))
        else:
            raise ValueError(kind)
    return s + " { " + " ".join(parts) + " }"


def rx(e):
    """expression, parenthesised unless atomic"""
    t = e["t"]
    if t == "lit":
        return _lit(e["val"])
    if t == "ident":
        return e["n"]
    if t == "this":
        return "this"
    if t == "newtarget":
        return "new.target"
    if t in ("member", "super_member"):
        return "(" + rref(e) + ")"
    if t == "array":
        parts = [("" if x["t"] == "hole" else "..." + rx(x["e"]) if x["t"] == "spread" else rx(x)) for x in e["elems"]]
        s = ", ".join(parts)
        if e["elems"] and e["elems"][-1]["t"] == "hole":
            s += ","
        return "[" + s + "]"
    if t == "object":
        parts = []
        for p in e["props"]:
            k = p.get("kind", "init")
            if k == "spread":
                parts.append("..." + rx(p["v"]))
            elif k == "init":
                parts.append(p["key"] if p.get("shorthand") else _key(p) + ": " + rx(p["v"]))
            elif k == "method":
                parts.append(("*" if p["v"].get("gen") else "") + _key(p) + _params(p["v"]["params"]) + " " + _body(p["v"]["body"]))
            else:
                parts.append(k + " " + _key(p) + _params(p["v"]["params"]) + " " + _body(p["v"]["body"]))
        return "({" + ", ".join(parts) + "})"
    if t == "fn":
        return "(" + _fnlike("function " + e.get("name", ""), e) + ")"
    if t == "genfn":
        return "(" + _fnlike("function* " + e.get("name", ""), e) + ")"
    if t == "arrow":
        if e.get("ebody"):
            return "(" + _params(e["params"]) + " => " + _paren(rx(e["ebody"])) + ")"
        return "(" + _params(e["params"]) + " => " + _body(e["body"]) + ")"
    if t == "classexpr":
        return "(" + _class(e) + ")"
    if t == "template":
        out = ["`"]
        for i, q in enumerate(e["quasis"]):
            for u in units(q):
                if u in (0x60, 0x5C, 0x24):
                    out.append("\\" + chr(u))
                elif 0x20 <= u < 0x7F:
                    out.append(chr(u))
                else:
                    out.append("\\u%04X" % u)
            if i < len(e["exprs"]):
                out.append("${" + rx(e["exprs"][i]) + "}")
        out.append("`")
        return "".join(out)
    if t == "unary":
        op = e["op"]
        if op in ("typeof", "delete"):
            return "(" + op + " " + rref(e["e"]) + ")"
        return "(" + op + (" " if op == "void" else "") + _paren(rx(e["e"])) + ")"
    if t == "update":
        return "(" + (e["op"] + rref(e["target"]) if e["prefix"] else rref(e["target"]) + e["op"]) + ")"
    if t in ("binary", "logical"):
        return "(" + _paren(rx(e["l"])) + " " + e["op"] + " " + _paren(rx(e["r"])) + ")"
    if t == "cond":
        return "(" + _paren(rx(e["c"])) + " ? " + _paren(rx(e["a"])) + " : " + _paren(rx(e["b"])) + ")"
    if t == "seq":
        return "(" + ", ".join(_paren(rx(x)) for x in e["es"]) + ")"
    if t == "assign":
        return "(" + rpat(e["target"]) + " " + e["op"] + " " + _paren(rx(e["e"])) + ")"
    if t == "call":
        return "(" + rref(e["f"]) + "(" + _args(e["args"]) + "))"
    if t == "new":
        return "(new " + _paren(rx(e["f"])) + "(" + _args(e["args"]) + "))"
    if t == "optchain":
        return "(" + _chain(e["e"]) + ")"
    if t == "super_call":
        return "(super(" + _args(e["args"]) + "))"
    if t == "yield":
        if not e.get("e"):
            return "(yield)"
        return "(yield" + ("* " if e.get("delegate") else " ") + _paren(rx(e["e"])) + ")"
    raise ValueError("not an expression: " + t)


def _decls(kind, ds):
    return kind + " " + ", ".join(rpat(d["target"]) + (" = " + rx(d["init"]) if d.get("init") else "") for d in ds)


def rs(s):
    """statement"""
    t = s["t"]
    if t in ("var", "let", "const"):
        return _decls(t, s["decls"]) + ";"
    if t == "function":
        return _fnlike("function " + s["name"], s)
    if t == "generator":
        return _fnlike("function* " + s["name"], s)
    if t == "class":
        return _class(s)
    if t == "expr":
        return _paren(rx(s["e"])) + ";"
    if t == "block":
        return _body(s["body"])
    if t == "if":
        return "if (" + rx(s["c"]) + ") " + rs(s["a"]) + (" else " + rs(s["b"]) if s.get("b") else "")
    if t == "empty":
        return ";"
    if t == "while":
        return "while (" + rx(s["c"]) + ") " + rs(s["s"])
    if t == "dowhile":
        return "do " + rs(s["s"]) + " while (" + rx(s["c"]) + ");"
    if t == "for":
        i = s.get("init")
        init = "" if not i else (_decls(i["t"], i["decls"]) if i["t"] in ("var", "let", "const") else rx(i["e"] if i["t"] == "expr" else i))
        return "for (" + init + "; " + (rx(s["c"]) if s.get("c") else "") + "; " + (rx(s["update"]) if s.get("update") else "") + ") " + rs(s["s"])
    if t in ("forin", "forof"):
        head = ("" if s["kind"] == "assign" else s["kind"] + " ") + rpat(s["target"])
        subj = rx(s["obj"]) if t == "forin" else rx(s["iter"])
        return "for (" + head + (" in " if t == "forin" else " of ") + _paren(subj) + ") " + rs(s["s"])
    if t == "labeled":
        return s["l"] + ": " + rs(s["s"])
    if t in ("break", "continue"):
        return t + (" " + s["l"] if s.get("l") else "") + ";"
    if t == "return":
        return "return" + (" " + rx(s["e"]) if s.get("e") else "") + ";"
    if t == "throw":
        return "throw " + rx(s["e"]) + ";"
    if t == "try":
        out = "try " + rs(s["b"])
        if s.get("h"):
            out += " catch " + ("(" + rpat(s["p"]) + ") " if s.get("p") else "") + rs(s["h"])
        if s.get("f"):
            out += " finally " + rs(s["f"])
        return out
    if t == "switch":
        cs = []
        for c in s["cases"]:
            cs.append(("case " + rx(c["test"]) + ":" if c.get("test") else "default:") + " " + " ".join(rs(x) for x in c["body"]))
        return "switch (" + rx(s["d"]) + ") { " + " ".join(cs) + " }"
    if t == "print":
        return "print(" + _args(s["args"]) + ");"
    raise ValueError("not a statement: " + t)


def render(ast):
    if ast["t"] == "program":
        return ('"use strict"; ' if ast.get("strict") else "") + " ".join(rs(s) for s in ast["body"])
    if ast["t"] in SCHEMA and ast["t"] in ("var", "let", "const", "function", "generator", "class", "expr", "block", "if",
                                           "empty", "while", "dowhile", "for", "forin", "forof", "labeled", "break",
                                           "continue", "return", "throw", "try", "switch", "print"):
        return rs(ast)
    return rx(ast)


def wrap_call(ast, name="f"):
    """(definition program, expectation program) for the host-call entry mode: the body becomes the body of
    function `name`; the expectation program defines it and calls it."""
    d = program([function(name, [], list(ast["body"]))], strict=ast.get("strict", False))
    e = program([function(name, [], list(ast["body"])), expr(call(ident(name)))], strict=ast.get("strict", False))
    return d, e


# ------------------------------------------------------------------------------------------- expectations
def esc_units(us):
    out = []
    for u in us:
        if u == 0x5C:
            out.append("\\\\")
        elif 0x20 <= u < 0x7F:
            out.append(chr(u))
        else:
            out.append("\\u%04X" % u)
    return "".join(out)


def obs_value(r):
    """model rendering record -> hjs value rendering"""
    k = r["r"]
    if k == "u":
        return "u"
    if k == "null":
        return "null"
    if k == "b":
        return "b:true" if r["b"] else "b:false"
    if k == "n":
        return {"int": "n:%d" % r["n"], "nz": "n:-0", "nan": "n:NaN", "pinf": "n:Infinity", "ninf": "n:-Infinity"}[r["k"]]
    if k == "s":
        return "s:" + esc_units(r["s"])
    if k == "y":
        return "y:" + esc_units(r["s"])
    if k == "o":
        if r["c"] == "Array":
            return "o:Array(%d)" % r["n"]
        if r["c"] == "Error":
            return "o:Error:" + r["e"]
        return "o:" + r["c"]
    raise vlib.ToolError("unrenderable model value %r" % (r,))


MC = os.path.join(vlib.SPEC, "lang", "MCJsCore.tla")


def expect(programs, workers=4, timeout=1800, cfg="MCJsCore.cfg", keep=None):
    """Evaluates the programs (ASTs) with JsCore.tla in one TLC run. Returns (results list, stats)."""
    os.makedirs(vlib.WORK, exist_ok=True)
    path = keep or os.path.join(vlib.WORK, "programs-%d-%d.ndjson" % (os.getpid(), random.getrandbits(30)))
    with open(path, "w") as f:
        for i, p in enumerate(programs):
            fl = flatten(p)
            fl["pid"] = i + 1
            f.write(json.dumps(fl, separators=(",", ":")) + "\n")
    results = [None] * len(programs)

    def on_tagged(tag, o):
        if tag != "RESULT":
            return
        i = o["pid"] - 1
        comp = o["comp"]
        if comp == "OutOfModel":
            results[i] = {"out": [], "c": "OutOfModel", "steps": o["steps"], "why": o["v"].get("why", "")}
        elif comp == "early":
            results[i] = {"out": [], "c": "throw:o:Error:SyntaxError", "steps": 0, "early": True}
        else:
            results[i] = {"out": [" ".join(obs_value(x) for x in line) for line in o["out"]],
                          "c": comp + ":" + obs_value(o["v"]), "steps": o["steps"]}

    try:
        res = vlib.run_tlc(MC, cfg, workers=workers, timeout=timeout, env_extra={"PROGRAMS": path}, on_tagged=on_tagged)
    finally:
        if not keep:
            try:
                os.unlink(path)
            except OSError:
                pass
    if not res["ok"]:
        vlib.log(res["raw_tail"])
        raise vlib.ToolError("JsCore model gate failed: %s" % (res["violation"] or "rc=%s" % res["rc"]))
    missing = [i for i, r in enumerate(results) if r is None]
    if missing:
        raise vlib.ToolError("JsCore: no RESULT for programs %r" % missing[:10])
    # determinism: every state has exactly one successor (the done state stutters once)
    if res["states"] != res["distinct"] + len(programs):
        raise vlib.ToolError("JsCore: machine is not deterministic (generated %d, distinct %d, programs %d)"
                             % (res["states"], res["distinct"], len(programs)))
    stats = {"states": res["distinct"], "transitions": res["states"], "wall": res["wall"], "cmd": res["cmd"],
             "oom": sum(1 for r in results if r["c"] == "OutOfModel")}
    return results, stats


if __name__ == "__main__":
    # jscore.py render|expect < file with one AST (JSON) per line
    mode = sys.argv[1]
    asts = [json.loads(l) for l in sys.stdin if l.strip()]
    if mode == "render":
        for a in asts:
            print(render(a))
    else:
        rs_, st = expect(asts)
        for r in rs_:
            print(json.dumps(r))
        print(json.dumps(st), file=sys.stderr)
