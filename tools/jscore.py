#!/usr/bin/env python3
"""MiniJS support library for the checks that use spec/lang/JsCore.tla as their oracle
(C01, C04, C05, C08, C10, C19, C20).

AST        nested dicts, field "t" is the node kind; SCHEMA (below) is normative: kind -> ordered fields with
           defaults.  Builders: num/string/boolean/undef/null, ident, binary, logical, unary, update, assign, cond,
           seq, member, index, call, new, array, hole, spread, obj, prop, cprop, method, param(s), fn, genfn, arrow,
           function, generator, class_, classexpr, cmethod, cfield, ctor, super_call, super_member, template, this,
           yield_, optchain, decl, var, let, const, expr, block, if_, while_, dowhile, for_, forin, forof, labeled,
           break_, continue_, return_, throw, try_, switch, case, print_, program, arraypat, pelem, prest,
           objectpat, pprop.  JS strings (property keys, literals, template quasis) are Python str.
           `optional` members/calls must sit inside an optchain node (the chain the short circuit skips).
render(ast)            fully parenthesised JavaScript source (program, statement or expression).
flatten(ast)           the node table JsCore.tla evaluates (children by index, strings as code-unit lists).
expect(programs, workers=4, timeout=1800) -> (results, stats)
           one TLC run over the batch (model gate included: a violated invariant, a missing rule or a
           nondeterministic step raises vlib.ToolError).  results[i] = {"out": [print lines in hjs rendering],
           "c": "value:<v>" | "throw:<v>" | "OutOfModel", "steps": n, "why": reason if OutOfModel,
           "early": True for an early SyntaxError (reported like hjs does: "throw:o:Error:SyntaxError", out [])}.
           stats = {"states", "transitions", "wall", "cmd", "oom"}.
wrap_call(ast)         (definition program, expectation program) for the host-call entry mode.
grids(tier, families=None) -> [(name, program)]   deterministic interaction grids (GRID_FAMILIES).
gen_program(seed, profile) / gen_programs(seed, n, profile)   seeded random programs: closed, deterministic,
           always terminating.  profile: a name in PROFILES ("c01", "c04", "c05", "small") or a dict of weight
           overrides (keys of PROFILES["base"]).
variants / shrink(ast, failing_batch) / shrink_many(asts, failing_batch)   batch-oriented greedy shrinking.
walk(ast), children(ast), size(ast), units(s), from_units(u), obs_value(r), esc_units(us).
"""
import json
import os
import random
import re
import sys

sys.path.insert(0, os.path.dirname(os.path.abspath(__file__)))
import vlib

# ------------------------------------------------------------------------------------------- schema
REQ = object()
# node kind -> ordered fields with defaults (REQ = required).  Child order = field order.
SCHEMA = {
    "program": [("strict", False), ("body", REQ)],
    "var": [("decls", REQ)], "let": [("decls", REQ)], "const": [("decls", REQ)],
    "decl": [("target", REQ), ("init", 0)],
    "function": [("name", REQ), ("params", REQ), ("body", REQ)],
    "generator": [("name", REQ), ("params", REQ), ("body", REQ)],
    "fn": [("name", ""), ("params", REQ), ("body", REQ)],
    "genfn": [("name", ""), ("params", REQ), ("body", REQ)],
    "arrow": [("params", REQ), ("body", []), ("ebody", 0)],
    "method": [("params", REQ), ("body", REQ), ("gen", False)],
    "param": [("target", REQ), ("default", 0), ("rest", False)],
    "expr": [("e", REQ)], "block": [("body", REQ)], "if": [("c", REQ), ("a", REQ), ("b", 0)], "empty": [],
    "while": [("c", REQ), ("s", REQ)], "dowhile": [("s", REQ), ("c", REQ)],
    "for": [("init", 0), ("c", 0), ("update", 0), ("s", REQ)],
    "forin": [("kind", REQ), ("target", REQ), ("obj", REQ), ("s", REQ)],
    "forof": [("kind", REQ), ("target", REQ), ("iter", REQ), ("s", REQ)],
    "labeled": [("l", REQ), ("s", REQ)], "break": [("l", "")], "continue": [("l", "")],
    "return": [("e", 0)], "throw": [("e", REQ)],
    "try": [("b", REQ), ("p", 0), ("h", 0), ("f", 0)],
    "switch": [("d", REQ), ("cases", REQ)], "case": [("test", 0), ("body", REQ)],
    "print": [("args", REQ)],
    "class": [("name", REQ), ("super", 0), ("members", REQ)],
    "classexpr": [("name", ""), ("super", 0), ("members", REQ)],
    "cmember": [("kind", REQ), ("static", False), ("computed", False), ("key", ""), ("k", 0), ("v", 0), ("synthetic", False)],
    "lit": [("val", REQ)], "ident": [("n", REQ)], "this": [], "newtarget": [],
    "array": [("elems", REQ)], "hole": [], "spread": [("e", REQ)],
    "object": [("props", REQ)],
    "prop": [("kind", "init"), ("computed", False), ("key", ""), ("k", 0), ("v", REQ), ("shorthand", False)],
    "template": [("quasis", REQ), ("exprs", REQ)],
    "unary": [("op", REQ), ("e", REQ)], "update": [("op", REQ), ("prefix", REQ), ("target", REQ)],
    "binary": [("op", REQ), ("l", REQ), ("r", REQ)], "logical": [("op", REQ), ("l", REQ), ("r", REQ)],
    "cond": [("c", REQ), ("a", REQ), ("b", REQ)], "seq": [("es", REQ)],
    "assign": [("op", REQ), ("target", REQ), ("e", REQ)],
    "member": [("o", REQ), ("computed", False), ("key", ""), ("k", 0), ("optional", False)],
    "call": [("f", REQ), ("args", REQ), ("optional", False)], "new": [("f", REQ), ("args", REQ)],
    "optchain": [("e", REQ)],
    "super_call": [("args", REQ)], "super_member": [("computed", False), ("key", ""), ("k", 0)],
    "yield": [("e", 0), ("delegate", False)],
    "arraypat": [("elems", REQ)], "pelem": [("target", REQ), ("default", 0)], "prest": [("target", REQ)],
    "objectpat": [("props", REQ), ("rest", 0)],
    "pprop": [("computed", False), ("key", ""), ("k", 0), ("target", REQ), ("default", 0)],
}
FUNCTION_KINDS = {"function", "generator", "fn", "genfn", "arrow", "method"}
STRING_FIELDS = {"key"}           # JS strings, sent to the model as code-unit lists
BINOPS = ["+", "-", "*", "/", "%", "**", "<<", ">>", ">>>", "&", "|", "^", "==", "!=", "===", "!==", "<", ">", "<=", ">=",
          "in", "instanceof"]


# ------------------------------------------------------------------------------------------- builders
def N(t, **kw):
    d = {"t": t}
    d.update(kw)
    return d


def undef(): return N("lit", val={"t": "undef"})
def null(): return N("lit", val={"t": "null"})
def boolean(b): return N("lit", val={"t": "bool", "b": bool(b)})


def num(n):
    """n: int with |n| < 2**30, or one of 'nz' (-0), 'nan', 'pinf', 'ninf'"""
    if isinstance(n, str):
        return N("lit", val={"t": "num", "k": n, "n": 0})
    assert abs(n) < 2 ** 30
    return N("lit", val={"t": "num", "k": "int", "n": int(n)})


def string(s): return N("lit", val={"t": "str", "s": units(s)})
def ident(n): return N("ident", n=n)
def binary(op, l, r): return N("binary", op=op, l=l, r=r)
def logical(op, l, r): return N("logical", op=op, l=l, r=r)
def unary(op, e): return N("unary", op=op, e=e)
def update(op, prefix, target): return N("update", op=op, prefix=prefix, target=target)
def assign(target, e, op="="): return N("assign", op=op, target=target, e=e)
def cond(c, a, b): return N("cond", c=c, a=a, b=b)
def seq(*es): return N("seq", es=list(es))
def member(o, key): return N("member", o=o, key=key)
def index(o, k): return N("member", o=o, computed=True, k=k)
def call(f, *args): return N("call", f=f, args=list(args))
def new(f, *args): return N("new", f=f, args=list(args))
def array(*elems): return N("array", elems=list(elems))
def hole(): return N("hole")
def spread(e): return N("spread", e=e)
def obj(*props): return N("object", props=list(props))
def prop(key, v, kind="init"): return N("prop", key=key, v=v, kind=kind)
def cprop(k, v, kind="init"): return N("prop", computed=True, k=k, v=v, kind=kind)
def method(params, body, gen=False): return N("method", params=params, body=body, gen=gen)
def param(target, default=0, rest=False): return N("param", target=target if isinstance(target, dict) else ident(target), default=default, rest=rest)
def params(*names): return [param(n) for n in names]
def fn(ps, body, name=""): return N("fn", name=name, params=ps, body=body)
def genfn(ps, body, name=""): return N("genfn", name=name, params=ps, body=body)
def arrow(ps, body=None, ebody=0): return N("arrow", params=ps, body=body or [], ebody=ebody)
def function(name, ps, body): return N("function", name=name, params=ps, body=body)
def generator(name, ps, body): return N("generator", name=name, params=ps, body=body)
def template(quasis, exprs): return N("template", quasis=list(quasis), exprs=list(exprs))
def this(): return N("this")
def yield_(e=0, delegate=False): return N("yield", e=e, delegate=delegate)
def optchain(e): return N("optchain", e=e)

def class_(name, members, super_=0): return N("class", name=name, super=super_, members=list(members))
def classexpr(members, super_=0, name=""): return N("classexpr", name=name, super=super_, members=list(members))
def cmethod(key, ps, body, static=False, kind="method", gen=False): return N("cmember", kind=kind, static=static, key=key, v=method(ps, body, gen=gen))
def cfield(key, init=0, static=False): return N("cmember", kind="field", static=static, key=key, v=init)
def ctor(ps, body): return N("cmember", kind="ctor", v=method(ps, body))
def super_call(*args): return N("super_call", args=list(args))
def super_member(key): return N("super_member", key=key)

def decl(target, init=0): return N("decl", target=target if isinstance(target, dict) else ident(target), init=init)
def var(name, init=0): return N("var", decls=[decl(name, init)])
def let(name, init=0): return N("let", decls=[decl(name, init)])
def const(name, init): return N("const", decls=[decl(name, init)])
def expr(e): return N("expr", e=e)
def block(*body): return N("block", body=list(body))
def if_(c, a, b=0): return N("if", c=c, a=a, b=b)
def while_(c, s): return N("while", c=c, s=s)
def dowhile(s, c): return N("dowhile", s=s, c=c)
def for_(init, c, upd, s): return N("for", init=init, c=c, update=upd, s=s)
def forin(kind, target, o, s): return N("forin", kind=kind, target=target if isinstance(target, dict) else ident(target), obj=o, s=s)
def forof(kind, target, it, s): return N("forof", kind=kind, target=target if isinstance(target, dict) else ident(target), iter=it, s=s)
def labeled(l, s): return N("labeled", l=l, s=s)
def break_(l=""): return N("break", l=l)
def continue_(l=""): return N("continue", l=l)
def return_(e=0): return N("return", e=e)
def throw(e): return N("throw", e=e)
def try_(b, p=0, h=0, f=0): return N("try", b=b, p=(ident(p) if isinstance(p, str) else p), h=h, f=f)
def switch(d, *cases): return N("switch", d=d, cases=list(cases))
def case(test, *body): return N("case", test=test, body=list(body))
def print_(*args): return N("print", args=list(args))
def program(body, strict=False): return N("program", strict=strict, body=list(body))
def arraypat(*elems): return N("arraypat", elems=[e if e.get("t") in ("pelem", "prest", "hole") else N("pelem", target=e) for e in elems])
def pelem(target, default=0): return N("pelem", target=target, default=default)
def prest(target): return N("prest", target=target)
def objectpat(*props, rest=0): return N("objectpat", props=list(props), rest=(prest(rest) if rest and rest.get("t") != "prest" else rest))
def pprop(key, target=None, default=0): return N("pprop", key=key, target=target or ident(key), default=default)


def units(s):
    """UTF-16 code units of a Python string (lone surrogates allowed via surrogatepass)."""
    b = s.encode("utf-16-le", "surrogatepass")
    return [b[i] | (b[i + 1] << 8) for i in range(0, len(b), 2)]


def from_units(u):
    return b"".join(bytes([x & 255, x >> 8]) for x in u).decode("utf-16-le", "surrogatepass")


# ------------------------------------------------------------------------------------------- walking
def children(node):
    """(field, child) pairs in schema order; list fields are expanded."""
    for f, _ in SCHEMA[node["t"]]:
        v = node.get(f)
        if isinstance(v, dict) and "t" in v and f != "val":
            yield f, v
        elif isinstance(v, list):
            for x in v:
                if isinstance(x, dict) and "t" in x:
                    yield f, x


def walk(node):
    yield node
    for _, ch in children(node):
        yield from walk(ch)


def size(node):
    return sum(1 for _ in walk(node))


def _uses_arguments(fnode):
    """does the function mention the identifier `arguments` (outside nested non-arrow functions)?"""
    def rec(n, top):
        if n["t"] == "ident" and n["n"] == "arguments":
            return True
        if n["t"] in FUNCTION_KINDS and n["t"] != "arrow" and not top:
            return False
        return any(rec(ch, False) for _, ch in children(n))
    return rec(fnode, True)


# ------------------------------------------------------------------------------------------- flatten
def flatten(ast):
    """Node table for JsCore.tla: nodes[i-1] is node i (pre-order, root = 1); child fields hold indices
    (0 = absent), JS strings are code-unit lists, every node has `ch` (all children, in order)."""
    assert ast["t"] == "program"
    nodes = []

    def rec(n, in_chain):
        t = n["t"]
        if t not in SCHEMA:
            raise ValueError("unknown node kind %r" % t)
        if t in ("class", "classexpr") and not any(m["kind"] == "ctor" for m in n["members"]):
            # 15.7.14 step 14: default constructors
            if n.get("super"):
                dm = method([param("args", rest=True)], [expr(N("super_call", args=[spread(ident("args"))]))])
            else:
                dm = method([], [])
            n = dict(n)
            n["members"] = list(n["members"]) + [N("cmember", kind="ctor", v=dm, synthetic=True)]
        known = {f for f, _ in SCHEMA[t]}
        extra = set(n) - known - {"t"}
        if extra:
            raise ValueError("unknown fields %r on %s" % (extra, t))
        out = {"t": t}
        nodes.append(out)
        my = len(nodes)
        ch = []
        if t in ("member", "call") and n.get("optional") and not in_chain:
            raise ValueError("optional member/call outside an optchain node")
        for f, dflt in SCHEMA[t]:
            v = n.get(f, dflt)
            if v is REQ:
                raise ValueError("missing field %s on %s" % (f, t))
            if v is None:
                v = 0
            if f == "val":
                out[f] = v
            elif isinstance(v, dict):
                chain = (t == "optchain") or (in_chain and t in ("member", "call") and f in ("o", "f"))
                out[f] = rec(v, chain)
                ch.append(out[f])
            elif isinstance(v, list):
                if f == "quasis":
                    out[f] = [units(x) for x in v]
                else:
                    out[f] = [rec(x, False) for x in v]
                    ch.extend(out[f])
            elif f in STRING_FIELDS:
                out[f] = units(v)
            else:
                out[f] = v
        out["ch"] = ch
        if t in FUNCTION_KINDS:
            out["usesArgs"] = _uses_arguments(n)
        if t == "assign":
            out["bop"] = n["op"][:-1] if n["op"] not in ("=", "&&=", "||=", "??=") else ""
        return my

    if ast.get("strict"):
        # the "use strict" directive is an expression statement (its value can be the script's completion value)
        ast = dict(ast)
        ast["body"] = [expr(string("use strict"))] + list(ast["body"])
    rec(ast, False)
    return {"strict": bool(ast.get("strict", False)), "nodes": nodes}


# ------------------------------------------------------------------------------------------- render
_IDENT_RE = re.compile(r"^[A-Za-z_$][A-Za-z0-9_$]*$")
_RESERVED = set("""break case catch class const continue debugger default delete do else enum export extends false
finally for function if import in instanceof new null return super switch this throw true try typeof var void while
with yield let static implements interface package private protected public await async of get set""".split())


def js_string(s):
    out = ['"']
    for u in units(s):
        if u == 0x22:
            out.append('\\"')
        elif u == 0x5C:
            out.append("\\\\")
        elif 0x20 <= u < 0x7F:
            out.append(chr(u))
        else:
            out.append("\\u%04X" % u)
    out.append('"')
    return "".join(out)


def _key(node):
    if node.get("computed"):
        return "[" + rx(node["k"]) + "]"
    k = node["key"]
    if _IDENT_RE.match(k) and k not in _RESERVED:
        return k
    return js_string(k)


def _lit(v):
    t = v["t"]
    if t == "undef":
        return "(void 0)"
    if t == "null":
        return "null"
    if t == "bool":
        return "true" if v["b"] else "false"
    if t == "str":
        return js_string(from_units(v["s"]))
    k = v["k"]
    if k == "int":
        return str(v["n"]) if v["n"] >= 0 else "(-%d)" % -v["n"]
    return {"nz": "(-0)", "nan": "(0/0)", "pinf": "(1/0)", "ninf": "(-1/0)"}[k]


def _params(ps):
    out = []
    for p in ps:
        s = ("..." if p.get("rest") else "") + rpat(p["target"])
        if p.get("default"):
            s += " = " + rx(p["default"])
        out.append(s)
    return "(" + ", ".join(out) + ")"


def _body(stmts):
    return "{ " + " ".join(rs(s) for s in stmts) + " }"


def rpat(p):
    """binding / assignment pattern or simple target (never parenthesised as a whole)"""
    t = p["t"]
    if t == "ident":
        return p["n"]
    if t in ("member", "super_member"):
        return rref(p)
    if t == "arraypat":
        parts = []
        for e in p["elems"]:
            if e["t"] == "hole":
                parts.append("")
            elif e["t"] == "prest":
                parts.append("..." + rpat(e["target"]))
            else:
                parts.append(rpat(e["target"]) + (" = " + rx(e["default"]) if e.get("default") else ""))
        s = ", ".join(parts)
        if p["elems"] and p["elems"][-1]["t"] == "hole":
            s += ","
        return "[" + s + "]"
    if t == "objectpat":
        parts = []
        for e in p["props"]:
            parts.append(_key(e) + ": " + rpat(e["target"]) + (" = " + rx(e["default"]) if e.get("default") else ""))
        if p.get("rest"):
            parts.append("..." + rpat(p["rest"]["target"]))
        return "{" + ", ".join(parts) + "}"
    raise ValueError("not a pattern: " + t)


def _chain(e):
    """member/call chain inside an optchain node, rendered without parentheses between the links"""
    t = e["t"]
    if t == "member":
        o = _chain_obj(e["o"])
        if e.get("computed"):
            return o + ("?.[" if e.get("optional") else "[") + rx(e["k"]) + "]"
        return o + ("?." if e.get("optional") else ".") + e["key"]
    if t == "call":
        return _chain_obj(e["f"]) + ("?.(" if e.get("optional") else "(") + _args(e["args"]) + ")"
    return rx(e)


def _chain_obj(x):
    return _chain(x) if x["t"] in ("member", "call") else _paren(rx(x))


def _paren(s):
    return s if (s.startswith("(") and _balanced(s)) else "(" + s + ")"


# LOOSE rendering (C05): the AST optimizer of boa matches literal operands and literal conditions syntactically, and a
# parenthesised literal is a different node.  With LOOSE set, atomic operands (identifiers, non-negative numbers, strings,
# booleans, null, this) are written bare and an operator expression in a delimited position (condition, initializer,
# argument, return/throw operand, case test) loses its outermost parentheses.  Everything else stays fully parenthesised,
# so the text still means exactly what the AST says.
LOOSE = False
_STRIPPABLE = ("binary", "logical", "cond", "unary", "update", "call", "member", "new", "lit")


def _atomic(e):
    if e["t"] in ("ident", "this"):
        return True
    return e["t"] == "lit" and not _lit(e["val"]).startswith("(")


def _opnd(e):
    """operand of a unary / binary / logical / conditional operator"""
    s = rx(e)
    return s if (LOOSE and _atomic(e)) else _paren(s)


def _top(e):
    """expression in a position delimited by the surrounding syntax"""
    s = rx(e)
    if LOOSE and e["t"] in _STRIPPABLE and not (e["t"] == "binary" and e.get("op") == "in") and s.startswith("(") and _balanced(s):
        return s[1:-1]
    return s


def _balanced(s):
    d = 0
    for i, ch in enumerate(s):
        if ch == "(":
            d += 1
        elif ch == ")":
            d -= 1
            if d == 0 and i != len(s) - 1:
                return False
    return d == 0


def _args(args):
    return ", ".join(("..." + rx(a["e"])) if a["t"] == "spread" else _top(a) for a in args)


def rref(e):
    """an expression in reference position (call callee, assignment target, delete/typeof operand)"""
    t = e["t"]
    if t == "ident":
        return e["n"]
    if t == "member":
        o = _paren(rx(e["o"]))
        return o + "[" + rx(e["k"]) + "]" if e.get("computed") else o + "." + e["key"]
    if t == "super_member":
        return "super[" + rx(e["k"]) + "]" if e.get("computed") else "super." + e["key"]
    return _paren(rx(e))


def _fnlike(prefix, n):
    return prefix + _params(n["params"]) + " " + _body(n["body"])


def _class(n):
    s = "class " + n.get("name", "")
    if n.get("super"):
        s += " extends " + _paren(rx(n["super"]))
    parts = []
    for m in n["members"]:
        pre = "static " if m.get("static") else ""
        kind = m["kind"]
        k = "" if kind == "ctor" else _key(m)
        if kind == "method":
            parts.append(pre + ("*" if m["v"].get("gen") else "") + k + _params(m["v"]["params"]) + " " + _body(m["v"]["body"]))
        elif kind in ("get", "set"):
            parts.append(pre + kind + " " + k + _params(m["v"]["params"]) + " " + _body(m["v"]["body"]))
        elif kind == "field":
            parts.append(pre + k + (" = " + rx(m["v"]) if m.get("v") else "") + ";")
        elif kind == "ctor":
            if not m.get("synthetic"):
                parts.append("constructor" + _params(m["v"]["params"]) + " " + _body(m["v"]["body"]))
        else:
            raise ValueError(kind)
    return s + " { " + " ".join(parts) + " }"


def rx(e):
    """expression, parenthesised unless atomic"""
    t = e["t"]
    if t == "lit":
        return _lit(e["val"])
    if t == "ident":
        return e["n"]
    if t == "this":
        return "this"
    if t == "newtarget":
        return "new.target"
    if t in ("member", "super_member"):
        return "(" + rref(e) + ")"
    if t == "array":
        parts = [("" if x["t"] == "hole" else "..." + rx(x["e"]) if x["t"] == "spread" else rx(x)) for x in e["elems"]]
        s = ", ".join(parts)
        if e["elems"] and e["elems"][-1]["t"] == "hole":
            s += ","
        return "[" + s + "]"
    if t == "object":
        parts = []
        for p in e["props"]:
            k = p.get("kind", "init")
            if k == "spread":
                parts.append("..." + rx(p["v"]))
            elif k == "init":
                parts.append(p["key"] if p.get("shorthand") else _key(p) + ": " + rx(p["v"]))
            elif k == "method":
                parts.append(("*" if p["v"].get("gen") else "") + _key(p) + _params(p["v"]["params"]) + " " + _body(p["v"]["body"]))
            else:
                parts.append(k + " " + _key(p) + _params(p["v"]["params"]) + " " + _body(p["v"]["body"]))
        return "({" + ", ".join(parts) + "})"
    if t == "fn":
        return "(" + _fnlike("function " + e.get("name", ""), e) + ")"
    if t == "genfn":
        return "(" + _fnlike("function* " + e.get("name", ""), e) + ")"
    if t == "arrow":
        if e.get("ebody"):
            return "(" + _params(e["params"]) + " => " + _paren(rx(e["ebody"])) + ")"
        return "(" + _params(e["params"]) + " => " + _body(e["body"]) + ")"
    if t == "classexpr":
        return "(" + _class(e) + ")"
    if t == "template":
        out = ["`"]
        for i, q in enumerate(e["quasis"]):
            for u in units(q):
                if u in (0x60, 0x5C, 0x24):
                    out.append("\\" + chr(u))
                elif 0x20 <= u < 0x7F:
                    out.append(chr(u))
                else:
                    out.append("\\u%04X" % u)
            if i < len(e["exprs"]):
                out.append("${" + rx(e["exprs"][i]) + "}")
        out.append("`")
        return "".join(out)
    if t == "unary":
        op = e["op"]
        if op in ("typeof", "delete"):
            return "(" + op + " " + rref(e["e"]) + ")"
        return "(" + op + (" " if op == "void" else "") + _opnd(e["e"]) + ")"
    if t == "update":
        return "(" + (e["op"] + rref(e["target"]) if e["prefix"] else rref(e["target"]) + e["op"]) + ")"
    if t in ("binary", "logical"):
        return "(" + _opnd(e["l"]) + " " + e["op"] + " " + _opnd(e["r"]) + ")"
    if t == "cond":
        return "(" + _opnd(e["c"]) + " ? " + _opnd(e["a"]) + " : " + _opnd(e["b"]) + ")"
    if t == "seq":
        return "(" + ", ".join(_paren(rx(x)) for x in e["es"]) + ")"
    if t == "assign":
        return "(" + rpat(e["target"]) + " " + e["op"] + " " + _paren(rx(e["e"])) + ")"
    if t == "call":
        return "(" + rref(e["f"]) + "(" + _args(e["args"]) + "))"
    if t == "new":
        return "(new " + _paren(rx(e["f"])) + "(" + _args(e["args"]) + "))"
    if t == "optchain":
        return "(" + _chain(e["e"]) + ")"
    if t == "super_call":
        return "(super(" + _args(e["args"]) + "))"
    if t == "yield":
        if not e.get("e"):
            return "(yield)"
        return "(yield" + ("* " if e.get("delegate") else " ") + _paren(rx(e["e"])) + ")"
    raise ValueError("not an expression: " + t)


def _decls(kind, ds):
    return kind + " " + ", ".join(rpat(d["target"]) + (" = " + _top(d["init"]) if d.get("init") else "") for d in ds)


def rs(s):
    """statement"""
    t = s["t"]
    if t in ("var", "let", "const"):
        return _decls(t, s["decls"]) + ";"
    if t == "function":
        return _fnlike("function " + s["name"], s)
    if t == "generator":
        return _fnlike("function* " + s["name"], s)
    if t == "class":
        return _class(s)
    if t == "expr":
        return _paren(rx(s["e"])) + ";"
    if t == "block":
        return _body(s["body"])
    if t == "if":
        return "if (" + _top(s["c"]) + ") " + rs(s["a"]) + (" else " + rs(s["b"]) if s.get("b") else "")
    if t == "empty":
        return ";"
    if t == "while":
        return "while (" + _top(s["c"]) + ") " + rs(s["s"])
    if t == "dowhile":
        return "do " + rs(s["s"]) + " while (" + _top(s["c"]) + ");"
    if t == "for":
        i = s.get("init")
        init = "" if not i else (_decls(i["t"], i["decls"]) if i["t"] in ("var", "let", "const") else rx(i["e"] if i["t"] == "expr" else i))
        return "for (" + init + "; " + (_top(s["c"]) if s.get("c") else "") + "; " + (_top(s["update"]) if s.get("update") else "") + ") " + rs(s["s"])
    if t in ("forin", "forof"):
        head = ("" if s["kind"] == "assign" else s["kind"] + " ") + rpat(s["target"])
        subj = rx(s["obj"]) if t == "forin" else rx(s["iter"])
        return "for (" + head + (" in " if t == "forin" else " of ") + _paren(subj) + ") " + rs(s["s"])
    if t == "labeled":
        return s["l"] + ": " + rs(s["s"])
    if t in ("break", "continue"):
        return t + (" " + s["l"] if s.get("l") else "") + ";"
    if t == "return":
        return "return" + (" " + _top(s["e"]) if s.get("e") else "") + ";"
    if t == "throw":
        return "throw " + _top(s["e"]) + ";"
    if t == "try":
        out = "try " + rs(s["b"])
        if s.get("h"):
            out += " catch " + ("(" + rpat(s["p"]) + ") " if s.get("p") else "") + rs(s["h"])
        if s.get("f"):
            out += " finally " + rs(s["f"])
        return out
    if t == "switch":
        cs = []
        for c in s["cases"]:
            cs.append(("case " + _top(c["test"]) + ":" if c.get("test") else "default:") + " " + " ".join(rs(x) for x in c["body"]))
        return "switch (" + _top(s["d"]) + ") { " + " ".join(cs) + " }"
    if t == "print":
        return "print(" + _args(s["args"]) + ");"
    raise ValueError("not a statement: " + t)


def render(ast):
    if ast["t"] == "program":
        return ('"use strict"; ' if ast.get("strict") else "") + " ".join(rs(s) for s in ast["body"])
    if ast["t"] in SCHEMA and ast["t"] in ("var", "let", "const", "function", "generator", "class", "expr", "block", "if",
                                           "empty", "while", "dowhile", "for", "forin", "forof", "labeled", "break",
                                           "continue", "return", "throw", "try", "switch", "print"):
        return rs(ast)
    return rx(ast)


def wrap_call(ast, name="f"):
    """(definition program, expectation program) for the host-call entry mode: the body becomes the body of
    function `name`; the expectation program defines it and calls it."""
    d = program([function(name, [], list(ast["body"]))], strict=ast.get("strict", False))
    e = program([function(name, [], list(ast["body"])), expr(call(ident(name)))], strict=ast.get("strict", False))
    return d, e


# ------------------------------------------------------------------------------------------- expectations
def esc_units(us):
    out = []
    for u in us:
        if u == 0x5C:
            out.append("\\\\")
        elif 0x20 <= u < 0x7F:
            out.append(chr(u))
        else:
            out.append("\\u%04X" % u)
    return "".join(out)


def obs_value(r):
    """model rendering record -> hjs value rendering"""
    k = r["r"]
    if k == "u":
        return "u"
    if k == "null":
        return "null"
    if k == "b":
        return "b:true" if r["b"] else "b:false"
    if k == "n":
        return {"int": "n:%d" % r["n"], "nz": "n:-0", "nan": "n:NaN", "pinf": "n:Infinity", "ninf": "n:-Infinity"}[r["k"]]
    if k == "s":
        return "s:" + esc_units(r["s"])
    if k == "y":
        return "y:" + esc_units(r["s"])
    if k == "o":
        if r["c"] == "Array":
            return "o:Array(%d)" % r["n"]
        if r["c"] == "Error":
            return "o:Error:" + r["e"]
        return "o:" + r["c"]
    raise vlib.ToolError("unrenderable model value %r" % (r,))


MC = os.path.join(vlib.SPEC, "lang", "MCJsCore.tla")


def expect(programs, workers=4, timeout=1800, cfg="MCJsCore.cfg", keep=None):
    """Evaluates the programs (ASTs) with JsCore.tla in one TLC run. Returns (results list, stats)."""
    os.makedirs(vlib.WORK, exist_ok=True)
    path = keep or os.path.join(vlib.WORK, "programs-%d-%d.ndjson" % (os.getpid(), random.getrandbits(30)))
    with open(path, "w") as f:
        for i, p in enumerate(programs):
            fl = flatten(p)
            fl["pid"] = i + 1
            f.write(json.dumps(fl, separators=(",", ":")) + "\n")
    results = [None] * len(programs)

    def on_tagged(tag, o):
        if tag != "RESULT":
            return
        i = o["pid"] - 1
        comp = o["comp"]
        if comp == "OutOfModel":
            results[i] = {"out": [], "c": "OutOfModel", "steps": o["steps"], "why": o["v"].get("why", "")}
        elif comp == "early":
            results[i] = {"out": [], "c": "throw:o:Error:SyntaxError", "steps": 0, "early": True}
        else:
            results[i] = {"out": [" ".join(obs_value(x) for x in line) for line in o["out"]],
                          "c": comp + ":" + obs_value(o["v"]), "steps": o["steps"]}

    try:
        res = vlib.run_tlc(MC, cfg, workers=workers, timeout=timeout, env_extra={"PROGRAMS": path}, on_tagged=on_tagged)
    finally:
        if not keep:
            try:
                os.unlink(path)
            except OSError:
                pass
    if not res["ok"]:
        vlib.log(res["raw_tail"])
        raise vlib.ToolError("JsCore model gate failed: %s" % (res["violation"] or "rc=%s" % res["rc"]))
    missing = [i for i, r in enumerate(results) if r is None]
    if missing:
        raise vlib.ToolError("JsCore: no RESULT for programs %r" % missing[:10])
    # determinism: every state has exactly one successor (the done state stutters once)
    if res["states"] != res["distinct"] + len(programs):
        raise vlib.ToolError("JsCore: machine is not deterministic (generated %d, distinct %d, programs %d)"
                             % (res["states"], res["distinct"], len(programs)))
    stats = {"states": res["distinct"], "transitions": res["states"], "wall": res["wall"], "cmd": res["cmd"],
             "oom": sum(1 for r in results if r["c"] == "OutOfModel")}
    return results, stats



# ------------------------------------------------------------------------------------------- random programs
# Seeded, closed, deterministic, always-terminating programs over the fragment JsCore.tla models.
# Termination: loops run on dedicated counters that the body cannot name; a function may only call
# functions/closures defined before it (no recursion); parameters are never called.
PROFILES = {
    # weights of statement kinds / expression kinds; a profile overrides entries of "base"
    "base": {
        "s.decl": 10, "s.assign": 8, "s.print": 9, "s.if": 6, "s.for": 4, "s.while": 2, "s.dowhile": 1, "s.block": 2,
        "s.try": 4, "s.throw": 1, "s.fundecl": 4, "s.return": 3, "s.break": 2, "s.continue": 2, "s.labeled": 1,
        "s.switch": 2, "s.expr": 4, "s.forin": 1, "s.forof": 2, "s.class": 0, "s.destruct": 2,
        "e.lit": 12, "e.var": 14, "e.binary": 10, "e.unary": 3, "e.logical": 3, "e.cond": 2, "e.assign": 3, "e.update": 2,
        "e.call": 5, "e.fn": 2, "e.arrow": 2, "e.object": 3, "e.array": 2, "e.member": 4, "e.typeof": 1, "e.template": 1,
        "e.seq": 1, "e.new": 1, "e.coerce": 2, "e.optchain": 1, "e.spread": 1, "e.in": 1, "e.delete": 1, "e.gen": 0,
        "p.tdz": 0.03, "p.undeclared": 0.01, "p.dupdecl": 0.01, "p.strict": 0.5, "p.default_param": 0.2, "p.rest_param": 0.08,
        "max_depth": 4, "max_stmts": 6, "max_expr_depth": 3,
    },
    "c01": {},
    # C04: binding placement / operand shortcuts
    "c04": {"e.fn": 4, "e.arrow": 6, "e.assign": 6, "e.update": 5, "s.for": 7, "s.switch": 4, "p.default_param": 0.5, "p.tdz": 0.06},
    # C05: optimizer: literal-heavy expressions, literal conditions
    "c05": {"e.lit": 24, "e.binary": 18, "e.unary": 6, "e.coerce": 5, "s.if": 10, "e.cond": 5, "e.var": 8},
    # small programs (C10 GC schedules)
    "small": {"max_depth": 3, "max_stmts": 4, "e.object": 6, "e.array": 5, "e.fn": 4},
}


def profile_weights(profile):
    w = dict(PROFILES["base"])
    if isinstance(profile, str):
        w.update(PROFILES.get(profile, {}))
    elif isinstance(profile, dict):
        w.update(profile)
    return w


class Gen:
    ARITH = ["+", "-", "*", "%", "+", "-", "*", "&", "|", "^", "<<", ">>", ">>>", "/", "**"]
    CMP = ["<", ">", "<=", ">=", "==", "!=", "===", "!=="]
    KEYS = ["a", "b", "c", "x", "y"]

    def __init__(self, rng, profile="c01"):
        self.r = rng
        self.w = profile_weights(profile)
        self.n = 0
        self.scopes = []          # list of dicts name -> {"kind", "callable": arity|None}
        self.fn_depth = 0
        self.loops = []           # labels of enclosing loops ("" for unlabelled)
        self.labels = []          # labels of enclosing labelled blocks
        self.in_switch = 0
        self.pending_tdz = []     # per block: names to declare at the end of the block
        self.strict = False

    # ---- helpers
    def fresh(self, prefix="v"):
        self.n += 1
        return "%s%d" % (prefix, self.n)

    def pick(self, prefix):
        items = [(k[len(prefix):], v) for k, v in self.w.items() if k.startswith(prefix) and v > 0]
        tot = sum(v for _, v in items)
        x = self.r.random() * tot
        for k, v in items:
            x -= v
            if x <= 0:
                return k
        return items[-1][0]

    def chance(self, key):
        return self.r.random() < self.w[key]

    def visible(self, pred=lambda i: True):
        out = []
        seen = set()
        for sc in reversed(self.scopes):
            for n, i in sc.items():
                if n not in seen:
                    seen.add(n)
                    if pred(i):
                        out.append(n)
        return out

    def declare(self, name, kind, callable_=None, opaque=False):
        # opaque: holds a function or an engine-created error (their string conversions are not modelled)
        self.scopes[-1][name] = {"kind": kind, "callable": callable_, "opaque": opaque}

    def new_name(self):
        # sometimes shadow an outer name
        outer = [n for sc in self.scopes[:-1] for n in sc if n not in self.scopes[-1]]
        if outer and self.r.random() < 0.15:
            return self.r.choice(outer)
        return self.fresh()

    # ---- expressions
    def small_int(self):
        return self.r.choice([0, 1, 2, 3, 4, 5, 7, 10, -1, -2, 1, 2, 3])

    def literal(self):
        k = self.r.random()
        if k < 0.55:
            return num(self.small_int())
        if k < 0.75:
            return string(self.r.choice(["", "a", "b", "1", "2", "x", "ab", " 3 ", "-0", "z"]))
        if k < 0.82:
            return boolean(self.r.random() < 0.5)
        if k < 0.88:
            return undef()
        if k < 0.93:
            return null()
        return num(self.r.choice(["nan", "pinf", "nz", "ninf"]))

    def var_ref(self):
        vs = self.visible()
        if not vs or self.chance("p.undeclared"):
            if self.chance("p.undeclared"):
                return ident(self.fresh("u"))
            return self.literal()
        return ident(self.r.choice(vs))

    def lvalue(self):
        vs = self.visible(lambda i: i["kind"] in ("var", "let", "param") or (i["kind"] == "const" and self.r.random() < 0.05))
        k = self.r.random()
        if vs and k < 0.7:
            return ident(self.r.choice(vs))
        allv = self.visible(lambda i: i["callable"] is None)
        if allv:
            o = ident(self.r.choice(allv))
            if self.r.random() < 0.7:
                return member(o, self.r.choice(self.KEYS))
            return index(o, self.r.choice([num(0), num(1), string("a"), num(2)]))
        if vs:
            return ident(self.r.choice(vs))
        return None

    def expr(self, d=0):
        if d >= self.w["max_expr_depth"]:
            return self.var_ref() if self.r.random() < 0.5 else self.literal()
        k = self.pick("e.")
        e = getattr(self, "e_" + k)(d + 1)
        return e if e is not None else self.literal()

    def operand(self, d):
        """an expression used as an operator operand: not a function (its ToPrimitive is the unmodelled source text)"""
        for _ in range(4):
            e = self.expr(d)
            if e["t"] in ("fn", "arrow", "genfn", "classexpr"):
                continue
            if e["t"] == "ident" and any(e["n"] in sc and (sc[e["n"]]["callable"] is not None or sc[e["n"]].get("opaque")) for sc in self.scopes):
                continue
            return e
        return self.literal()

    def e_lit(self, d): return self.literal()
    def e_var(self, d): return self.var_ref()

    def e_binary(self, d):
        if self.r.random() < 0.3:
            return binary(self.r.choice(self.CMP), self.operand(d), self.operand(d))
        op = self.r.choice(self.ARITH)
        r = self.operand(d)
        if op in ("**", "<<"):
            r = num(self.r.choice([0, 1, 2, 3]))
        if op == "/":                      # quotients must stay integral (or be +-Infinity / NaN)
            r = num(self.r.choice([0, 1, -1, "nz", 1]))
        return binary(op, self.operand(d), r)

    def e_unary(self, d): return unary(self.r.choice(["-", "+", "!", "~", "void", "-", "!"]), self.operand(d))
    def e_logical(self, d): return logical(self.r.choice(["&&", "||", "??"]), self.expr(d), self.expr(d))
    def e_cond(self, d): return cond(self.expr(d), self.expr(d), self.expr(d))

    def e_assign(self, d):
        t = self.lvalue()
        if t is None:
            return None
        op = self.r.choice(["=", "=", "=", "+=", "-=", "*=", "||=", "&&=", "??=", "|=", "%="])
        return assign(t, self.expr(d) if op == "=" else self.operand(d), op)

    def e_update(self, d):
        t = self.lvalue()
        if t is None:
            return None
        return update(self.r.choice(["++", "--"]), self.r.random() < 0.5, t)

    def e_call(self, d):
        fs = [(n, i["callable"]) for sc in self.scopes for n, i in sc.items() if i["callable"] is not None]
        fs = [(n, a) for n, a in fs if n in self.visible()]
        if not fs:
            return None
        n, ar = self.r.choice(fs)
        nargs = max(0, ar + self.r.choice([0, 0, 0, -1, 1]))
        return call(ident(n), *[self.expr(d) for _ in range(nargs)])

    def func_parts(self, d, arrow_=False):
        """(params, body) of a nested function; restores generator state afterwards"""
        saved = (self.loops, self.labels, self.in_switch, self.pending_tdz)
        self.loops, self.labels, self.in_switch, self.pending_tdz = [], [], 0, []
        self.fn_depth += 1
        self.scopes.append({})
        ps = []
        for _ in range(self.r.choice([0, 1, 1, 2, 2, 3])):
            nm = self.fresh("p")
            if ps and not ps[-1].get("rest") and self.chance("p.rest_param") and _ == 0:
                pass
            dflt = 0
            if self.chance("p.default_param"):
                dflt = self.expr(self.w["max_expr_depth"] - 1)
            ps.append(param(nm, default=dflt))
            self.declare(nm, "param")
        if self.chance("p.rest_param"):
            nm = self.fresh("p")
            ps.append(param(nm, rest=True))
            self.declare(nm, "param")
        body = self.stmts(d + 1, self.r.randint(1, 3), fn_body=True)
        self.scopes.pop()
        self.fn_depth -= 1
        self.loops, self.labels, self.in_switch, self.pending_tdz = saved
        return ps, body

    def e_fn(self, d):
        if self.fn_depth >= 2:
            return None
        ps, body = self.func_parts(d)
        return fn(ps, body, name=self.r.choice(["", "", self.fresh("n")]))

    def e_arrow(self, d):
        if self.fn_depth >= 2:
            return None
        if self.r.random() < 0.5:
            self.fn_depth += 1
            self.scopes.append({})
            ps = []
            for _ in range(self.r.choice([0, 1, 1, 2])):
                nm = self.fresh("p")
                ps.append(param(nm))
                self.declare(nm, "param")
            e = self.expr(d)
            self.scopes.pop()
            self.fn_depth -= 1
            return arrow(ps, ebody=e)
        ps, body = self.func_parts(d)
        return arrow(ps, body=body)

    def e_object(self, d):
        ps = []
        for k in self.r.sample(self.KEYS, self.r.randint(0, 3)):
            ps.append(prop(k, self.expr(d)))
        return obj(*ps)

    def e_array(self, d):
        return array(*[self.expr(d) for _ in range(self.r.randint(0, 3))])

    def e_member(self, d):
        o = self.var_ref()
        k = self.r.random()
        if k < 0.5:
            return member(o, self.r.choice(self.KEYS + ["length"]))
        return index(o, self.r.choice([num(0), num(1), string("a"), self.expr(d)]))

    def e_typeof(self, d): return unary("typeof", self.var_ref() if self.r.random() < 0.7 else self.expr(d))

    def e_template(self, d):
        n = self.r.randint(0, 2)
        return template([self.r.choice(["", "a", " ", "x="]) for _ in range(n + 1)], [self.operand(d) for _ in range(n)])

    def e_seq(self, d): return seq(self.expr(d), self.expr(d))

    def e_new(self, d):
        fs = [n for sc in self.scopes for n, i in sc.items() if i["callable"] is not None and i["kind"] == "fn" and n in self.visible()]
        if fs and self.r.random() < 0.7:
            return new(ident(self.r.choice(fs)))
        return new(ident(self.r.choice(["Error", "TypeError", "RangeError"])), string("m"))

    def e_coerce(self, d):
        """object with observable valueOf / toString used as an operand"""
        tag = self.r.choice(["v", "w", "t"])
        ps = []
        if self.r.random() < 0.8:
            ps.append(prop("valueOf", fn([], [print_(string("valueOf:" + tag)), return_(self.literal())])))
        if self.r.random() < 0.5:
            ps.append(prop("toString", fn([], [print_(string("toString:" + tag)), return_(self.literal())])))
        o = obj(*ps)
        k = self.r.random()
        if k < 0.6:
            op = self.r.choice(["+", "-", "*", "<", "==", ">=", "%"])
            return binary(op, o, self.expr(d)) if self.r.random() < 0.5 else binary(op, self.expr(d), o)
        if k < 0.8:
            return unary(self.r.choice(["-", "+", "~"]), o)
        return template(["", ""], [o])

    def e_optchain(self, d):
        o = self.var_ref()
        k = self.r.random()
        if k < 0.5:
            return optchain(N("member", o=o, key=self.r.choice(self.KEYS), optional=True))
        if k < 0.8:
            return optchain(member(N("member", o=o, key=self.r.choice(self.KEYS), optional=True), self.r.choice(self.KEYS)))
        return optchain(N("call", f=member(o, self.r.choice(self.KEYS)), args=[], optional=True))

    def e_spread(self, d):
        a = array(*[self.expr(d) for _ in range(self.r.randint(0, 2))])
        return array(self.expr(d), spread(a)) if self.r.random() < 0.5 else obj(N("prop", kind="spread", v=self.e_object(d)), prop("a", self.expr(d)))

    def e_in(self, d): return binary("in", string(self.r.choice(self.KEYS)), self.e_object(d) if self.r.random() < 0.4 else self.var_ref())

    def e_delete(self, d):
        vs = self.visible(lambda i: i["callable"] is None)
        if not vs:
            return None
        return unary("delete", member(ident(self.r.choice(vs)), self.r.choice(self.KEYS)))

    def e_gen(self, d): return None

    # ---- statements
    def stmts(self, d, n, fn_body=False, top=False, in_case=False):
        out = []
        self.pending_tdz.append([])
        if not (fn_body or top):
            self.scopes.append({})
        for _ in range(n):
            s = self.stmt(d, (fn_body or top) and not in_case)
            if s is not None:
                out.append(s)
        for nm in self.pending_tdz.pop():
            out.append(let(nm, self.literal()))
        if not (fn_body or top):
            self.scopes.pop()
        return out

    def stmt(self, d, fn_top=False):
        if d >= self.w["max_depth"]:
            k = self.r.choice(["print", "assign", "decl", "expr"])
        else:
            k = self.pick("s.")
        s = getattr(self, "s_" + k)(d, fn_top)
        return s if s is not None else self.s_print(d, fn_top)

    def s_decl(self, d, fn_top):
        kind = self.r.choice(["var", "let", "let", "const"])
        if self.chance("p.dupdecl") and self.scopes[-1]:
            nm = self.r.choice(list(self.scopes[-1]))       # provokes an early error (or a legal var redeclaration)
        else:
            nm = self.new_name()
            if nm in self.scopes[-1]:
                nm = self.fresh()
        init = self.expr()
        callable_ = None
        if kind == "const" and init["t"] in ("fn", "arrow") and not any(p.get("rest") for p in init["params"]):
            callable_ = len(init["params"])
        if kind != "const" and self.r.random() < 0.15:
            init = 0
        if self.chance("p.tdz") and self.pending_tdz:
            t = self.fresh("t")
            self.pending_tdz[-1].append(t)
            init = binary("+", ident(t), num(1))
        self.declare(nm, kind, callable_, opaque=bool(init) and init["t"] in ("fn", "arrow", "genfn", "classexpr"))
        return N(kind, decls=[decl(nm, init)])

    def s_assign(self, d, fn_top):
        e = self.e_assign(1)
        return expr(e) if e is not None else None

    def s_expr(self, d, fn_top): return expr(self.expr())

    def s_print(self, d, fn_top):
        vs = self.visible()
        args = [ident(self.r.choice(vs)) if vs and self.r.random() < 0.6 else self.expr(1) for _ in range(self.r.randint(1, 3))]
        return print_(*args)

    def body_block(self, d, n=None):
        return block(*self.stmts(d + 1, n or self.r.randint(1, self.w["max_stmts"] // 2 + 1)))

    def s_if(self, d, fn_top):
        return if_(self.expr(1), self.body_block(d), self.body_block(d) if self.r.random() < 0.4 else 0)

    def loop_body(self, d, label=""):
        self.loops.append(label)
        b = self.body_block(d)
        self.loops.pop()
        return b

    def maybe_label(self, mk):
        if self.r.random() < 0.25:
            l = self.fresh("L")
            return labeled(l, mk(l))
        return mk("")

    def s_for(self, d, fn_top):
        i = self.fresh("i")
        n = self.r.choice([1, 2, 2, 3])
        kind = self.r.choice(["let", "let", "var"])

        def mk(l):
            self.scopes.append({})
            self.scopes[-1][i] = {"kind": "const", "callable": None, "opaque": False}   # readable, never a generated assignment target
            b = self.loop_body(d, l)
            self.scopes.pop()
            return for_(N(kind, decls=[decl(i, num(0))]), binary("<", ident(i), num(n)), update("++", self.r.random() < 0.5, ident(i)), b)
        return self.maybe_label(mk)

    def s_while(self, d, fn_top):
        w = self.fresh("w")
        n = self.r.choice([1, 2, 3])
        r = self.maybe_label(lambda l: while_(binary(">", update("--", False, ident(w)), num(0)), self.loop_body(d, l)))
        return block(let(w, num(n)), r) if self.r.random() < 0.5 else N("block", body=[N("var", decls=[decl(w, num(n))]), r])

    def s_dowhile(self, d, fn_top):
        w = self.fresh("w")
        n = self.r.choice([0, 1, 2])
        r = self.maybe_label(lambda l: dowhile(self.loop_body(d, l), binary(">", update("--", False, ident(w)), num(0))))
        return block(let(w, num(n)), r)

    def s_block(self, d, fn_top): return self.body_block(d)

    def s_try(self, d, fn_top):
        k = self.r.random()
        b = self.body_block(d)
        if self.r.random() < 0.5:
            b["body"].insert(self.r.randint(0, len(b["body"])), throw(self.expr(2) if self.r.random() < 0.6 else new(ident("Error"), string("e"))))
        h = f = 0
        p = 0
        if k < 0.75:
            self.scopes.append({})
            if self.r.random() < 0.8:
                p = self.fresh("e")
                self.declare(p, "let", opaque=True)
            h = self.body_block(d)
            self.scopes.pop()
        if k >= 0.45:
            f = self.body_block(d, 1 if self.r.random() < 0.7 else 2)
        return try_(b, p, h, f)

    def s_throw(self, d, fn_top): return throw(self.expr(2))

    def s_fundecl(self, d, fn_top):
        if self.fn_depth >= 2 or (not fn_top and not self.strict):
            return None
        nm = self.fresh("f")
        ps, body = self.func_parts(d)
        self.declare(nm, "fn", None if any(p.get("rest") for p in ps) else len(ps))
        return function(nm, ps, body)

    def s_return(self, d, fn_top):
        if self.fn_depth == 0:
            return None
        return return_(self.expr(1) if self.r.random() < 0.85 else 0)

    def s_break(self, d, fn_top):
        targets = [l for l in self.loops + self.labels if l] + ([""] if (self.loops or self.in_switch) else [])
        if not targets:
            return None
        return if_(self.expr(2), break_(self.r.choice(targets))) if self.r.random() < 0.6 else break_(self.r.choice(targets))

    def s_continue(self, d, fn_top):
        if not self.loops:
            return None
        targets = [l for l in self.loops if l] + [""]
        return if_(self.expr(2), continue_(self.r.choice(targets))) if self.r.random() < 0.6 else continue_(self.r.choice(targets))

    def s_labeled(self, d, fn_top):
        l = self.fresh("L")
        self.labels.append(l)
        saved = self.loops
        b = self.body_block(d)
        self.labels.pop()
        return labeled(l, b)

    def s_switch(self, d, fn_top):
        self.in_switch += 1
        self.scopes.append({})
        cases = []
        vals = [num(0), num(1), num(2), string("a"), string("1")]
        dflt_at = self.r.choice([-1, 0, 1, 2])
        for ci in range(self.r.randint(1, 3)):
            body = self.stmts(d + 1, self.r.randint(0, 2), fn_body=True, in_case=True)      # one scope for the whole case block
            if self.r.random() < 0.5:
                body.append(break_())
            cases.append(case(0 if ci == dflt_at else self.r.choice(vals), *body))
        self.scopes.pop()
        self.in_switch -= 1
        saved_loops = self.loops
        return switch(self.expr(2), *cases)

    def s_forin(self, d, fn_top):
        x = self.fresh("k")

        def mk(l):
            self.scopes.append({})
            self.scopes[-1][x] = {"kind": "const", "callable": None, "opaque": False}
            b = self.loop_body(d, l)
            self.scopes.pop()
            return forin(self.r.choice(["let", "const", "var"]), x, self.e_object(1) if self.r.random() < 0.6 else self.var_ref(), b)
        return self.maybe_label(mk)

    def s_forof(self, d, fn_top):
        x = self.fresh("x")

        def mk(l):
            self.scopes.append({})
            self.scopes[-1][x] = {"kind": "const", "callable": None, "opaque": False}
            b = self.loop_body(d, l)
            self.scopes.pop()
            return forof(self.r.choice(["let", "const", "var"]), x, self.e_array(1), b)
        return self.maybe_label(mk)

    def s_destruct(self, d, fn_top):
        kind = self.r.choice(["let", "const", "var"])
        names = [self.fresh() for _ in range(3)]
        for nm in names:
            self.declare(nm, kind)
        if self.r.random() < 0.5:
            pat = arraypat(ident(names[0]), pelem(ident(names[1]), self.literal()), prest(ident(names[2])))
            src = self.e_array(1)
        else:
            pat = objectpat(pprop("a", ident(names[0])), pprop("b", ident(names[1]), self.literal()), rest=ident(names[2]))
            src = self.e_object(1)
        return N(kind, decls=[decl(pat, src)])

    def s_class(self, d, fn_top): return None

    def program(self):
        self.strict = self.chance("p.strict")
        self.scopes = [{}]
        body = self.stmts(0, self.r.randint(3, self.w["max_stmts"] + 2), top=True)
        vs = self.visible(lambda i: i["kind"] in ("var", "let", "const"))
        if vs:
            body.append(print_(*[unary("typeof", ident(v)) if self.r.random() < 0.2 else ident(v) for v in self.r.sample(vs, min(3, len(vs)))]))
        return program(body, strict=self.strict)


def gen_program(seed, profile="c01"):
    """One random program; `seed` is an int or a random.Random."""
    rng = seed if isinstance(seed, random.Random) else random.Random(seed)
    return Gen(rng, profile).program()


def gen_programs(seed, n, profile="c01"):
    rng = random.Random(seed)
    return [Gen(random.Random(rng.getrandbits(48)), profile).program() for _ in range(n)]



# ------------------------------------------------------------------------------------------- shrinking
import copy

_STMT_LISTS = {"program": "body", "block": "body", "function": "body", "generator": "body", "fn": "body", "genfn": "body",
               "arrow": "body", "method": "body", "case": "body"}
_STMT_KINDS = {"var", "let", "const", "function", "generator", "class", "expr", "block", "if", "empty", "while", "dowhile", "for",
               "forin", "forof", "labeled", "break", "continue", "return", "throw", "try", "switch", "print"}
_EXPR_FIELDS = {"e", "l", "r", "c", "a", "b", "o", "k", "f", "v", "init", "default", "d", "test", "obj", "iter", "update", "ebody"}


def _paths(node, path=()):
    yield path, node
    for f, _ in SCHEMA[node["t"]]:
        v = node.get(f)
        if isinstance(v, dict) and "t" in v and f != "val":
            yield from _paths(v, path + ((f, None),))
        elif isinstance(v, list):
            for i, x in enumerate(v):
                if isinstance(x, dict) and "t" in x:
                    yield from _paths(x, path + ((f, i),))


def _get(root, path):
    n = root
    for f, i in path:
        n = n[f] if i is None else n[f][i]
    return n


def _set(root, path, val):
    n = _get(root, path[:-1])
    f, i = path[-1]
    if i is None:
        n[f] = val
    else:
        n[f][i] = val


def _is_expr(n):
    return n["t"] not in _STMT_KINDS and n["t"] not in ("program", "decl", "param", "case", "prop", "cmember", "pelem", "prest",
                                                        "pprop", "arraypat", "objectpat", "hole", "spread", "method")


def variants(ast, limit=400):
    """one-step simplifications of a program: delete a statement, unwrap a compound statement, replace an expression
    by an operand or by a literal.  Smaller candidates first within each class."""
    out = []
    allp = list(_paths(ast))
    # 0. keep one half / a single statement of a long statement list (fast reduction of long lists)
    for path, n in allp:
        lf = _STMT_LISTS.get(n["t"])
        if lf and len(n[lf]) >= 3:
            L = len(n[lf])
            keeps = [list(range(0, L // 2)), list(range(L // 2, L))] + ([[i] for i in range(L)] if not path else [])
            for ks in keeps:
                c = copy.deepcopy(ast)
                node = _get(c, path)
                node[lf] = [node[lf][i] for i in ks]
                out.append(c)
    # 1. delete a statement from a statement list (largest statements first)
    dels = []
    for path, n in allp:
        lf = _STMT_LISTS.get(n["t"])
        if lf:
            for i, st in enumerate(n[lf]):
                dels.append((-size(st), path, lf, i))
    dels.sort(key=lambda x: x[0])
    for _, path, lf, i in dels:
        c = copy.deepcopy(ast)
        del _get(c, path)[lf][i]
        out.append(c)
    # 2. unwrap compound statements
    for path, n in allp:
        if not path or n["t"] not in _STMT_KINDS or path[-1][0] in ("b", "h", "f"):
            continue
        subs = []
        t = n["t"]
        if t == "if":
            subs = [n["a"]] + ([n["b"]] if n.get("b") else [])
        elif t in ("while", "dowhile", "for", "forin", "forof", "labeled"):
            subs = [n["s"]]
        elif t == "try":
            subs = [x for x in (n["b"], n.get("h"), n.get("f")) if x]
        elif t == "block" and len(n["body"]) == 1:
            subs = [n["body"][0]]
        for sub in subs:
            c = copy.deepcopy(ast)
            _set(c, path, copy.deepcopy(sub))
            out.append(c)
    # 3. expressions: replace by an operand, or by a literal
    for path, n in allp:
        if not path or not _is_expr(n) or path[-1][0] in ("target", "params", "decls", "p"):
            continue
        if n["t"] in ("lit",):
            continue
        subs = [ch for f, ch in children(n) if _is_expr(ch) and f != "target"]
        for sub in subs + [num(0), undef()]:
            c = copy.deepcopy(ast)
            _set(c, path, copy.deepcopy(sub))
            out.append(c)
    return out[:limit]


def shrink_many(asts, failing_batch, max_rounds=30, limit=60, log=None):
    """Greedy shrinking of several programs at once (one oracle batch per round).
    failing_batch(list of (program index, candidate)) -> list of bools."""
    cur = list(asts)
    active = set(range(len(cur)))
    for rnd in range(max_rounds):
        cands = []
        for i in sorted(active):
            n = 0
            for c in variants(cur[i], limit * 3):
                try:
                    flatten(c)
                    render(c)
                except Exception:
                    continue
                cands.append((i, c))
                n += 1
                if n >= limit:
                    break
        if not cands:
            break
        res = failing_batch(cands)
        progressed = set()
        for (i, c), bad in zip(cands, res):
            if bad and i not in progressed:
                cur[i] = c
                progressed.add(i)
        if log:
            log("shrink round %d: %d candidates, %d programs progressed" % (rnd, len(cands), len(progressed)))
        active = progressed
        if not active:
            break
    return cur


def shrink(ast, failing_batch, max_rounds=40, limit=300):
    """Greedy batch shrinking. failing_batch(list of programs) -> list of bools ("still fails").
    Returns a locally minimal failing program."""
    cur = ast
    for _ in range(max_rounds):
        cands = []
        for c in variants(cur, limit):
            try:
                flatten(c)
                render(c)
            except Exception:
                continue
            cands.append(c)
        if not cands:
            break
        res = failing_batch(cands)
        nxt = None
        for c, bad in zip(cands, res):
            if bad:
                nxt = c
                break
        if nxt is None:
            break
        cur = nxt
    return cur



# ------------------------------------------------------------------------------------------- interaction grids
# Deterministic template x hole families (DESIGN.md 5/C01).  grids(tier) -> list of (name, program AST).
import itertools

I = ident
S = string


def _p(*parts): return print_(*parts)


def _guard(stmts, tag="E"):
    """try { stmts } catch (e) { print(tag, e) }"""
    return try_(block(*stmts), "e", block(print_(S(tag), I("e"))))


def grid_exits(tier):
    """{exit kind} x {finally nesting 0..2} x {loop form} x {catch present} x {finalizer overrides}"""
    out = []
    loops = ["while", "dowhile", "for", "forof", "forin", "switch", "block"]
    exits = ["break", "continue", "breakL", "continueL", "return", "throw", "fallthrough"]
    nests = [0, 1, 2] if tier == "quick" else [0, 1, 2, 3]
    for loop, ex, nest, catch, over in itertools.product(loops, exits, nests, [False, True], ["", "break", "return"]):
        if ex in ("continue", "continueL") and loop in ("switch", "block"):
            continue
        if ex == "break" and loop == "block":
            continue
        if nest == 0 and (catch or over):
            continue
        if over == "break" and loop == "block":
            continue
        if over and nest != 1:
            continue
        exit_stmt = {"break": break_(), "continue": continue_(), "breakL": break_("L"), "continueL": continue_("L"),
                     "return": return_(num(1)), "throw": throw(num(2)), "fallthrough": _p(S("x"))}[ex]
        inner = [if_(binary("==", I("i"), num(0)), exit_stmt)] if loop not in ("switch", "block") else [exit_stmt]
        body = inner
        for lv in range(1, nest + 1):
            fin = [_p(S("f%d" % lv))]
            if over and lv == 1:
                fin.append(break_() if over == "break" else return_(num(7)))
            body = [try_(block(_p(S("t%d" % lv)), *body),
                         ("e" if catch else 0), (block(_p(S("c%d" % lv), I("e"))) if catch else 0), block(*fin))]
        body = body + [_p(S("after"), I("i"))]
        if loop == "while":
            lp = block(let("i", num(-1)), labeled("L", while_(binary("<", update("++", True, I("i")), num(2)), block(*body))))
        elif loop == "dowhile":
            lp = block(let("i", num(-1)), labeled("L", dowhile(block(expr(update("++", False, I("i"))), *body), binary("<", I("i"), num(1)))))
        elif loop == "for":
            lp = labeled("L", for_(N("let", decls=[decl("i", num(0))]), binary("<", I("i"), num(2)), update("++", False, I("i")), block(*body)))
        elif loop == "forof":
            lp = labeled("L", forof("const", "i", array(num(0), num(1)), block(*body)))
        elif loop == "forin":
            lp = labeled("L", forin("let", "k", obj(prop("p", num(0)), prop("q", num(1))),
                                    block(let("i", cond(binary("==", I("k"), S("p")), num(0), num(1))), *body)))
        elif loop == "switch":
            lp = block(let("i", num(0)), labeled("L", switch(num(1), case(num(1), *body), case(num(2), _p(S("case2"))))))
        else:
            lp = block(let("i", num(0)), labeled("L", block(*body)))
        f = function("f", [], [_p(S("a")), lp, _p(S("end")), return_(num(9))])
        main = _guard([_p(call(I("f")))], "caught")
        out.append(("exit/%s/%s/n%d/%s/%s" % (loop, ex, nest, "c" if catch else "-", over or "-"), program([f, main])))
    return out


def grid_generator_exits(tier):
    """yield inside try/finally nests, resumed with next / return / throw; for-of early exit closes the generator"""
    out = []
    for nest, catch, how, finy in itertools.product([0, 1, 2], [False, True], ["next", "return", "throw", "forof-break", "spread"], [False, True]):
        if nest == 0 and (catch or finy):
            continue
        body = [let("r", yield_(num(1))), _p(S("r"), I("r"))]
        for lv in range(1, nest + 1):
            fin = [_p(S("f%d" % lv))]
            if finy and lv == 1:
                fin.append(expr(yield_(num(50))))
            body = [try_(block(_p(S("t%d" % lv)), *body), ("e" if catch else 0), (block(_p(S("c%d" % lv), I("e"))) if catch else 0), block(*fin))]
        g = generator("g", [], [_p(S("start")), *body, expr(yield_(num(2))), return_(num(3))])
        show = lambda e: [let("x", e), _p(member(I("x"), "value"), member(I("x"), "done"))]
        if how in ("next", "return", "throw"):
            second = {"next": call(member(I("it"), "next"), S("n")), "return": call(member(I("it"), "return"), S("R")),
                      "throw": call(member(I("it"), "throw"), S("T"))}[how]
            use = [let("it", call(I("g"))), block(*show(call(member(I("it"), "next")))), block(*show(second)),
                   block(*show(call(member(I("it"), "next")))), block(*show(call(member(I("it"), "next"))))]
        elif how == "forof-break":
            use = [forof("const", "v", call(I("g")), block(_p(S("v"), I("v")), break_()))]
        else:
            use = [_p(member(array(spread(call(I("g")))), "length"))]
        out.append(("gen/n%d/%s/%s/%s" % (nest, "c" if catch else "-", how, "y" if finy else "-"), program([g, _guard(use, "caught")])))
    return out


def grid_bindings(tier):
    out = []
    # T1: read / write before initialisation, by declaration kind and place
    decls = {"var": lambda: var("x", num(1)), "let": lambda: let("x", num(1)), "const": lambda: const("x", num(1)),
             "function": lambda: function("x", [], []), "class": lambda: class_("x", [])}
    reads = {"value": lambda: _p(I("x")), "typeof": lambda: _p(unary("typeof", I("x"))),
             "closure": lambda: _p(call(arrow([], ebody=unary("typeof", I("x"))))), "write": lambda: expr(assign(I("x"), num(2)))}
    for strict in (False, True):
        for dk, rk, place in itertools.product(decls, reads, ["script", "function", "block", "case-skip", "case-fall"]):
            if dk == "function" and place in ("block", "case-skip", "case-fall") and not strict:
                continue
            seqn = [_guard([reads[rk]()]), decls[dk](), _guard([reads[rk]()])]
            if place == "script":
                body = seqn
            elif place == "function":
                body = [function("f", [], seqn), expr(call(I("f")))]
            elif place == "block":
                body = [block(*seqn)]
            elif place == "case-skip":     # the declaration's clause is skipped: the binding stays uninitialised
                body = [switch(num(1), case(num(0), decls[dk]()), case(num(1), _guard([reads[rk]()])))]
            else:
                body = [switch(num(0), case(num(0), _guard([reads[rk]()]), decls[dk]()), case(num(1), _guard([reads[rk]()])))]
            out.append(("tdz/%s/%s/%s/%s" % (dk, rk, place, "strict" if strict else "sloppy"), program(body, strict=strict)))
    # T2: closures captured in the parts of a for loop
    for kind, where, mutate in itertools.product(["var", "let"], ["init", "test", "update", "body"], [False, True]):
        cap = call(member(I("fs"), "push"), arrow([], ebody=I("i")))
        init = N(kind, decls=[decl("i", seq(cap, num(0)) if where == "init" else num(0))])
        test = binary("<", I("i"), num(3))
        if where == "test":
            test = seq(cap, test)
        upd = update("++", False, I("i"))
        if where == "update":
            upd = seq(cap, upd)
        body = []
        if where == "body":
            body.append(expr(cap))
        if mutate:
            body.append(expr(assign(I("i"), num(1), "+=")))
        body.append(_p(S("it"), I("i")))
        prog = program([let("fs", array()), for_(init, test, upd, block(*body)),
                        forof("const", "f", I("fs"), block(_p(call(I("f")))))])
        out.append(("forclosure/%s/%s/%s" % (kind, where, "mut" if mutate else "-"), prog))
    # T3: parameter scope: default-parameter closures against body declarations
    bodies = {"none": [], "var": [var("a", num(5))], "var-noinit": [var("a")], "function": [function("a", [], [])],
              "assign": [expr(assign(I("a"), num(6)))], "let-b": [let("z", num(0))]}
    for bk, passed, strict in itertools.product(bodies, [False, True], [False, True]):
        f = function("f", [param("a"), param("b", default=arrow([], ebody=I("a"))), param("c", default=I("a"))],
                     bodies[bk] + [_p(unary("typeof", I("a")), unary("typeof", call(I("b"))), I("c")),
                                   expr(assign(I("a"), num(8))), _p(I("a"), unary("typeof", call(I("b"))))])
        prog = program([f, _guard([expr(call(I("f"), *([num(1)] if passed else [])))])], strict=strict)
        out.append(("paramscope/%s/%s/%s" % (bk, "arg" if passed else "noarg", "strict" if strict else "sloppy"), prog))
    # later parameters are in TDZ for earlier defaults; arguments object; duplicate/shadowed names
    for strict in (False, True):
        out.append(("paramtdz/%s" % strict, program([function("f", [param("a", default=I("b")), param("b", default=num(1))], [_p(I("a"), I("b"))]),
                                                      _guard([expr(call(I("f")))]), _guard([expr(call(I("f"), num(2)))])], strict=strict)))
        out.append(("fnname/%s" % strict, program([let("g", fn([], [_guard([expr(assign(I("h"), num(1)))]), _p(unary("typeof", I("h")))], name="h")),
                                                    expr(call(I("g"))), _p(unary("typeof", I("h")))], strict=strict)))
        out.append(("constassign/%s" % strict, program([const("k", num(1)), _guard([expr(assign(I("k"), num(2)))]), _guard([expr(update("++", False, I("k")))]), _p(I("k"))], strict=strict)))
        out.append(("undeclared/%s" % strict, program([_guard([expr(assign(I("u"), num(1)))]), _p(unary("typeof", I("u")))], strict=strict)))
    # early errors
    early = {
        "let-let": [let("a", num(1)), let("a", num(2))], "let-var": [let("a", num(1)), var("a", num(2))],
        "var-let": [var("a", num(1)), let("a", num(2))], "const-fn": [const("a", num(1)), function("a", [], [])],
        "var-var": [var("a", num(1)), var("a", num(2)), _p(I("a"))], "fn-fn": [function("a", [], [return_(num(1))]), function("a", [], [return_(num(2))]), _p(call(I("a")))],
        "class-let": [class_("a", []), let("a", num(1))],
        "block-let-var": [block(let("a", num(1)), block(var("a", num(2))))],
        "catch-let": [try_(block(), "e", block(let("e", num(1))))],
        "catch-var": [try_(block(throw(num(1))), "e", block(var("e", num(2)), _p(I("e")))), _p(I("e"))],
        "for-let-var": [for_(N("let", decls=[decl("i", num(0))]), boolean(False), 0, block(var("i")))],
        "label-dup": [labeled("L", labeled("L", block()))], "break-nolabel": [block(break_("Q"))], "continue-block": [labeled("L", block(continue_("L")))],
        "break-top": [break_()], "return-top": [return_(num(1))],
    }
    for nm, body in early.items():
        for where in ("script", "function", "arrow"):
            for strict in (False, True):
                b = [_p(S("start"))] + body
                if where == "function":
                    b = [_p(S("start")), function("f", [], body), expr(call(I("f")))]
                elif where == "arrow":
                    b = [_p(S("start")), expr(call(arrow([], body=body)))]
                if nm == "return-top" and where != "script":
                    continue
                out.append(("early/%s/%s/%s" % (nm, where, "strict" if strict else "sloppy"), program(b, strict=strict)))
    for strict in (False, True):
        out.append(("early/param-let/%s" % strict, program([_p(S("start")), function("f", params("a"), [let("a", num(1))])], strict=strict)))
        out.append(("early/param-dup/%s" % strict, program([_p(S("start")), function("f", params("a", "a"), [return_(I("a"))]), _p(call(I("f"), num(1), num(2)))], strict=strict)))
        out.append(("early/param-dup-arrow/%s" % strict, program([_p(S("start")), let("f", arrow(params("a", "a"), ebody=I("a")))], strict=strict)))
    return out


def operand_classes():
    def logobj(tag, **kw):
        ps = []
        for k, ret in kw.items():
            if k == "prim":
                ps.append(cprop(member(I("Symbol"), "toPrimitive"), fn(params("h"), [_p(S(tag + ":prim"), I("h")), return_(ret)])))
            else:
                ps.append(prop(k, fn([], [_p(S(tag + ":" + k)), return_(ret)])))
        return obj(*ps)
    return {
        "int": lambda t: num(7), "neg": lambda t: num(-2), "zero": lambda t: num(0), "nz": lambda t: num("nz"), "nan": lambda t: num("nan"),
        "inf": lambda t: num("pinf"), "strnum": lambda t: S("3"), "str": lambda t: S("a"), "empty": lambda t: S(""), "true": lambda t: boolean(True),
        "null": lambda t: null(), "undef": lambda t: undef(),
        "objV": lambda t: logobj(t, valueOf=num(4)), "objS": lambda t: logobj(t, toString=S("5")),
        "objVS": lambda t: logobj(t, valueOf=num(4), toString=S("5")), "objVobj": lambda t: logobj(t, valueOf=obj(), toString=S("6")),
        "objP": lambda t: logobj(t, prim=num(8), valueOf=num(4)), "objBad": lambda t: logobj(t, valueOf=obj(), toString=obj()),
        "plain": lambda t: obj(), "arr": lambda t: array(num(1)), "arr2": lambda t: array(num(1), num(2)), "sym": lambda t: call(I("Symbol"), S("s")),
    }


def grid_operators(tier):
    out = []
    cls = operand_classes()
    prim = ["int", "neg", "zero", "nz", "nan", "inf", "strnum", "str", "empty", "true", "null", "undef"]
    objs = ["objV", "objS", "objVS", "objVobj", "objP", "objBad", "plain", "arr", "arr2", "sym"]
    ops = ["+", "-", "*", "/", "%", "**", "<<", ">>", ">>>", "&", "|", "^", "==", "!=", "===", "!==", "<", ">", "<=", ">="]
    for op in ops:
        for lc in cls:
            if tier == "quick" and op not in ("+", "<", "==") and lc not in ("objVS", "objP", "sym"):
                continue
            stmts = []
            for rc in cls:
                if op == "/" and not (lc in objs or rc in objs or rc in ("zero", "nz", "nan", "inf", "null", "undef", "str", "empty") or lc in ("zero", "nz", "nan", "inf")):
                    continue
                stmts.append(_guard([_p(S(rc), binary(op, cls[lc]("L"), cls[rc]("R")))]))
            out.append(("binop/%s/%s" % (op, lc), program(stmts)))
    for lc in cls:
        stmts = []
        for op in ["-", "+", "!", "~", "typeof", "void"]:
            stmts.append(_guard([_p(S(op), unary(op, cls[lc]("U")))]))
        stmts.append(_guard([_p(S("tpl"), template(["<", ">"], [cls[lc]("T")]))]))
        stmts.append(_guard([_p(S("key"), index(obj(prop("4", S("four")), prop("5", S("five")), prop("a", S("A"))), cls[lc]("K")))]))
        for uop, pre in (("++", True), ("--", False)):
            stmts.append(_guard([let("v", cls[lc]("V")), _p(S(uop), update(uop, pre, I("v")), I("v"))]))
        for aop in ("+=", "-=", "&&=", "||=", "??="):
            stmts.append(_guard([let("v", cls[lc]("A")), _p(S(aop), assign(I("v"), num(1), aop), I("v"))]))
        stmts.append(_guard([let("o", obj(prop("p", cls[lc]("M")))), _p(S("m++"), update("++", False, member(I("o"), "p")), member(I("o"), "p"))]))
        out.append(("unop/%s" % lc, program(stmts)))
    # evaluation order of operands and assignment targets
    tr = lambda tag, e: seq(call(I("t"), S(tag)), e)
    t = function("t", params("x"), [_p(S("ev"), I("x"))])
    order = {
        "binary": binary("+", tr("l", num(1)), tr("r", num(2))),
        "member-assign": assign(index(tr("o", I("ob")), tr("k", S("a"))), tr("v", num(3))),
        "member-compound": assign(index(tr("o", I("ob")), tr("k", S("a"))), tr("v", num(3)), "+="),
        "call": call(member(tr("o", I("ob")), "m"), tr("a1", num(1)), tr("a2", num(2))),
        "local-alias": binary("+", I("x1"), assign(I("x1"), num(5))),
        "local-alias-mul": binary("*", I("x1"), update("++", False, I("x1"))),
        "null-assign": assign(member(I("nul"), "p"), tr("rhs", num(1))),
        "cond": cond(tr("c", num(0)), tr("a", num(1)), tr("b", num(2))),
        "logical": logical("??", tr("l", null()), tr("r", num(2))),
        "new": new(tr("f", I("C")), tr("a", num(1))),
        "notfn": call(tr("f", undef()), tr("a", num(1))),
        "string-update": update("++", False, I("s1")),
    }
    for nm, e in order.items():
        for where in ("script", "function"):
            setup = [t, let("ob", obj(prop("a", num(1)), prop("m", fn(params("p", "q"), [return_(binary("+", I("p"), I("q")))])))),
                     let("nul", null()), function("C", params("z"), [])]
            core = [let("x1", num(1)), let("s1", S("5")), _guard([_p(S("res"), e)]), _p(I("x1"), I("s1"), member(I("ob"), "a"))]
            body = setup + (core if where == "script" else [function("w", [], core), expr(call(I("w")))])
            out.append(("order/%s/%s" % (nm, where), program(body)))
    return out


def grid_destructuring(tier):
    out = []
    A, B, R = I("a"), I("b"), I("r")
    pats = {
        "[a]": (lambda: arraypat(A), ["a"]), "[a,b]": (lambda: arraypat(A, B), ["a", "b"]), "[a=9]": (lambda: arraypat(pelem(A, num(9))), ["a"]),
        "[,a]": (lambda: arraypat(hole(), A), ["a"]), "[...r]": (lambda: arraypat(prest(R)), ["r"]), "[a,...r]": (lambda: arraypat(A, prest(R)), ["a", "r"]),
        "{a}": (lambda: objectpat(pprop("a")), ["a"]), "{a:b}": (lambda: objectpat(pprop("a", B)), ["b"]), "{a=9}": (lambda: objectpat(pprop("a", A, num(9))), ["a"]),
        "{a:{b}}": (lambda: objectpat(pprop("a", objectpat(pprop("b")))), ["b"]), "{a:[b]}": (lambda: objectpat(pprop("a", arraypat(B))), ["b"]),
        "{...r}": (lambda: objectpat(rest=R), ["r"]), "{a,...r}": (lambda: objectpat(pprop("a"), rest=R), ["a", "r"]),
        "{a:[b],...r}": (lambda: objectpat(pprop("a", arraypat(B)), rest=R), ["b", "r"]), "{a:{b},...r}": (lambda: objectpat(pprop("a", objectpat(pprop("b"))), rest=R), ["b", "r"]),
        "[{a}]": (lambda: arraypat(objectpat(pprop("a"))), ["a"]),
        "{[k]:a}": (lambda: objectpat(N("pprop", computed=True, k=seq(call(I("t"), S("key")), S("a")), target=A)), ["a"]),
    }
    gen_src = lambda: call(I("G"))
    srcs = {
        "[]": lambda: array(), "[1]": lambda: array(num(1)), "[1,2,3]": lambda: array(num(1), num(2), num(3)), "[[5]]": lambda: array(array(num(5))),
        "[{a:4}]": lambda: array(obj(prop("a", num(4)))), "{a:1}": lambda: obj(prop("a", num(1))), "{a:{b:2},c:3}": lambda: obj(prop("a", obj(prop("b", num(2)))), prop("c", num(3))),
        "{a:[3],b:4}": lambda: obj(prop("a", array(num(3))), prop("b", num(4))), "null": lambda: null(), "undef": lambda: undef(), "5": lambda: num(5),
        "gen": gen_src, "getters": lambda: I("GO"),
    }
    helpers = [function("t", params("x"), [_p(S("ev"), I("x")), return_(I("x"))]),
               generator("G", [], [try_(block(expr(yield_(num(1))), expr(yield_(num(2))), expr(yield_(num(3)))), 0, 0, block(_p(S("closed"))))]),
               let("GO", obj(N("prop", kind="get", key="a", v=method([], [_p(S("get a")), return_(array(num(1)))])),
                             N("prop", kind="get", key="b", v=method([], [_p(S("get b")), return_(num(2))]))))]
    show = lambda names: _p(*[(member(I(n), "length") if n == "r" and False else I(n)) for n in names])
    ctxs = ["let", "assign", "param", "forof", "catch"] if tier != "quick" else ["let", "assign", "param"]
    for (pn, (mk, names)), (sn, ms), ctx in itertools.product(pats.items(), srcs.items(), ctxs):
        if tier == "quick" and ctx == "param" and sn not in ("[1,2,3]", "{a:{b:2},c:3}", "gen", "null"):
            continue
        dump = [_p(S(n), I(n)) for n in names]
        for n in names:
            if n == "r":
                dump.append(_guard([_p(S("r.len"), member(R, "length"), S("r.a"), member(R, "a"), S("r.b"), member(R, "b"), S("r.c"), member(R, "c"))]))
        if ctx == "let":
            core = [N("let", decls=[decl(mk(), ms())])] + dump
        elif ctx == "assign":
            core = [N("let", decls=[decl(n) for n in ["a", "b", "r"]]), expr(assign(mk(), ms()))] + dump
        elif ctx == "param":
            out.append(("destr/%s/%s/%s" % (ctx, pn, sn),
                        program(helpers + [function("f", [param(mk())], dump), _guard([expr(call(I("f"), ms()))])])))
            continue
        elif ctx == "forof":
            core = [forof("const", mk(), array(ms()), block(*dump))]
        else:
            core = [try_(block(throw(ms())), mk(), block(*dump))]
        out.append(("destr/%s/%s/%s" % (ctx, pn, sn), program(helpers + [_guard(core)])))
    return out


def grid_completion(tier):
    out = []
    E = lambda n: expr(num(n))
    stmts = {
        "if-true-empty": if_(boolean(True), block()), "if-false": if_(boolean(False), E(2)), "if-else": if_(boolean(False), E(2), E(3)),
        "if-true-val": if_(boolean(True), E(2)), "while-false": while_(boolean(False), E(2)), "do-empty": dowhile(block(), boolean(False)),
        "do-break": dowhile(block(E(2), break_()), boolean(False)), "while-break": while_(boolean(True), block(E(3), break_())),
        "while-break-empty": while_(boolean(True), block(break_())), "for-false": for_(0, boolean(False), 0, E(2)),
        "for-continue": for_(N("let", decls=[decl("i", num(0))]), binary("<", I("i"), num(2)), update("++", False, I("i")), block(E(4), continue_())),
        "block-empty": block(), "block-val": block(E(5)), "label-break": labeled("L", block(E(4), break_("L"))), "label-break-empty": labeled("L", block(break_("L"))),
        "try-finally": try_(block(E(5)), 0, 0, block(E(6))), "try-empty-finally": try_(block(), 0, 0, block(E(6))), "try-catch": try_(block(throw(num(1))), "e", block(E(7))),
        "try-catch-empty": try_(block(throw(num(1))), "e", block()), "switch-nomatch": switch(num(1), case(num(2), E(8))), "switch-match": switch(num(1), case(num(1), E(8))),
        "switch-empty-case": switch(num(1), case(num(1))), "switch-break": switch(num(1), case(num(1), E(8), break_())), "var": var("q", num(9)), "let": let("q", num(9)),
        "function": function("q", [], []), "empty": N("empty"), "forof": forof("const", "x", array(num(1), num(2)), E(7)), "forof-empty": forof("const", "x", array(num(1)), block()),
        "forin-empty": forin("const", "x", obj(), E(7)), "class": class_("Q", []), "if-break-in-loop": dowhile(block(E(2), if_(boolean(True), break_())), boolean(False)),
        "try-break-finally": dowhile(block(E(2), try_(block(break_()), 0, 0, block(E(3)))), boolean(False)),
    }
    for nm, st in stmts.items():
        for pre in (True, False):
            for strict in (False, True):
                out.append(("completion/%s/%s/%s" % (nm, "pre" if pre else "-", "strict" if strict else "sloppy"),
                            program(([E(1)] if pre else []) + [copy.deepcopy(st)], strict=strict)))
    return out


def grid_classes(tier):
    out = []
    C = I("C")
    base = lambda extra=[]: class_("A", [ctor(params("x"), [_p(S("A.ctor"), I("x")), expr(assign(member(this(), "x"), I("x")))]),
                                        cmethod("m", [], [return_(S("A.m"))]), cmethod("s", [], [return_(S("A.s"))], static=True)] + extra)
    cases = {
        "field-order": [class_("C", [cfield("a", seq(call(I("t"), S("a")), num(1))), ctor([], [_p(S("ctor"), member(this(), "a"), member(this(), "b"))]),
                                     cfield("b", seq(call(I("t"), S("b")), member(this(), "a"))), cfield("s", seq(call(I("t"), S("static")), num(3)), static=True)]),
                        _p(S("defined")), let("c", new(C)), _p(member(I("c"), "a"), member(I("c"), "b"), member(C, "s"))],
        "derived-this-tdz": [base(), class_("C", [ctor([], [_guard([_p(this())]), expr(super_call(num(1))), _p(member(this(), "x")), _guard([expr(super_call(num(2)))])])], super_=I("A")), expr(new(C))],
        "derived-no-super": [base(), class_("C", [ctor([], [])], super_=I("A")), _guard([expr(new(C))])],
        "derived-return-obj": [base(), class_("C", [ctor([], [return_(obj(prop("k", num(1))))])], super_=I("A")), _p(member(new(C), "k"))],
        "derived-return-prim": [base(), class_("C", [ctor([], [expr(super_call(num(1))), return_(num(5))])], super_=I("A")), _guard([expr(new(C))])],
        "default-ctor": [base(), class_("C", [cmethod("m", [], [return_(binary("+", S("C.m>"), call(super_member("m"))))])], super_=I("A")),
                         let("c", new(C, num(4))), _p(call(member(I("c"), "m")), member(I("c"), "x"), binary("instanceof", I("c"), I("A")))],
        "static-inherit": [base(), class_("C", [cmethod("s", [], [return_(binary("+", S("C.s>"), call(super_member("s"))))], static=True)], super_=I("A")), _p(call(member(C, "s")))],
        "call-without-new": [base(), _guard([expr(call(I("A"), num(1)))])],
        "class-tdz": [_guard([expr(new(C))]), class_("C", []), _p(unary("typeof", C))],
        "class-inner-binding": [class_("C", [cmethod("m", [], [_guard([expr(assign(C, num(1)))]), return_(unary("typeof", C))])]), let("D", C), expr(assign(C, num(0))), _p(call(member(new(I("D")), "m")), C)],
        "extends-null": [class_("C", [], super_=null()), _guard([expr(new(C))]), _p(unary("typeof", C))],
        "extends-nonctor": [_guard([class_("C", [], super_=num(5))]), _guard([class_("D", [], super_=arrow([], body=[]))])],
        "accessors": [class_("C", [cmethod("v", [], [_p(S("get")), return_(num(1))], kind="get"), cmethod("v", params("z"), [_p(S("set"), I("z"))], kind="set"),
                                   cmethod("w", [], [return_(num(2))], kind="get", static=True)]), let("c", new(C)), expr(assign(member(I("c"), "v"), num(9), "+=")), _p(member(C, "w")),
                      forin("const", "k", I("c"), block(_p(S("enum"), I("k"))))],
        "computed-order": [class_("C", [N("cmember", kind="method", computed=True, k=call(I("t"), S("k1")), v=method([], [])),
                                        N("cmember", kind="field", computed=True, k=call(I("t"), S("k2")), v=call(I("t"), S("v2"))),
                                        N("cmember", kind="method", static=True, computed=True, k=call(I("t"), S("k3")), v=method([], []))]), _p(S("def")), expr(new(C))],
        "generator-method": [class_("C", [cmethod("g", [], [expr(yield_(num(1))), expr(yield_(member(this(), "q")))], gen=True), cfield("q", num(2))]), _p(array(spread(call(member(new(C), "g")))))],
        "super-in-arrow": [base(), class_("C", [ctor([], [let("f", arrow([], body=[expr(super_call(num(3)))])), expr(call(I("f"))), _p(member(this(), "x"))]),
                                               cmethod("m", [], [return_(call(arrow([], ebody=call(super_member("m")))))])], super_=I("A")), _p(call(member(new(C), "m")))],
        "new-target": [function("F", [], [_p(binary("===", N("newtarget"), I("F")), unary("typeof", N("newtarget")))]), expr(new(I("F"))), expr(call(I("F")))],
        "proto-chain": [base(), class_("C", [], super_=I("A")), let("c", new(C, num(1))),
                        _p(binary("instanceof", I("c"), C), binary("instanceof", I("c"), I("A")), binary("instanceof", obj(), C),
                           binary("===", member(I("c"), "constructor"), C), binary("in", S("m"), I("c")), binary("in", S("x"), I("c")))],
    }
    t = function("t", params("x"), [_p(S("ev"), I("x")), return_(I("x"))])
    for nm, body in cases.items():
        for strict in (False, True):
            out.append(("class/%s/%s" % (nm, "strict" if strict else "sloppy"), program([t] + copy.deepcopy(body), strict=strict)))
    return out


def grid_finally_inner(tier):
    """a completion pending across a finally block whose body itself handles other completions"""
    out = []
    pend = {
        "throw-try": lambda: (block(throw(new(I("Error"), S("e")))), 0),
        "throw-catch": lambda: (block(throw(num(2))), block(throw(new(I("Error"), S("e"))))),
        "return-try": lambda: (block(return_(S("ret"))), 0),
        "return-catch": lambda: (block(throw(num(2))), block(return_(S("ret")))),
        "break-catch": lambda: (block(throw(num(2))), block(break_())),
        "normal": lambda: (block(_p(S("body"))), 0),
    }
    inner = {
        "empty": lambda: [],
        "try-catch": lambda: [try_(block(throw(num(1))), "x", block(_p(S("inner caught"), I("x"))))],
        "try-catch-nobind": lambda: [try_(block(throw(num(1))), 0, block(_p(S("inner caught"))))],
        "try-finally": lambda: [try_(block(_p(S("inner try"))), 0, 0, block(_p(S("inner fin"))))],
        "loop-break": lambda: [while_(boolean(True), block(_p(S("inner loop")), break_()))],
        "call-throwing": lambda: [try_(block(expr(call(I("thrower")))), "x", block(_p(S("inner caught"), I("x"))))],
        "gen-return": lambda: [forof("const", "q", call(I("G")), block(_p(S("q"), I("q")), break_()))],
    }
    for (pn, mk), (inn, mi) in itertools.product(pend.items(), inner.items()):
        b, h = mk()
        tr = try_(b, ("e" if h else 0), h, block(_p(S("fin")), *mi(), _p(S("fin end"))))
        f = function("f", [], [dowhile(block(tr, _p(S("after try"))), boolean(False)), _p(S("end")), return_(S("fell"))])
        prog = program([function("thrower", [], [throw(S("T"))]), generator("G", [], [try_(block(expr(yield_(num(1))), expr(yield_(num(2)))), 0, 0, block(_p(S("G closed"))))]),
                        f, _guard([_p(S("result"), call(I("f")))], "caught")])
        out.append(("finally-inner/%s/%s" % (pn, inn), prog))
        if pn in ("throw-try", "throw-catch", "normal"):
            b2, h2 = mk()
            tr2 = try_(b2, ("e" if h2 else 0), h2, block(_p(S("fin")), *mi(), _p(S("fin end"))))
            out.append(("finally-inner-script/%s/%s" % (pn, inn),
                        program([function("thrower", [], [throw(S("T"))]), generator("G", [], [try_(block(expr(yield_(num(1)))), 0, 0, block(_p(S("G closed"))))]), tr2, _p(S("end"))])))
    return out


def grid_misc(tier):
    out = []
    t = function("t", params("x"), [_p(S("ev"), I("x")), return_(I("x"))])
    O = I("o")
    cases = {
        "optchain-short": [let("o", null()), _p(optchain(N("member", o=O, key="a", optional=True)), optchain(member(N("member", o=O, key="a", optional=True), "b")),
                                                optchain(N("call", f=N("member", o=O, key="f", optional=True), args=[call(I("t"), num(1))])))],
        "optchain-call": [let("o", obj(prop("f", fn([], [return_(this())])), prop("n", null()))),
                          _p(binary("===", optchain(N("call", f=member(O, "f"), args=[], optional=True)), O), optchain(N("call", f=member(O, "n"), args=[call(I("t"), num(2))], optional=True)),
                             optchain(index(N("member", o=O, key="q", optional=True), call(I("t"), num(3)))))],
        "optchain-throw": [let("o", obj()), _guard([_p(member(optchain(N("member", o=O, key="a", optional=True)), "b"))])],
        "genfn-expr": [let("g", genfn(params("a"), [let("x", yield_(I("a"))), expr(yield_(binary("+", I("x"), num(1))))], name="gg")), let("it", call(I("g"), num(5))),
                       _p(member(call(member(I("it"), "next")), "value"), member(call(member(I("it"), "next"), num(9)), "value"), member(call(member(I("it"), "next")), "done"), unary("typeof", I("gg")))],
        "classexpr": [let("K", classexpr([cmethod("m", [], [return_(unary("typeof", I("Inner")))]), cfield("v", num(3))], name="Inner")),
                      _p(call(member(new(I("K")), "m")), member(new(I("K")), "v"), unary("typeof", I("Inner")), unary("typeof", I("K")))],
        "template-order": [_p(template(["a", "b", "c"], [call(I("t"), num(1)), call(I("t"), S("x"))])), _guard([_p(template(["", ""], [call(I("Symbol"), S("s"))]))])],
        "getter-setter-order": [let("o", obj(N("prop", kind="get", key="a", v=method([], [_p(S("get a")), return_(num(1))])), N("prop", kind="set", key="a", v=method(params("v"), [_p(S("set a"), I("v"))])))),
                                expr(assign(member(O, "a"), call(I("t"), num(2)), "+=")), expr(update("++", False, member(O, "a"))), expr(assign(member(O, "a"), num(1), "||=")), expr(assign(member(O, "a"), num(5), "&&="))],
        "arguments-strict": [function("f", params("a"), [expr(assign(I("a"), num(9))), _p(member(I("arguments"), "length"), index(I("arguments"), num(0)), index(I("arguments"), num(1)), unary("typeof", I("arguments")))]), expr(call(I("f"), num(1), num(2)))],
        "spread-generator": [generator("g", [], [expr(yield_(num(1))), expr(yield_(num(2)))]), function("h", [param("r", rest=True)], [return_(member(I("r"), "length"))]),
                             _p(call(I("h"), spread(call(I("g"))), num(0), spread(array(num(7)))), member(array(spread(call(I("g"))), spread(call(I("g")))), "length"))],
        "spread-notiterable": [_guard([_p(array(spread(num(5))))]), _guard([_p(array(spread(undef())))]), _p(member(obj(N("prop", kind="spread", v=null()), N("prop", kind="spread", v=num(5))), "a"))],
        "delete-in": [let("o", obj(prop("a", num(1)), prop("b", num(2)))), _p(unary("delete", member(O, "a")), binary("in", S("a"), O), binary("in", S("b"), O), unary("delete", member(O, "zz"))),
                      let("arr", array(num(1), num(2), num(3))), _p(unary("delete", index(I("arr"), num(1))), member(I("arr"), "length"), index(I("arr"), num(1)), binary("in", num(1), I("arr"))), _guard([_p(binary("in", S("a"), num(5)))])],
        "hasinstance": [let("C", obj(cprop(member(I("Symbol"), "hasInstance"), fn(params("v"), [_p(S("hi"), I("v")), return_(num(1))])))), _p(binary("instanceof", num(5), I("C"))), _guard([_p(binary("instanceof", num(5), obj()))]),
                        function("F", [], []), _p(binary("instanceof", new(I("F")), I("F")), binary("instanceof", obj(), I("F")))],
        "labeled-continue": [labeled("A", for_(N("let", decls=[decl("i", num(0))]), binary("<", I("i"), num(3)), update("++", False, I("i")),
                                             block(forof("const", "j", array(num(0), num(1)), block(if_(binary("==", I("j"), num(1)), continue_("A")), _p(I("i"), I("j")))))))],
        "computed-keys": [let("o", obj(cprop(call(I("t"), S("k1")), call(I("t"), num(1))), cprop(call(I("t"), num(2)), call(I("t"), num(3))), N("prop", kind="method", computed=True, k=call(I("t"), S("m")), v=method([], [return_(num(4))])))),
                          _p(member(O, "k1"), index(O, num(2)), call(member(O, "m"))), forin("const", "k", O, block(_p(I("k"))))],
        "proto-literal": [let("p", obj(prop("inh", num(1)))), let("o", obj(prop("__proto__", I("p")), prop("own", num(2)))), _p(member(O, "inh"), member(O, "own")), forin("const", "k", O, block(_p(I("k"))))],
        "array-holes": [let("a", array(num(1), hole(), num(3), hole())), _p(member(I("a"), "length"), index(I("a"), num(1)), binary("in", num(1), I("a"))), forof("const", "v", I("a"), block(_p(I("v")))), forin("const", "k", I("a"), block(_p(I("k")))),
                        expr(assign(index(I("a"), num(6)), num(7))), _p(member(I("a"), "length")), expr(assign(member(I("a"), "length"), num(2))), _p(member(I("a"), "length"), index(I("a"), num(2)), template(["", ""], [I("a")]))],
        "tostring-order": [let("o", obj(prop("toString", fn([], [_p(S("ts")), return_(S("k"))])), prop("valueOf", fn([], [_p(S("vo")), return_(num(1))])))),
                           let("q", obj(prop("k", num(5)))), _p(index(I("q"), O), binary("+", O, S("")), template(["", ""], [O]), binary("*", O, num(2)), binary("==", O, num(1)), binary("<", O, S("2")))],
        "symbol-desc": [let("s", call(I("Symbol"))), let("t2", call(I("Symbol"), num(5))), _p(I("s"), I("t2"), unary("typeof", I("s")), binary("===", I("s"), I("s")), binary("==", I("s"), I("t2"))), _guard([_p(binary("+", I("s"), num(1)))]), _guard([expr(new(I("Symbol")))])],
        "error-objects": [let("e", new(I("TypeError"), S("msg"))), _p(I("e"), member(I("e"), "message"), member(I("e"), "name"), binary("instanceof", I("e"), I("Error")), binary("+", S(""), I("e")), call(I("RangeError"), S("r")), member(new(I("Error")), "message"))],
        "seq-void-exp": [_p(seq(call(I("t"), num(1)), call(I("t"), num(2))), unary("void", call(I("t"), num(3))), binary("**", num(2), num(10)), binary("**", num(-2), num(3)), binary("**", num(2), num(-1) if False else num(0)), binary("%", num(-7), num(3)), binary(">>>", num(-8), num(28)), binary("<<", num(1), num(33)))],
    }
    for nm, body in cases.items():
        for strict in (False, True):
            if nm == "arguments-strict" and not strict:
                continue
            out.append(("misc/%s/%s" % (nm, "strict" if strict else "sloppy"), program([t] + copy.deepcopy(body), strict=strict)))
    return out


def grid_nested_exits(tier):
    """exits that leave several constructs at once: nested iterator loops left by a labelled break/continue/return/throw
    (every iterator left must be closed, inner first), two different exits through the same try/finally nest, a finally block
    whose own conditional exit replaces the pending one, generators closed from outside while suspended inside for-of, and
    loops carrying two labels."""
    out = []
    Gd = lambda: generator("G", params("t"), [try_(block(expr(yield_(num(1))), expr(yield_(num(2)))), 0, 0, block(_p(S("closed"), I("t"))))])
    # A: nested for-of
    for depth in (2, 3):
        exits = [("break-%d" % k, lambda k=k: break_("L%d" % k)) for k in range(1, depth + 1)]
        exits += [("continue-%d" % k, lambda k=k: continue_("L%d" % k)) for k in range(1, depth + 1)]
        exits += [("break", lambda: break_()), ("return", lambda: return_(S("ret"))), ("throw", lambda: throw(S("thrown")))]
        for en, mk in exits:
            for fin in (False, True):
                body = block(_p(S("in"), I("v%d" % depth)), mk())
                if fin:
                    body = block(try_(body, 0, 0, block(_p(S("fin")))))
                st = body
                for k in range(depth, 0, -1):
                    st = labeled("L%d" % k, forof("const", "v%d" % k, call(I("G"), S("g%d" % k)), block(st, _p(S("after"), num(k)))))
                    st = block(st) if k > 1 else st
                f = function("f", [], [st, _p(S("end")), return_(S("fell"))])
                out.append(("nested/forof%d/%s/%s" % (depth, en, "fin" if fin else "plain"),
                            program([Gd(), f, _guard([_p(S("result"), call(I("f")))], "caught")])))
    # B: two different exits through the same try/finally nest, chosen by the loop index
    kinds = {"break": lambda: break_(), "continue": lambda: continue_(), "return": lambda: return_(S("ret")), "throw": lambda: throw(S("thrown")),
             "break-outer": lambda: break_("O"), "continue-outer": lambda: continue_("O"), "none": lambda: N("empty")}
    names = list(kinds)
    for depth in (1, 2, 3):
        for a, b in itertools.product(names, names):
            if a == b or a == "none":
                continue
            inner = block(if_(binary("==", I("i"), num(1)), kinds[a]()), _p(S("c"), I("i")), kinds[b]())
            st = inner
            for d in range(depth):
                st = block(try_(st, 0, 0, block(_p(S("f%d" % (d + 1))))))
            loop = for_(var("i", num(0)), binary("<", I("i"), num(3)), update("++", False, I("i")), block(st, _p(S("tail"), I("i"))))
            outer = labeled("O", for_(var("o", num(0)), binary("<", I("o"), num(2)), update("++", False, I("o")), block(_p(S("o"), I("o")), loop, _p(S("after inner")))))
            f = function("f", [], [outer, _p(S("end")), return_(S("fell"))])
            out.append(("nested/two-exits/%d/%s+%s" % (depth, a, b), program([f, _guard([_p(S("result"), call(I("f")))], "caught")])))
    # C: a finally block whose own conditional exit is or is not taken while another completion is pending
    pend = {"return": lambda: return_(S("A")), "throw": lambda: throw(S("T")), "break": lambda: break_(), "continue": lambda: continue_(), "normal": lambda: _p(S("body"))}
    fex = {"break": lambda: break_(), "continue": lambda: continue_(), "return": lambda: return_(S("F")), "break-outer": lambda: break_("O")}
    for (pn, pm), (fn_, fm) in itertools.product(pend.items(), fex.items()):
        for outerfin in (False, True):
            tr = try_(block(pm()), 0, 0, block(_p(S("fin")), if_(I("c"), fm())))
            if outerfin:
                tr = try_(block(tr), 0, 0, block(_p(S("outer fin"))))
            loop = for_(var("k", num(0)), binary("<", I("k"), num(2)), update("++", False, I("k")), block(_p(S("k"), I("k")), tr, _p(S("tail"))))
            f = function("f", params("c"), [labeled("O", dowhile(block(loop, _p(S("after loop"))), boolean(False))), _p(S("end")), return_(S("fell"))])
            out.append(("nested/finally-cond/%s/%s/%s" % (pn, fn_, "of" if outerfin else "plain"),
                        program([f, _guard([_p(S("r0"), call(I("f"), boolean(False)))], "caught0"), _guard([_p(S("r1"), call(I("f"), boolean(True)))], "caught1")])))
    # D: generator suspended inside for-of (nest 1..2, with and without try/finally) closed from outside
    for depth in (1, 2):
        for fin in (False, True):
            for how in ("return", "throw", "next-to-end"):
                body = block(expr(yield_(I("x%d" % depth))))
                if fin:
                    body = block(try_(body, 0, 0, block(_p(S("gfin")))))
                st = body
                for k in range(depth, 0, -1):
                    st = forof("const", "x%d" % k, call(I("G"), S("s%d" % k)), block(st) if k < depth else st)
                g = generator("g", [], [st, _p(S("g end"))])
                drive = [let("gi", call(I("g"))), _p(S("first"), member(call(member(I("gi"), "next")), "value"))]
                if how == "return":
                    drive.append(_p(S("returned"), member(call(member(I("gi"), "return"), num(7)), "value")))
                elif how == "throw":
                    drive.append(_p(S("threw"), member(call(member(I("gi"), "throw"), S("X")), "value")))
                else:
                    drive.append(while_(unary("!", member(call(member(I("gi"), "next")), "done")), block(_p(S("step")))))
                drive.append(_p(S("after"), member(call(member(I("gi"), "next")), "done")))
                out.append(("nested/gen-close/%d/%s/%s" % (depth, "fin" if fin else "plain", how), program([Gd(), g, _guard(drive, "caught"), _p(S("end"))])))
    # E: loops carrying two labels
    def mkloop(kind, body):
        if kind == "for":
            return for_(let("i", num(0)), binary("<", I("i"), num(3)), update("++", False, I("i")), body)
        if kind == "while":
            return while_(binary("<", update("++", False, I("w")), num(3)), body)
        if kind == "dowhile":
            return dowhile(body, binary("<", update("++", True, I("w")), num(3)))
        if kind == "forof":
            return forof("const", "i", call(I("G"), S("it")), body)
        return forin("const", "i", obj(prop("a", num(1)), prop("b", num(2))), body)
    for kind in ("for", "while", "dowhile", "forof", "forin"):
        for en, mk in (("continue-A", lambda: continue_("A")), ("continue-B", lambda: continue_("B")), ("break-A", lambda: break_("A")), ("break-B", lambda: break_("B")), ("continue", lambda: continue_())):
            for nest in (False, True):
                core = block(expr(update("++", False, I("n"))), if_(binary("<", I("n"), num(9)), mk()), _p(S("not reached")))
                if nest:
                    core = block(for_(let("j", num(0)), binary("<", I("j"), num(2)), update("++", False, I("j")), core), _p(S("inner done")))
                st = labeled("A", labeled("B", mkloop(kind, core)))
                out.append(("nested/two-labels/%s/%s/%s" % (kind, en, "nest" if nest else "flat"),
                            program([Gd(), let("n", num(0)), let("w", num(0)), st, _p(S("n"), I("n"))])))
    return out


def grid_iterproto(tier):
    """the iterator protocol as seen by a user-defined iterator that logs every call: how often next() is called, when
    return() is called, and what happens to errors of next()/return()/a non-object result, for array patterns, spread,
    for-of exits and yield* (7.4, 8.6.2, 13.15.5, 14.7.5)"""
    out = []
    A, B, C, R = I("a"), I("b"), I("c"), I("r")
    # mk(tag, n, mode): values 1..n, then done.  mode: "ok", "noreturn", "retnonobj", "retthrows", "nextthrows2", "nextnonobj2"
    mk = function("mk", params("tag", "n", "mode"), [
        let("i", num(0)),
        let("it", obj(prop("next", fn([], [
            expr(update("++", False, I("i"))), _p(I("tag"), S("next"), I("i")),
            if_(logical("&&", binary("==", I("mode"), S("nextthrows2")), binary("==", I("i"), num(2))), throw(S("next failed"))),
            if_(logical("&&", binary("==", I("mode"), S("nextnonobj2")), binary("==", I("i"), num(2))), return_(num(7))),
            return_(obj(prop("value", binary("*", I("i"), num(10))), prop("done", binary(">", I("i"), I("n")))))])))),
        if_(binary("!=", I("mode"), S("noreturn")), expr(assign(member(I("it"), "return"), fn(params("v"), [
            _p(I("tag"), S("return")),
            if_(binary("==", I("mode"), S("retthrows")), throw(S("return failed"))),
            if_(binary("==", I("mode"), S("retnonobj")), return_(num(5))),
            return_(obj())])))),
        return_(obj(cprop(member(I("Symbol"), "iterator"), fn([], [_p(I("tag"), S("open")), return_(I("it"))]))))])
    thrower = function("boom", [], [_p(S("boom")), throw(S("default failed"))])
    src = lambda tag, n, mode: call(I("mk"), S(tag), num(n), S(mode))
    pats = {
        "[]": (lambda: arraypat(), []), "[a]": (lambda: arraypat(A), ["a"]), "[a,b]": (lambda: arraypat(A, B), ["a", "b"]),
        "[a,,b]": (lambda: arraypat(A, hole(), B), ["a", "b"]), "[a,...r]": (lambda: arraypat(A, prest(R)), ["a", "r"]),
        "[a,b,c]": (lambda: arraypat(A, B, C), ["a", "b", "c"]), "[a=boom()]": (lambda: arraypat(pelem(A, call(I("boom")))), ["a"]),
        "[a,b=boom()]": (lambda: arraypat(A, pelem(B, call(I("boom")))), ["a", "b"]), "[[a],b]": (lambda: arraypat(arraypat(A), B), ["a", "b"]),
    }
    modes = ["ok", "noreturn", "retnonobj", "retthrows", "nextthrows2", "nextnonobj2"]
    ctxs = ["let", "assign", "param"]
    quick = tier == "quick"
    for (pn, (mp, names)), n, mode, ctx in itertools.product(pats.items(), (0, 1, 2, 3), modes, ctxs):
        if quick and not (ctx == "let" and mode in ("ok", "retthrows", "nextthrows2") or (ctx == "assign" and mode == "ok" and n == 2)):
            continue
        dump = [_p(*[x for nm in names for x in (S(nm), (member(I(nm), "length") if nm == "r" else I(nm)))])]
        if ctx == "let":
            core = [N("let", decls=[decl(mp(), src("s", n, mode))])] + dump
        elif ctx == "assign":
            core = [N("let", decls=[decl(x) for x in ["a", "b", "c", "r"]]), expr(assign(mp(), src("s", n, mode)))] + dump
        else:
            out.append(("iterproto/pattern/%s/%s/%d/%s" % (ctx, pn, n, mode),
                        program([mk, thrower, function("f", [param(mp())], dump), _guard([expr(call(I("f"), src("s", n, mode)))], "caught"), _p(S("end"))])))
            continue
        out.append(("iterproto/pattern/%s/%s/%d/%s" % (ctx, pn, n, mode), program([mk, thrower, _guard(core, "caught"), _p(S("end"))])))
    # spread and for-of exits and yield*
    for n, mode in itertools.product((0, 2), modes):
        if quick and mode not in ("ok", "retthrows", "nextthrows2"):
            continue
        t = function("t", [N("param", target=prest(I("xs")))] if False else params("x", "y", "z"), [_p(S("args"), I("x"), I("y"), I("z"))])
        out.append(("iterproto/spread-call/%d/%s" % (n, mode), program([mk, t, _guard([expr(call(I("t"), num(0), spread(src("s", n, mode))))], "caught"), _p(S("end"))])))
        out.append(("iterproto/spread-array/%d/%s" % (n, mode), program([mk, _guard([_p(member(array(num(0), spread(src("s", n, mode)), num(9)), "length"))], "caught"), _p(S("end"))])))
        for ex, mkex in (("none", lambda: N("empty")), ("break", lambda: break_()), ("continue", lambda: continue_()), ("return", lambda: return_(S("ret"))), ("throw", lambda: throw(S("thrown"))),
                         ("break-outer", lambda: break_("O")), ("continue-outer", lambda: continue_("O"))):
            inner = forof("const", "v", src("in", n, mode), block(_p(S("v"), I("v")), mkex(), _p(S("tail"))))
            outer = labeled("O", forof("const", "w", src("out", 1, "ok"), block(_p(S("w"), I("w")), inner, _p(S("after inner")))))
            f = function("f", [], [outer, _p(S("after outer")), return_(S("fell"))])
            out.append(("iterproto/forof/%s/%d/%s" % (ex, n, mode), program([mk, f, _guard([_p(S("result"), call(I("f")))], "caught"), _p(S("end"))])))
        for how in ("next", "return", "throw"):
            g = generator("g", [], [let("r", yield_(src("d", n, mode), True)), _p(S("yield* value"), I("r")), return_(S("g done"))])
            drive = [let("gi", call(I("g"))), let("x", call(member(I("gi"), "next"))), _p(S("first"), member(I("x"), "value"), member(I("x"), "done"))]
            if how == "next":
                drive += [expr(assign(I("x"), call(member(I("gi"), "next"), S("sent")))), _p(S("second"), member(I("x"), "value"), member(I("x"), "done"))]
            elif how == "return":
                drive += [expr(assign(I("x"), call(member(I("gi"), "return"), S("R")))), _p(S("returned"), member(I("x"), "value"), member(I("x"), "done"))]
            else:
                drive += [expr(assign(I("x"), call(member(I("gi"), "throw"), S("T")))), _p(S("threw"), member(I("x"), "value"), member(I("x"), "done"))]
            drive += [expr(assign(I("x"), call(member(I("gi"), "next")))), _p(S("last"), member(I("x"), "value"), member(I("x"), "done"))]
            out.append(("iterproto/yieldstar/%s/%d/%s" % (how, n, mode), program([mk, g, _guard(drive, "caught"), _p(S("end"))])))
    # an abrupt completion inside an inner iteration must not disturb the enclosing loop's iterator
    inners = {
        "pattern-next-throws": lambda: N("let", decls=[decl(arraypat(A, B), src("s", 3, "nextthrows2"))]),
        "pattern-next-nonobj": lambda: N("let", decls=[decl(arraypat(A, B), src("s", 3, "nextnonobj2"))]),
        "pattern-default-throws": lambda: N("let", decls=[decl(arraypat(A, pelem(B, call(I("boom")))), src("s", 1, "ok"))]),
        "forof-next-throws": lambda: forof("const", "v", src("s", 3, "nextthrows2"), block(_p(S("v"), I("v")))),
        "forof-body-throws": lambda: forof("const", "v", src("s", 3, "ok"), block(throw(S("body")))),
        "forin-body-throws": lambda: forin("const", "k", obj(prop("p", num(1))), block(throw(S("body")))),
        "spread-next-throws": lambda: expr(array(spread(src("s", 3, "nextthrows2")))),
    }
    for (inn, mi), after in itertools.product(inners.items(), ("break", "run-out")):
        body = [_p(S("w"), I("w")), try_(block(mi()), "e", block(_p(S("caught"), I("e")))), _p(S("still in loop"))]
        if after == "break":
            body.append(break_())
        out.append(("iterproto/inner-abrupt/%s/%s" % (inn, after),
                    program([mk, thrower, forof("const", "w", src("out", 2, "ok"), block(*body)), _p(S("end"))])))
    return out


GRID_FAMILIES = {"iterproto": grid_iterproto, "nested": grid_nested_exits, "exits": grid_exits, "genexits": grid_generator_exits, "bindings": grid_bindings, "operators": grid_operators,
                 "destructuring": grid_destructuring, "completion": grid_completion, "classes": grid_classes, "misc": grid_misc, "finally-inner": grid_finally_inner}


def grids(tier="quick", families=None):
    out = []
    for nm, f in GRID_FAMILIES.items():
        if families and nm not in families:
            continue
        out += f(tier)
    return out


if __name__ == "__main__":
    # jscore.py render|expect < file with one AST (JSON) per line
    mode = sys.argv[1]
    asts = [json.loads(l) for l in sys.stdin if l.strip()]
    if mode == "render":
        for a in asts:
            print(render(a))
    else:
        rs_, st = expect(asts)
        for r in rs_:
            print(json.dumps(r))
        print(json.dumps(st), file=sys.stderr)
