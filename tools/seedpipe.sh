#!/bin/sh
# Development helper (not a registered command): one seeded change end to end in a private scratch worktree.
# usage: tools/seedpipe.sh <out-dir with patch.diff and demo/> <ID> <tag> [tier]
#  1. runs ./check <ID> against a scratch worktree of /repo HEAD with the patch applied (tools/seedtest.sh, mirror harness)
#  2. runs every demo/*.js through hjs built from the patched worktree (mirror) and through hjs built from /repo
#     (console.log is mapped to the harness's native print), so the demonstration is confirmed with and without the change
# Output: work/<tag>-<ID>.log (check), work/<tag>-<ID>.demo.txt (demo with / without)
OUT=$(realpath "$1"); ID=$2; TAG=$3; TIER=${4:-quick}
V=$(cd "$(dirname "$0")/.." && pwd); cd "$V"
export SEEDTAG=$TAG CARGO_BUILD_JOBS=${CARGO_BUILD_JOBS:-6}
if [ ! -d /tmp/mirror-$TAG ]; then
  git -C /repo worktree add --detach /tmp/wt-$TAG HEAD >/dev/null 2>&1
  tools/mkmirror.sh /tmp/wt-$TAG /tmp/mirror-$TAG >/dev/null
  cp -a "$V/harness/target" /tmp/mirror-$TAG/target 2>/dev/null   # third-party dependencies are reused
fi
tools/seedtest.sh "$OUT/patch.diff" "$ID" "$TIER"
(cd /tmp/mirror-$TAG && cargo build --offline -p hjs 2>&1 | tail -1)
: > work/$TAG-$ID.demo.txt
for js in "$OUT"/demo/*.js "$OUT"/demo/*.mjs; do
  [ -f "$js" ] || continue
  python3 - "$js" > /tmp/$TAG-demo.ndjson <<'PY'
import json,sys
src=open(sys.argv[1]).read()
shim="var console={log:function(){print.apply(null,arguments)},error:function(){print.apply(null,arguments)}};\n"
print(json.dumps({"id":"demo","steps":[{"kind":"eval","src":shim+src},{"kind":"jobs"}]}))
PY
  for mode in with without; do
    B=/tmp/mirror-$TAG/target/debug/hjs; [ $mode = without ] && B=$V/harness/target/debug/hjs
    echo "== $(basename $js) $mode change" >> work/$TAG-$ID.demo.txt
    timeout 120 $B < /tmp/$TAG-demo.ndjson 2>&1 | cut -c1-3000 >> work/$TAG-$ID.demo.txt
  done
done
# the patch stays applied in /tmp/wt-$TAG (seedtest.sh resets the worktree when it starts): a later run with
# VERIF_HARNESS_DIR=/tmp/mirror-$TAG still builds the changed tree
echo "demo: work/$TAG-$ID.demo.txt"
