#!/bin/sh
# Development helper: confirms a seeded change with a JS demo run through the CLI (with / without the change).
# usage: tools/seedconfirm-js.sh <out-dir> <demo.js relative to out-dir/demo> [extra cli args]
set -e
TAG=${SEEDTAG:-seed}   # SEEDTAG selects a private worktree/mirror/target (several confirmations can run side by side)
OUT=$1; JS=$2; shift 2
[ -d /tmp/$TAG-target ] || cp -a /tmp/mut-base-target /tmp/$TAG-target
for mode in with without; do
  git -C /tmp/wt-$TAG checkout -q -- . && git -C /tmp/wt-$TAG clean -fdq && git -C /tmp/wt-$TAG checkout -q --detach "$(git -C /repo rev-parse HEAD)"
  [ $mode = with ] && git -C /tmp/wt-$TAG apply "$OUT/patch.diff"
  (cd /tmp/wt-$TAG && CARGO_TARGET_DIR=/tmp/$TAG-target cargo build --offline -p boa_cli 2>&1 | tail -1)
  echo "== demo $mode change"
  (cd "$OUT/demo" && /tmp/$TAG-target/debug/boa "$@" "$JS" 2>&1 | tail -12) || true
done
git -C /tmp/wt-$TAG checkout -q -- . && git -C /tmp/wt-$TAG clean -fdq
