#!/bin/sh
# Development helper: confirms a seeded change with a JS demo run through the CLI (with / without the change).
# usage: tools/seedconfirm-js.sh <out-dir> <demo.js relative to out-dir/demo> [extra cli args]
set -e
OUT=$1; JS=$2; shift 2
[ -d /tmp/seed-target ] || cp -r /tmp/mut-base-target /tmp/seed-target
for mode in with without; do
  git -C /tmp/wt-seed checkout -q -- . && git -C /tmp/wt-seed clean -fdq && git -C /tmp/wt-seed checkout -q --detach "$(git -C /repo rev-parse HEAD)"
  [ $mode = with ] && git -C /tmp/wt-seed apply "$OUT/patch.diff"
  (cd /tmp/wt-seed && CARGO_TARGET_DIR=/tmp/seed-target cargo build --offline -p boa_cli 2>&1 | tail -1)
  echo "== demo $mode change"
  (cd "$OUT/demo" && /tmp/seed-target/debug/boa "$@" "$JS" 2>&1 | tail -12) || true
done
git -C /tmp/wt-seed checkout -q -- . && git -C /tmp/wt-seed clean -fdq
