#!/bin/sh
# Build the harness from /repo's working tree (offline) and syntax-check every spec.
set -e
cd "$(dirname "$0")/.."
python3 tools/vlib.py setup
