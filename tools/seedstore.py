#!/usr/bin/env python3
"""tools/seedstore.py <out-dir> <seeded-id> <demo text> <check result text> <ran text>
Development helper: files a confirmed seeded change under seeded/<id>/ (patch.diff, demo/, meta.json with the coordinator's confirmation)."""
import json, os, shutil, sys
out, sid, demo, result, ran = sys.argv[1:6]
root = os.path.dirname(os.path.dirname(os.path.abspath(__file__)))
dst = os.path.join(root, "seeded", sid)
os.makedirs(dst, exist_ok=True)
shutil.copy(os.path.join(out, "patch.diff"), os.path.join(dst, "patch.diff"))
if os.path.isdir(os.path.join(dst, "demo")):
    shutil.rmtree(os.path.join(dst, "demo"))
shutil.copytree(os.path.join(out, "demo"), os.path.join(dst, "demo"), ignore=shutil.ignore_patterns("boa*", "*.log", "target"))
try:
    meta = json.load(open(os.path.join(out, "meta.json")))
except Exception:
    meta = {"property": sid.split("-")[0]}
head = os.popen("git -C /repo rev-parse --short HEAD").read().strip()
meta["coordinator_confirmation"] = {"applied_to": "scratch worktree of /repo HEAD (%s)" % head, "demo": demo, "check_result": result, "ran": ran}
json.dump(meta, open(os.path.join(dst, "meta.json"), "w"), indent=1)
print("stored", dst)
