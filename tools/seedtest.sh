#!/bin/sh
# Development helper (not a registered command): runs a check against a scratch worktree of /repo with a seeded change applied.
# usage: tools/seedtest.sh <patch.diff> <ID> [tier]
# The worktree /tmp/wt-seed and the mirror harness /tmp/mirror-seed are reused between calls; evidence is restored afterwards.
set -e
P=$(realpath "$1"); ID=$2; TIER=${3:-quick}
V=$(cd "$(dirname "$0")/.." && pwd)
if [ ! -d /tmp/wt-seed ]; then git -C /repo worktree add --detach /tmp/wt-seed HEAD >/dev/null 2>&1; fi
git -C /tmp/wt-seed checkout -q -- . && git -C /tmp/wt-seed clean -fdq && git -C /tmp/wt-seed checkout -q --detach "$(git -C /repo rev-parse HEAD)"
git -C /tmp/wt-seed apply "$P"
[ -d /tmp/mirror-seed ] || "$V/tools/mkmirror.sh" /tmp/wt-seed /tmp/mirror-seed >/dev/null
cd "$V"
set +e
VERIF_HARNESS_DIR=/tmp/mirror-seed ./check "$ID" --tier "$TIER" > "work/seed-$ID.log" 2>&1
rc=$?
set -e
git -C "$V" checkout -q -- "evidence/$ID.json" 2>/dev/null || true
echo "rc=$rc violations=$(grep -c '^VIOLATION' work/seed-$ID.log) known=$(grep -c '^KNOWN' work/seed-$ID.log)"
grep '^VIOLATION' "work/seed-$ID.log" | head -3
tail -1 "work/seed-$ID.log" | cut -c1-300
