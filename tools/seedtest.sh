#!/bin/sh
# Development helper (not a registered command): runs a check against a scratch worktree of /repo with a seeded change applied.
# usage: tools/seedtest.sh <patch.diff> <ID> [tier]
# The worktree /tmp/wt-$TAG and the mirror harness /tmp/mirror-$TAG are reused between calls; evidence is restored afterwards.
set -e
TAG=${SEEDTAG:-seed}   # SEEDTAG selects a private worktree/mirror/target (several confirmations can run side by side)
P=$(realpath "$1"); ID=$2; TIER=${3:-quick}
V=$(cd "$(dirname "$0")/.." && pwd)
if [ ! -d /tmp/wt-$TAG ]; then git -C /repo worktree add --detach /tmp/wt-$TAG HEAD >/dev/null 2>&1; fi
git -C /tmp/wt-$TAG checkout -q -- . && git -C /tmp/wt-$TAG clean -fdq && git -C /tmp/wt-$TAG checkout -q --detach "$(git -C /repo rev-parse HEAD)"
git -C /tmp/wt-$TAG apply "$P"
[ -d /tmp/mirror-$TAG ] || "$V/tools/mkmirror.sh" /tmp/wt-$TAG /tmp/mirror-$TAG >/dev/null
cd "$V"
set +e
VERIF_HARNESS_DIR=/tmp/mirror-$TAG ./check "$ID" --tier "$TIER" > "work/$TAG-$ID.log" 2>&1
rc=$?
set -e
git -C "$V" checkout -q -- "evidence/$ID.json" 2>/dev/null || true
echo "rc=$rc violations=$(grep -c '^VIOLATION' work/$TAG-$ID.log) known=$(grep -c '^KNOWN' work/$TAG-$ID.log)"
grep '^VIOLATION' "work/$TAG-$ID.log" | head -3
tail -1 "work/$TAG-$ID.log" | cut -c1-300
