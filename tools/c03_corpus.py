#!/usr/bin/env python3
"""Writes corpus/c03/hand.jsonl: a deterministic corpus of JS programs that exercises every statement and
expression form of the bytecompiler (hand-written list plus template products: exit kind x try shape x loop form,
assignment operator x target kind, call shape x argument shape, function kind x parameter shape, ...).
Each line: {"name", "src", "kind": "script"|"module", "strict": bool}.  Run at development time; the output is committed."""
import itertools
import json
import os

ROOT = os.path.dirname(os.path.dirname(os.path.abspath(__file__)))
OUT = os.path.join(ROOT, "corpus", "c03", "hand.jsonl")

P = []


def add(name, src, kind="script", strict=False):
    P.append({"name": name, "src": src, "kind": kind, "strict": strict})


# ---------------------------------------------------------------- statements, hand-written
HAND = {
    "empty": "",
    "var_let_const": "var a = 1, b; let c = 2, d; const e = 3; a = b = c; d = e + a;",
    "block_scopes": "let a = 1; { let a = 2; { let a = 3; (() => a)(); } (() => a)(); } a;",
    "block_closure_capture": "var fs = []; for (let i = 0; i < 3; i++) { let j = i * 2; fs.push(() => i + j); } fs[0]();",
    "if_else_chain": "var x = 3, r; if (x < 1) r = 'a'; else if (x < 2) { r = 'b'; } else if (x < 3) r = 'c'; else { r = 'd'; }",
    "while_do": "var i = 0; while (i < 5) { i++; if (i == 2) continue; if (i == 4) break; } do { i--; } while (i > 0);",
    "for_classic": "for (var i = 0, j = 10; i < j; i++, j--) { if (i % 2) continue; } for (;;) { break; }",
    "for_let_closures": "var a = []; for (let i = 0, k = 5; i < 3; i++) { a.push(function () { return i + k; }); k++; }",
    "for_in": "var o = {a: 1, b: 2}, s = ''; for (var k in o) { s += k; } for (let k2 in o) { (() => k2)(); } for (const k3 in o) s += k3;",
    "for_in_member_target": "var o = {a: 1}, t = {}; for (t.k in o) ; for (t['x' + 1] in o) ;",
    "for_of": "var s = 0; for (var v of [1, 2, 3]) s += v; for (let w of [1, 2]) { (() => w)(); } for (const z of 'ab') s += z;",
    "for_of_destructuring": "for (var [a, b] of [[1, 2], [3, 4]]) ; for (let {x, y: {z}} of [{x: 1, y: {z: 2}}]) (() => x + z)(); for ([a, b = 5] of [[1]]) ;",
    "for_of_break_continue_return": "function f(it) { for (var v of it) { if (v == 1) continue; if (v == 2) break; if (v == 3) return v; } return -1; } f([0, 1, 2, 3]);",
    "for_of_nested_labelled": "outer: for (var a of [1, 2]) { inner: for (var b of [3, 4]) { if (b == 3) continue outer; if (a == 2) break outer; continue inner; } }",
    "labelled_blocks": "a: { b: { if (1) break a; break b; } } l1: l2: for (;;) { break l1; }",
    "labelled_continue_while": "var i = 0; o: while (i < 3) { i++; var j = 0; while (j < 3) { j++; if (j == 1) continue o; if (j == 2) break o; } }",
    "switch_basic": "var x = 2, r; switch (x) { case 1: r = 'a'; break; case 2: r = 'b'; case 3: r = 'c'; break; default: r = 'd'; }",
    "switch_default_middle": "function f(x) { switch (x) { case 1: return 'a'; default: x++; case 2: return 'b'; case 3: { let y = x; return () => y; } } } f(5);",
    "switch_lexical": "switch (1) { case 0: let a = 1; case 1: let b = 2; (() => b)(); break; case 2: { const c = 3; } }",
    "switch_in_loop": "for (var i = 0; i < 4; i++) { switch (i) { case 0: continue; case 1: break; case 2: { let q = i; (() => q)(); break; } default: ; } }",
    "switch_empty": "switch (1) {} switch (1) { default: } switch (f) { case f: }; var f;",
    "with_stmt": "var o = {a: 1, f() { return this.a; }}; with (o) { a = 2; var b = a + 1; f(); (function () { return a; })(); }",
    "with_nested": "var o = {x: 1}, p = {y: 2}; with (o) { with (p) { x = y; y = x + 1; z = 3; delete x; typeof q; } }",
    "with_break_continue": "var o = {a: 0}; for (var i = 0; i < 3; i++) { with (o) { a++; if (i == 0) continue; if (i == 1) break; } }",
    "with_return_try": "function f(o) { with (o) { try { return a; } finally { a = 2; } } } f({a: 1});",
    "with_eval_call": "var o = {x: 1}; with (o) { eval('x = 2'); x += 1; x ??= 5; x ||= 6; x &&= 7; x++; --x; }",
    "throw_stmt": "function f() { throw new Error('x'); } try { f(); } catch (e) { e.message; }",
    "try_catch_binding_forms": "try { throw [1, {a: 2}]; } catch ([x, {a}]) { x + a; } try { throw {p: 1}; } catch ({p, q = 2}) { p + q; } try { throw 1; } catch { }",
    "try_catch_closure": "var fs = []; try { throw 1; } catch (e) { fs.push(() => e); let inner = e; fs.push(() => inner); }",
    "try_finally_completion": "var r = eval('1; try { 2; } finally { 3; }'); var s = eval('L: try { 4; break L; } finally { 5; }');",
    "try_nested_rethrow": "try { try { throw 1; } catch (e) { throw e + 1; } finally { var a = 1; } } catch (e2) { try { throw e2; } finally { a = 2; } }",
    "try_in_finally": "function f() { try { return 1; } finally { try { g(); } catch (e) { } finally { var z = 1; } } } function g() { throw 0; } f();",
    "try_finally_return_override": "function f() { try { return 1; } finally { return 2; } } function g() { try { throw 1; } finally { return 3; } } f() + g();",
    "try_finally_break_override": "function f() { for (;;) { try { return 1; } finally { break; } } return 2; } f();",
    "debugger_stmt": "debugger; function f() { debugger; }",
    "function_hoisting_blocks": "f(); function f() { return g(); function g() { return 1; } } { function h() {} } if (true) { function k() {} }",
    "annexb_function_in_block": "var r = typeof q; { function q() { return 1; } } r = q(); switch (1) { case 1: function sw() {} }",
    "strict_mode_script": "'use strict'; let a = 1; function f() { return this; } f(); var o = {get x() { return 1; }}; o.x;",
    "sloppy_this_global_assign": "function f() { return this; } f(); undeclared1 = 1; undeclared1 += 2; typeof undeclared2; delete undeclared1;",
    "comma_void_typeof_delete": "var o = {a: 1, b: {c: 2}}; void 0, typeof o, typeof nope, delete o.a, delete o['b'].c, delete o, delete 1;",
    "in_instanceof": "var o = {a: 1}; 'a' in o; o instanceof Object; class C { #p; static has(x) { return #p in x; } } C.has(new C());",
    "exponent_ops": "var a = 2; a ** 3; a **= 2; (-a) ** 2; a ** 2; a ** 0.5; 2 ** 3 ** 2;",
    "bitwise_shift": "var a = 5, b = 3; a & b; a | b; a ^ b; ~a; a << b; a >> b; a >>> b; a &= b; a |= b; a ^= b; a <<= 1; a >>= 1; a >>>= 1;",
    "comparison_fused": "var a = 1, b = 2, r; if (a < b) r = 1; if (a <= b) r = 2; if (a > b) r = 3; if (a >= b) r = 4; if (a == b) r = 5; if (a != b) r = 6; if (a === b) r = 7; if (a !== b) r = 8; while (a < 3) a++; for (; b >= 0; b--) ;",
    "logical_ops": "var a = 0, b = 1, c = null; a && b; a || b; c ?? b; (a && b) || c; a || (b && c); (a ?? b) || c; !a; !!b;",
    "conditional_nested": "var a = 1; var r = a ? (a > 1 ? 'x' : 'y') : a < 0 ? 'z' : 'w'; (a ? f : g)(); function f() {} function g() {}",
    "update_exprs": "var a = 1, o = {p: 1, q: [1]}; a++; ++a; a--; --a; o.p++; ++o.p; o.q[0]--; --o['p']; var k = 'p'; o[k]++;",
    "update_super_private": "class A { get v() { return 1; } set v(x) {} } class B extends A { #c = 0; m() { super.v++; --super.v; super['v']++; this.#c++; --this.#c; return this.#c; } } new B().m();",
    "property_access": "var o = {a: {b: [1, {c: 2}]}}; o.a.b[1].c; o['a']['b'][0]; o.a['b'].length; 'str'.length; [1, 2].length; o?.a?.b?.[1]?.c;",
    "optional_chains": "var o = null, p = {f() { return this; }, g: null, h: {k() {}}}; o?.a; o?.[1]; o?.a.b.c; o?.f(); p.f?.(); p.g?.(); p?.h?.k?.(); p.h?.['k'](); (o?.a).b; delete o?.a; p?.f()?.h?.k();",
    "optional_call_this": "var o = {a: {f() { return this; }}}; o.a?.f(); o?.a.f(); (o?.a.f)(); o.a.f?.call(o); o?.['a']?.['f']?.();",
    "array_literals": "var a = [1, , 3, ...[4, 5], , ...'ab', [6, [7]],]; [,]; [, ,]; [...a, ...a];",
    "object_literals": "var k = 'x', v = 1; var o = {a: 1, 'b': 2, 3: 3, [k]: 4, [k + 1]: 5, v, m() {}, get g() { return 1; }, set g(x) {}, async am() {}, *gm() {}, async *agm() {}, ['c' + k]() {}, get [k + 'g']() { return 2; }, set [k + 's'](z) {}, ...{z: 1}, __proto__: null};",
    "object_super": "var base = {m() { return 1; }}; var o = {__proto__: base, m() { return super.m() + super['m'](); }, get g() { return super.m; }}; o.m();",
    "template_literals": "var a = 1, b = 'x'; `plain`; `a${a}b${b}c`; `${a}${b}`; `${`nested ${a}`}`; `multi\nline ${a + 1}`;",
    "tagged_templates": "function tag(s, ...v) { return s.raw.join('') + v.length; } tag`a${1}b${2}c`; tag``; var o = {t: tag}; o.t`x${o}`; o['t']`y`; (() => tag)()`z${3}`;",
    "regexp_literals": "var r = /a+b/gi; /[/]\\//.test('/'); 'x'.replace(/x/u, 'y'); for (var i = 0; i < 2; i++) { /k/y.lastIndex; }",
    "bigint_literals": "var a = 10n, b = 0x1Fn; a + b; a * 2n; -a; a ** 2n; a < 5; typeof a; BigInt(3) === 3n;",
    "number_literals": "0; 1; -1; 127; 128; -128; -129; 32767; 32768; -32768; 65536; 2147483647; 2147483648; -2147483648; 1.5; 1e21; NaN; Infinity; -Infinity; 0.1 + 0.2; 0xff; 0o17; 0b11; 1_000;",
    "string_concat_chains": "var a = 'a', b = 1; a + b + 'c' + a + 2; '' + a; a + '' + b; 'x' + (a + b); a += b + 'z'; a + `t${b}` + b;",
    "spread_calls": "function f(...a) { return a.length; } var xs = [1, 2]; f(...xs); f(0, ...xs, 3, ...xs); new f(...xs); f.call(null, ...xs, ...'ab'); Math.max(...xs, ...[]); var o = {f}; o.f(...xs); o['f'](1, ...xs);",
    "new_exprs": "function F(a, b) { this.a = a; } new F; new F(); new F(1, 2); new (F)(1); new F(...[1, 2]); new (class {})(); new new Function('this.x = 1')(); new F.prototype.constructor(3);",
    "new_target_meta": "function F() { return new.target; } new F(); F(); class C { constructor() { this.t = new.target; } } new C(); var a = () => 1; function G() { return () => new.target; } new G()();",
    "call_forms": "function f() { return this; } var o = {f, g: {f}}; f(); o.f(); o.g.f(); o['f'](); (o.f)(); (0, o.f)(); (o.f = f)(); f.call(o); f?.(); o.f``; (function () {})(); (() => 1)(); eval('1'); (0, eval)('2'); var e = eval; e('3');",
    "eval_direct_forms": "var x = 1; function f(a) { var y = 2; eval('var z = a + y + x'); return z; } f(3); eval(); eval('1', '2'); eval(...['x + 1']); function g() { 'use strict'; return eval('var q = 1; q'); } g(); { let l = 1; eval('l + 1'); }",
    "eval_in_params": "function f(a = eval('1'), b = () => eval('a')) { var a; return b(); } f(); function g(a, b = eval('var c = 2; a')) { return typeof c; } g(1);",
    "arguments_object": "function f(a, b) { arguments[0] = 9; return a + arguments.length; } f(1, 2, 3); function g(a, b) { 'use strict'; return arguments[0]; } g(1); function h(a = 1) { return arguments.length; } h(); var k = function () { return () => arguments[0]; }; k(5)();",
    "default_params": "function f(a, b = a + 1, c = b * 2, d = () => a + b + c) { return d(); } f(1); f(1, 2); function g(a = 1, {b, c} = {b: 2, c: 3}, [d, e = 5] = [4], ...r) { return a + b + c + d + e + r.length; } g();",
    "default_params_scope": "var x = 'outer'; function f(a = () => x, x2 = 1) { var x = 'inner'; return a(); } f(); function g(a, b = () => a) { var a = 5; return [a, b()]; } g(1); function h(a = this, b = arguments.length) { return b; } h();",
    "rest_params": "function f(...r) { return r; } function g(a, b, ...r) { return r.length; } f(); g(1); g(1, 2, 3, 4); var h = (...[a, b]) => a + b; h(1, 2); function k(a, ...{length}) { return length; } k(1, 2, 3);",
    "closures_nested": "function a(x) { return function b(y) { return function c(z) { return () => x + y + z; }; }; } a(1)(2)(3)(); var counter = (() => { var n = 0; return {inc: () => ++n, get: () => n}; })(); counter.inc();",
    "named_function_expr": "var f = function fact(n) { return n <= 1 ? 1 : n * fact(n - 1); }; f(5); var g = function h() { h = 1; return typeof h; }; g(); (function rec(n) { if (n) rec(n - 1); })(3);",
    "arrow_forms": "var a = () => {}; var b = x => x; var c = (x, y) => ({x, y}); var d = async x => await x; var e = ({a, b}, [c2, d2] = [1, 2], ...r) => a + b; var f = () => this; var g = () => arguments; function w() { return g2 = () => arguments[0]; } var g2; w(1);",
    "arrow_this_super": "class A { m() { return 1; } } class B extends A { constructor() { var f = () => super(); f(); this.g = () => super.m(); } m() { return (() => () => super.m())()(); } } new B().g();",
    "getter_setter_objects": "var o = {_v: 1, get v() { return this._v; }, set v(x) { this._v = x; }, get ['c' + 1]() { return 2; }}; o.v = o.v + 1; o.v++; o.v += 2; o.v ??= 3; Object.defineProperty(o, 'w', {get() { return 1; }});",
    "destructuring_decl": "var [a, b = 2, , c, ...d] = [1, undefined, 3, 4, 5, 6]; let {e, f: g, h = 8, ['i' + 1]: j, ...k} = {e: 1, f: 2, i1: 9, z: 0}; const [{l}, [m, [n]]] = [{l: 1}, [2, [3]]]; var {} = {}; var [] = [];",
    "destructuring_assign": "var a, b, c, o = {}, arr = []; [a, b] = [1, 2]; [a, b] = [b, a]; ({a, b: c} = {a: 1, b: 2}); [o.x, o['y'], arr[0]] = [1, 2, 3]; ({p: o.p, q: arr[1] = 5, ...o.rest} = {p: 1, r: 2}); [a = 1, [b = 2, {c = 3}]] = [undefined, [undefined, {}]]; [...arr] = 'abc'; [...[a, b]] = [1, 2];",
    "destructuring_params_catch_for": "function f({a, b: [c, d = 1]}, [e, ...g]) { return a + c + d + e + g.length; } f({a: 1, b: [2]}, [3, 4]); for (var {x, y = 2} of [{x: 1}]) ; for (var [k, v] of Object.entries({a: 1})) ;",
    "destructuring_iterator_close": "function* g() { try { yield 1; yield 2; } finally { cleanup = 1; } } var cleanup; var [a] = g(); [a] = g(); var [b, c, d] = g(); try { [a, undefinedTarget.x] = g(); } catch (e) {} var it = {[Symbol.iterator]() { return {next() { throw 1; }, return() { return {}; }}; }}; try { [a] = it; } catch (e) {}",
    "destructuring_holes_defaults_calls": "function d() { return 7; } var [a = d(), b = (() => a)(), , [c = d()] = []] = []; var {x = d(), y: {z = x} = {}} = {}; f(1, [a, b] = [1, 2]); function f() {}",
    "assign_targets": "var a, o = {p: {q: 1}}, k = 'p'; a = 1; o.x = 2; o[k] = {q: 3}; o[k].q = 4; o['p']['q'] = 5; a = o.p.q = o.x = 6; (a) = 7; (o.x) = 8;",
    "classes_basic": "class A { constructor(x) { this.x = x; } m() { return this.x; } static s() { return 1; } get g() { return 2; } set g(v) {} static get sg() { return 3; } *gen() { yield 1; } async am() {} async *agm() {} ['c' + 'm']() {} static ['s' + 'c']() {} } new A(1).m();",
    "classes_fields": "var k = 'ck'; class A { a = 1; b = this.a + 1; [k] = 3; static s = 4; static [k + 's'] = A.s; #p = 5; static #sp = 6; 'quoted' = 7; 42 = 8; f = () => this.a; static sf = () => this.s; getP() { return this.#p + A.#sp; } static { this.init = A.#sp; } static { var local = 1; let l2 = 2; } } new A().getP();",
    "classes_private_methods": "class A { #m() { return 1; } get #g() { return 2; } set #g(v) {} static #sm() { return 3; } static get #sg() { return 4; } static set #sg(v) {} *#gen() { yield 1; } async #am() {} call() { this.#g = 1; A.#sg = 2; return this.#m() + this.#g + A.#sm() + A.#sg + [...this.#gen()].length; } static has(o) { return #m in o && #g in o; } } new A().call(); A.has(new A());",
    "classes_inheritance": "class A { constructor(x) { this.x = x; } m() { return 1; } static s() { return 2; } } class B extends A { constructor() { super(1); this.y = super.m(); } m() { return super.m() + 1; } static s() { return super.s() + 1; } get g() { return super.x; } } class C extends B {} class D extends C { constructor(...a) { super(...a); } } new D().m(); B.s();",
    "classes_derived_forms": "class A {} class B extends A { constructor() { if (true) { super(); } else { super(); } return; } } class C extends A { constructor() { try { super(); } finally { this.f = 1; } } } class D extends A { constructor() { var f = () => { super(); }; f(); } } class E extends (class {}) {} class F extends null { constructor() { return Object.create(F.prototype); } } new B(); new C(); new D(); new E(); new F();",
    "classes_expressions": "var A = class {}; var B = class Named { static self() { return Named; } }; var C = class extends B { x = 1; }; (class { static #p = 1; static g() { return this.#p; } }).g(); var o = {c: class {}}; new (class { constructor() { this.z = 1; } })();",
    "classes_computed_heritage_closure": "function mk(base, name) { return class extends base { [name]() { return super[name] ? 1 : 0; } static [name + 'S'] = name; }; } mk(Object, 'toString'); var fs = []; for (let i = 0; i < 2; i++) { fs.push(class { static v = i; m() { return i; } }); }",
    "class_accessor_name_inference": "var o = {f: function () {}, g: () => {}, h: class {}, ['k']: function () {}}; var f2 = function () {}; let c = class {}; ({a: f2 = function () {}} = {}); var [z = () => {}] = [];",
    "generators_basic": "function* g(a) { var x = yield a; var y = yield x + 1; return x + y; } var it = g(1); it.next(); it.next(2); it.next(3); function* e() {} [...e()]; var o = {*m() { yield 1; }}; [...o.m()];",
    "generators_delegate": "function* inner() { try { var r = yield 1; yield r; return 'ret'; } finally { done = 1; } } var done; function* outer() { var v = yield* inner(); yield v; yield* [1, 2]; yield* 'ab'; } var it = outer(); it.next(); it.next(5); it.next(); it.return(9); var it2 = outer(); it2.next(); try { it2.throw(new Error('t')); } catch (e) {}",
    "generators_try_finally": "function* g() { try { yield 1; try { yield 2; } finally { yield 3; } } catch (e) { yield e; } finally { yield 4; } return 5; } var it = g(); it.next(); it.next(); it.return(7); it.next(); var it2 = g(); it2.next(); it2.throw(8); it2.next();",
    "generators_loops": "function* g() { for (var i = 0; i < 3; i++) { if (i == 1) continue; yield i; } for (var x of [1, 2]) { yield x; if (x == 1) continue; break; } var o = {a: 1}; for (var k in o) yield k; while (true) { var r = yield; if (r) return r; } } var it = g(); for (var j = 0; j < 8; j++) it.next(j > 5);",
    "generators_params_args": "function* g(a = yieldless(), {b} = {b: 2}, ...r) { yield a + b + r.length; yield arguments.length; } function yieldless() { return 1; } [...g(undefined, undefined, 1, 2)];",
    "generators_yield_positions": "function* g() { var a = [yield 1, yield 2]; var o = {k: yield 3, [yield 4]: 5}; f(yield 6, yield 7); var t = `x${yield 8}y`; (yield 9) ? yield 10 : yield 11; return (yield 12) + (yield 13); } function f() {} var it = g(); for (var i = 0; i < 14; i++) it.next(i);",
    "async_functions": "async function f(a) { var x = await a; try { await g(); } catch (e) { x = e; } finally { await 0; } return x; } async function g() { throw 1; } f(1); var af = async () => { await 1; }; af(); var o = {async m() { return await this; }}; o.m(); class C { async m() { await super.toString; } static async s() {} } new C().m();",
    "async_await_positions": "async function f(p) { var a = [await p, await 2]; var o = {k: await 3}; g(await 4, await 5); `t${await 6}`; (await 7) ? await 8 : await 9; for (var i = await 0; i < await 2; i += await 1) ; for (var x of await [1]) ; for (var k in await {a: 1}) ; return (await 10) + (await 11); } function g() {} f(1);",
    "async_arrow_params_this": "async function f() { var a = async (x = 1, {y} = {y: 2}, ...r) => { await x; return this; }; return a(); } f(); var b = async x => { for await (var v of [x]) ; }; b(1);",
    "async_generators": "async function* g(a) { var x = yield a; await x; try { yield await 1; yield* inner(); } finally { await 2; } return 3; } async function* inner() { yield 'i1'; return 'ir'; } var it = g(0); it.next(); it.next(1); it.next(); it.return(5); var o = {async *m() { yield 1; }}; o.m().next(); class C { static async *s() { yield* [1, 2]; } } C.s().next();",
    "async_generator_loops_try": "async function* g() { for (var i = 0; i < 2; i++) { try { yield i; if (i) continue; await i; } catch (e) { yield e; break; } finally { yield 'f'; } } for await (var x of inner()) { if (x) break; yield x; } } async function* inner() { yield 0; yield 1; } var it = g(); it.next(); it.next(); it.throw(1); it.next(); it.return(2);",
    "for_await": "async function f() { for await (var x of [1, Promise.resolve(2)]) { if (x == 1) continue; break; } for await (let y of g()) { (() => y)(); } for await (const [a, b] of [[1, 2]]) ; outer: for await (var z of [1]) { for await (var w of [2]) { continue outer; } } try { for await (var q of g()) { throw q; } } catch (e) { return e; } } async function* g() { yield 1; yield 2; } f();",
    "for_await_return_in_try": "async function f() { try { for await (var x of g()) { try { if (x) return x; } finally { await 0; } } } finally { await 1; } } async function* g() { yield 0; yield 1; } f();",
    "import_meta_dynamic_import": "var p = import('./x.js'); p.catch(() => {}); async function f() { try { await import('y', {with: {type: 'json'}}); } catch (e) {} } f();",
    "getter_this_global": "this.a = 1; var b = this; function f() { return this.a; } f.call({a: 2}); (function () { 'use strict'; return this; })();",
    "sequence_and_parens": "var a = (1, 2, 3); (a = 1, a += 2, a); ((a)); (a, a)(); function a2() {} ;;; ;",
    "typeof_undeclared_tdz": "typeof nope; try { tdz; let tdz = 1; } catch (e) {} try { (() => { c1; const c1 = 1; })(); } catch (e) {} function f() { return typeof g2; let g2; } try { f(); } catch (e) {}",
    "const_assign_errors": "const c = 1; try { c = 2; } catch (e) {} try { c++; } catch (e) {} try { c += 1; } catch (e) {} try { [c] = [3]; } catch (e) {} try { ({c} = {c: 4}); } catch (e) {} try { for (c of [1]) ; } catch (e) {} function f() { const k = 1; try { k = 2; } catch (e) {} try { k ||= 2; } catch (e) {} } f();",
    "delete_forms": "var o = {a: 1, b: {c: 2}}, k = 'a'; delete o.a; delete o[k]; delete o.b.c; delete o?.b; delete (o.b); delete this.zz; var gv = 1; delete gv; gx = 1; delete gx; function f() { var l; return delete l; } f(); class A { m() { try { delete super.x; } catch (e) {} } } new A().m();",
    "new_function_ctor": "var f = new Function('a', 'b', 'return a + b'); f(1, 2); var g = Function('return this')(); var h = new Function('...r', 'return r.length'); h(1, 2); var gf = Object.getPrototypeOf(function* () {}).constructor; var gi = new gf('yield 1'); [...gi()];",
    "indirect_eval_function": "var ge = eval; ge('var gv1 = 1; function gf1() { return gv1; } let gl1 = 2;'); (0, eval)('gv1 + gl1'); function f() { return (0, eval)('typeof f'); } f(); setTimeoutLike('x'); function setTimeoutLike(s) { return eval(s + ' = 1'); } var x;",
    "json_parse_paths": "JSON.parse('{\"a\": [1, 2, {\"b\": null}], \"c\": \"s\"}'); JSON.parse('[1,2,3]', (k, v) => v); JSON.parse('\"str\"'); JSON.parse('-1.5e3');",
    "symbols_iterators_custom": "var it = {[Symbol.iterator]() { var i = 0; return {next: () => ({done: i > 2, value: i++}), return() { return {}; }}; }}; for (var v of it) { if (v == 1) break; } var [a, b] = it; [...it]; Math.max(...it); new Set(it); function f(...r) {} f(...it);",
    "getter_in_loop_ic": "var o = {a: 1, b: 2}; for (var i = 0; i < 5; i++) { o.a; o.b = i; o['a']; o.length; [1].length; 'ab'.length; } function f(x) { return x.a + x.b; } f(o); f({b: 1, a: 2}); f({a: 1, b: 2, c: 3});",
    "object_rest_spread_calls": "var {a, ...rest} = {a: 1, b: 2, c: 3}; var o2 = {...rest, d: 4, ...null, ...undefined, ...'s'}; function f({x, ...others}) { return others; } f({x: 1, y: 2}); var {[a]: q, ...r2} = {1: 'one', 2: 'two'};",
    "getter_function_names": "var o = {get a() { return 1; }, set a(v) {}}; class C { static get [Symbol.species]() { return this; } } var s = Symbol('d'); var p = {[s]: function () {}, [s + '']: 1 }; ",
    "immediately_invoked_variants": "!function () {}(); +function () {}(); void function () {}(); (function () { return this; }).call(1); (async function () {})(); (function* () {})().next(); (async () => {})(); new function () { this.a = 1; };",
    "comma_in_for_heads": "for (var i = 0, j = 0; i < 2, j < 2; i++, j++) ; for (var k = (1, 2); k < 3; k++) ; for (let a = () => a2, a2 = 1; a2 < 2; a2++) a();",
    "nested_functions_deep": "function l1() { var a = 1; function l2() { var b = 2; function l3() { var c = 3; function l4() { return a + b + c; } return l4; } return l3; } return l2; } l1()()()();",
    "nested_blocks_deep_lets": "{ let a = 1; { let b = 2; { let c = 3; { let d = 4; { let e = 5; (() => a + b + c + d + e)(); } } } } }",
    "block_scope_exits": "function f(x) { { let a = x; (() => a)(); if (x == 1) return a; { let b = a; (() => b)(); if (x == 2) return b; for (let i = 0; i < 2; i++) { (() => i)(); if (x == 3) return i; if (x == 4) break; } } } return 0; } f(1); f(2); f(3); f(4); f(5);",
    "loop_scope_exits": "outer: for (let i = 0; i < 2; i++) { (() => i)(); for (let j = 0; j < 2; j++) { (() => j)(); { let k = j; (() => k)(); if (k == 0) continue; if (i == 0) continue outer; if (i == 1) break outer; } } }",
    "switch_scope_exits": "function f(x) { for (let i = 0; i < 2; i++) { (() => i)(); switch (x) { case 1: { let a = 1; (() => a)(); continue; } case 2: let b = 2; (() => b)(); break; case 3: return (() => i)(); default: { let c = 3; (() => c)(); } } } } f(1); f(2); f(3); f(4);",
    "with_scope_exits": "function f(o, x) { with (o) { let a = x; (() => a)(); if (x == 1) return p; for (let i = 0; i < 2; i++) { (() => i)(); with ({q: i}) { if (x == 2) continue; if (x == 3) break; if (x == 4) return q; } } } } f({p: 1}, 1); f({p: 1}, 2); f({p: 1}, 3); f({p: 1}, 4);",
    "catch_scope_exits": "function f(x) { for (let i = 0; i < 2; i++) { (() => i)(); try { throw i; } catch (e) { (() => e)(); let l = e; (() => l)(); if (x == 1) continue; if (x == 2) break; if (x == 3) return l; } } } f(1); f(2); f(3); f(4);",
    "module_like_globals": "var g1 = 1; let g2 = 2; const g3 = 3; function gf() { return g1 + g2 + g3; } class GC { static v = g2; } gf(); g1 = g2 = 5; g2 += g1; g1++; g2 ??= 1; ({g1, g2} = {g1: 1, g2: 2}); [g1, g2] = [g2, g1];",
    "short_circuit_assign_all_targets": "var g = null, o = {p: null, q: 1}, k = 'p'; let l = 0; g ??= 1; g ||= 2; g &&= 3; l ??= 1; l ||= 2; l &&= 3; o.p ??= 1; o.p ||= 2; o.q &&= 3; o[k] ??= 4; o[k] ||= 5; o[k] &&= 6; function f() { var v; v ??= 1; v ||= 2; v &&= 3; return v; } f(); class A { #x = null; m() { this.#x ??= 1; this.#x ||= 2; this.#x &&= 3; } } new A().m(); class B extends A { n() { super.z ??= 1; super['z'] ||= 2; super.z &&= 3; } } new B().n();",
    "compound_assign_all_targets": "var g = 1, o = {p: 1}, k = 'p'; let l = 1; g += 1; g -= 1; g *= 2; g /= 2; g %= 3; g **= 2; g <<= 1; g >>= 1; g >>>= 1; g &= 3; g |= 4; g ^= 1; l += g; o.p += 1; o[k] -= 1; o[k] *= o.p; function f(a) { a += 1; var b = a; b *= a; return b; } f(1);",
    "class_computed_accessors": "var k = 'k'; class A { get [k]() { return 1; } set [k](v) {} static get [k + 's']() { return 2; } static set [k + 's'](v) {} static set named(v) {} static get named() { return 3; } get plain() { return 4; } set plain(v) {} } new A()[k]; A.named = A.ks;",
    "infinities_nan_consts": "var a = -1 / 0, b = -Infinity, c = -1e999, d = 1e999, e = 0 / 0, f = -0; [a, b, c, d, e, f, -(1 / 0), +Infinity];",
    "eval_var_in_function_scopes": "function f() { eval('var ev1 = 1; function ef() { return ev1; } { let el = 2; var ev2 = el; }'); return ev1 + ev2 + ef(); } f(); function g(s) { 'use strict'; return eval(s); } g('var sv = 1; let sl = 2; class C {} sv + sl');",
    "async_body_scope_completion": "function g() {} async function f(a) { let l = 1; function inner() { return l; } g(); await inner(); } f(1); async function* ag(a) { let l = 2; const k = () => l; g(); yield k(); } ag(1).next(); var af = async () => { let z = 3; g(() => z); await 0; }; af();",
    "short_circuit_in_expr_context": "var i = 7, j = null; var v = 'x' + (i ??= 3); var w = [j ||= 2, j &&= 3]; var u = f(i ??= 1, j ??= 2); function f() {} var t = (i &&= 0) ? 1 : 2; while (j ||= 0) { j = 0; } if (i ??= 1) { }",
}
for k, v in HAND.items():
    add("hand/" + k, v)

# a few of them again in strict mode / as modules
for k in ("var_let_const", "for_of_destructuring", "classes_fields", "generators_try_finally", "async_functions", "destructuring_assign",
          "default_params", "arguments_object", "short_circuit_assign_all_targets", "block_scope_exits", "switch_scope_exits"):
    add("strict/" + k, HAND[k], strict=True)
MODULES = {
    "exports": "export var a = 1; export let b = 2; export const c = 3; export function f() { return a + b + c; } export class C {} export default function () { return f(); } export {a as aa, f as ff}; a = 2; b++; f();",
    "tla": "const x = await Promise.resolve(1); let y; try { y = await g(); } catch (e) { y = e; } finally { await 0; } async function g() { throw 1; } for await (const v of [1, 2]) { if (v) break; } export {x, y};",
    "default_expr_class": "export default class extends Object { static s = 1; } var local = import.meta; (() => import.meta.url)();",
    "module_closures": "let counter = 0; export function inc() { return ++counter; } export const get = () => counter; { let blockScoped = counter; inc(); (() => blockScoped)(); } for (let i = 0; i < 2; i++) { inc(); }",
}
for k, v in MODULES.items():
    add("module/" + k, v, kind="module")
for k in ("for_of_break_continue_return", "try_in_finally", "classes_inheritance", "generators_delegate", "destructuring_iterator_close", "loop_scope_exits"):
    add("module-of/" + k, HAND[k], kind="module")

# ---------------------------------------------------------------- products
EXITS = {
    "none": "x++;", "break": "if (x) break; x++;", "continue": "if (x) continue; x++;", "return": "if (x) return x; x++;",
    "return_call": "if (x) return g(x); x++;", "throw": "if (x) throw x; x++;", "break_l": "if (x) break L; x++;",
    "continue_l": "if (x) continue L; x++;", "call": "g(x, g(x));", "assign_global": "G = g(x);", "closure": "let c = x; g(() => c);",
}
TRY = {
    "plain": "{B}",
    "try_catch": "try { {B} } catch (e) { x = e; }",
    "try_finally": "try { {B} } finally { x--; }",
    "try_catch_finally": "try { {B} } catch (e) { x = e; } finally { x--; }",
    "in_catch": "try { throw 1; } catch (e) { {B} }",
    "in_finally": "try { x++; } finally { {B} }",
    "nested_try_finally": "try { try { {B} } finally { x += 2; } } finally { x += 3; }",
    "try_catch_in_finally_of_return": "try { return g(x); } finally { try { {B} } catch (e) { } }",
    "catch_with_scope": "try { {B} } catch ({message: m, ...r}) { let q = m; g(() => q + r); }",
    "block_let_try": "{ let k = x; g(() => k); try { {B} } finally { let z = k; g(() => z); } }",
    "with_try": "with (o) { try { {B} } finally { p = 1; } }",
}
LOOPS = {
    "while": "L: while (x < 3) { M: while (x < 2) { {T} } x++; }",
    "do_while": "L: do { {T} } while (x++ < 3);",
    "for": "L: for (var i = 0; i < 3; i++) { {T} }",
    "for_let": "L: for (let i = 0; i < 3; i++) { g(() => i); {T} }",
    "for_in": "L: for (var k in o) { {T} }",
    "for_of": "L: for (var v of [1, 2, 3]) { {T} }",
    "for_of_let_destr": "L: for (let [a, b = 1] of [[1], [2]]) { g(() => a + b); {T} }",
    "switch_in_loop": "L: for (;;) { switch (x) { case 0: {T} case 1: break; default: break L; } x++; if (x > 3) break; }",
    "labelled_block": "L: for (;;) { B1: { {T} break B1; } break; }",
}
FUNCS = {
    "function": "var G, o = {p: 0}; function g(a) { return a; } function f(x) { {L} return x; } f(0); f(1);",
    "generator": "var G, o = {p: 0}; function g(a) { return a; } function* f(x) { yield x; {L} yield x; return x; } var it = f(0); it.next(); it.next(); it.return(1); [...f(1)];",
    "async": "var G, o = {p: 0}; function g(a) { return a; } async function f(x) { await x; {L} return await x; } f(0); f(1);",
    "async_generator": "var G, o = {p: 0}; function g(a) { return a; } async function* f(x) { yield x; {L} await x; return x; } f(0).next(); var it = f(1); it.next(); it.return(2);",
    "arrow_in_method": "var G, o = {p: 0}; function g(a) { return a; } class K { m(x) { return (() => { {L} return x; })(); } } new K().m(0); new K().m(1);",
}
n = 0
for (fk, fv), (lk, lv), (tk, tv), (ek, ev) in itertools.product(FUNCS.items(), LOOPS.items(), TRY.items(), EXITS.items()):
    if ek in ("break", "continue") and lk == "labelled_block" and False:
        continue
    # keep the product affordable: full product for plain functions, a diagonal slice for the other function kinds
    h = (hash_ := sum(map(ord, fk + lk + tk + ek)))
    if fk != "function" and h % 7 != 0:
        continue
    if fk == "function" and lk not in ("while", "for_let", "for_of", "switch_in_loop") and h % 3 != 0:
        continue
    body = tv.replace("{B}", ev)
    src = fv.replace("{L}", lv.replace("{T}", body))
    add(f"exit/{fk}/{lk}/{tk}/{ek}", src)
    n += 1

# exits that leave a catch / finally block from inside a scope opened in that block (an environment, a `with` object or a
# loop scope that is still on the environment stack when the jump is taken)
TRY_SCOPED = {
    "in_finally_let": "try { x++; } finally { let z = x; g(() => z); {B} }",
    "in_catch_let": "try { throw 1; } catch (e) { let z = e; g(() => z + e); {B} }",
    "in_finally_with": "try { x++; } finally { with (o) { {B} } }",
    "in_finally_block_let": "try { x++; } finally { { let z = x; g(() => z); { let w = z; g(() => w); {B} } } }",
    "finally_let_in_finally_let": "try { try { x++; } finally { let z = x; g(() => z); {B} } } finally { let w = x; g(() => w); }",
    "in_finally_let_after_return": "try { if (x > 1) return g(x); } finally { let z = x; g(() => z); {B} }",
}
for (fk, fv), (lk, lv), (tk, tv), ek in itertools.product(FUNCS.items(), LOOPS.items(), TRY_SCOPED.items(),
                                                        ("break", "continue", "break_l", "continue_l", "return", "throw")):
    if fk != "function" and sum(map(ord, fk + lk + tk + ek)) % 5 != 0:
        continue
    src = fv.replace("{L}", lv.replace("{T}", tv.replace("{B}", EXITS[ek])))
    add(f"exitscope/{fk}/{lk}/{tk}/{ek}", src)

# `yield` / `await` as the exit inside try shapes
for (tk, tv) in TRY.items():
    add(f"yield/{tk}", "var o = {p: 0}; function g(a) { return a; } function* f(x) { L: for (var i = 0; i < 2; i++) { " + tv.replace("{B}", "x = yield x; if (x) return yield g(x);") + " } } var it = f(0); it.next(); it.next(0); it.next(1); it.return(2); var i2 = f(1); i2.next(); i2.throw(3);")
    add(f"await/{tk}", "var o = {p: 0}; function g(a) { return a; } async function f(x) { L: for (var i = 0; i < 2; i++) { " + tv.replace("{B}", "x = await x; if (x) return await g(x);") + " } } f(0); f(1);")
    add(f"yieldstar/{tk}", "var o = {p: 0}; function g(a) { return a; } function* h() { yield 1; return 2; } async function* f(x) { L: for (var i = 0; i < 2; i++) { " + tv.replace("{B}", "x = yield* h(); if (x) return yield g(x);") + " } } var it = f(0); it.next(); it.next(); it.return(1);")

# assignment operator x target kind, in statement and in expression (operand) position
TARGETS = {
    "global_var": ("var t = null;", "t"), "global_undeclared": ("", "u1"), "global_let": ("let t = null;", "t"),
    "local_var": ("function f() { var t = null; {S} return t; } f();", "t"),
    "captured_let": ("function f() { let t = null; var c = () => t; {S} return c; } f();", "t"),
    "param": ("function f(t) { {S} return t; } f(null);", "t"),
    "with_prop": ("var o = {t: null}; with (o) { {S} }", "t"),
    "member": ("var o = {t: null};", "o.t"), "computed": ("var o = {t: null}, k = 't';", "o[k]"),
    "computed_call_key": ("var o = {t: null}; function k() { return 't'; }", "o[k()]"),
    "nested_member": ("var o = {a: {t: null}};", "o.a.t"),
}
OPS = ["=", "+=", "-=", "*=", "**=", ">>>=", "&=", "??=", "||=", "&&="]
CONTEXTS = {"stmt": "{E};", "operand": "var r = 'x' + ({E});", "arg": "g2(1, {E}, 2); function g2() {}", "cond": "if ({E}) { } else { }",
            "array": "var arr = [{E}, {E}];", "nested_assign": "var z; z = ({E});", "tpl": "`a${{E}}b`;", "return": "(function () { return {E}; })();"}
for (tk, (setup, tgt)), op, (ck, cv) in itertools.product(TARGETS.items(), OPS, CONTEXTS.items()):
    h = sum(map(ord, tk + op + ck))
    if ck not in ("stmt", "operand") and h % 4 != 0:
        continue
    stmt = cv.replace("{E}", f"{tgt} {op} 3")
    if "{S}" in setup:
        if ck == "return":
            continue
        src = setup.replace("{S}", stmt)
    else:
        src = setup + " " + stmt
    add(f"assign/{tk}/{op}/{ck}", src)

# update expressions on the same targets
for (tk, (setup, tgt)), form in itertools.product(TARGETS.items(), ["{T}++", "++{T}", "{T}--", "var r = {T}++ + --{T};"]):
    stmt = form.replace("{T}", tgt) + ";"
    src = setup.replace("{S}", stmt) if "{S}" in setup else setup + " " + stmt
    add(f"update/{tk}/{form}", src)

# call shapes x argument shapes
CALLEES = {"ident": "f", "member": "o.f", "computed": "o['f']", "optional": "o?.f", "optional_call": "o.f?.", "paren": "(0, o.f)", "new": "new f",
           "new_member": "new o.f", "super_call_in_ctor": None, "tagged": None, "eval": "eval", "call_result": "mk()", "iife": "(function (...a) { return a; })"}
ARGS = {"none": "", "one": "1", "three": "1, 'a', o", "spread": "...xs", "mixed_spread": "0, ...xs, 1, ...xs", "nested_call": "f(1), f(f(2), 3)",
        "with_assign": "a = 1, a ??= 2", "with_closure": "() => a, function () { return xs; }", "with_await_like": "[1, 2][0], {k: 1}.k", "template": "`t${a}`",
        "holes": "...[, 1]", "seven": "1, 2, 3, 4, 5, 6, 7"}
PRE = "var a, xs = [1, 2], o = {f}; function f(...r) { return r.length; } function mk() { return f; }\n"
for (ck, cv), (ak, av) in itertools.product(CALLEES.items(), ARGS.items()):
    if cv is None:
        continue
    if ck == "eval" and "spread" in ak:
        src = PRE + f"eval({av});"
    else:
        src = PRE + f"var r = {cv}({av}); {cv}({av});"
    add(f"call/{ck}/{ak}", src)
    # the same call inside try and as argument of another call (pending values on the stack)
    if sum(map(ord, ck + ak)) % 3 == 0:
        add(f"call_in_try/{ck}/{ak}", PRE + f"function w() {{ try {{ return f(0, {cv}({av})); }} catch (e) {{ return f(e, {cv}({av})); }} finally {{ {cv}({av}); }} }} w();")
for ak, av in ARGS.items():
    add(f"call/super/{ak}", f"var a, xs = [1, 2], o = {{}}; function f() {{}} class A {{ constructor(...r) {{ this.n = r.length; }} m(...r) {{ return r.length; }} }} class B extends A {{ constructor() {{ super({av}); super.m({av}); }} }} new B();")
    add(f"call/tagged/{ak}", "var a, xs = [1, 2], o = {t: f}; function f(...r) { return r.length; } " + "f`x${" + (av.replace("...", "") or "0").split(",")[0] + "}y`; o.t`${a}${xs}`;")

# function kind x parameter shape x body feature
KINDS = {"decl": "function f({P}) { {B} } f(1, 2);", "expr": "var f = function ({P}) { {B} }; f(1, 2);", "named_expr": "var f = function me({P}) { {B} }; f(1, 2);",
         "arrow": "var f = ({P}) => { {B} }; f(1, 2);", "method": "var o = {f({P}) { {B} }}; o.f(1, 2);", "class_method": "class C { f({P}) { {B} } } new C().f(1, 2);",
         "static_method": "class C { static f({P}) { {B} } } C.f(1, 2);", "ctor": "class C { constructor({P}) { {B} } } new C(1, 2);",
         "derived_ctor": "class A {} class C extends A { constructor({P}) { super(); {B} } } new C(1, 2);", "getter_setter": "var o = {set s({P1}) { {B} }}; o.s = 1;",
         "generator": "function* f({P}) { {B} yield 1; } [...f(1, 2)];", "async": "async function f({P}) { {B} await 1; } f(1, 2);",
         "async_arrow": "var f = async ({P}) => { {B} await 1; }; f(1, 2);", "async_generator": "async function* f({P}) { {B} yield 1; } f(1, 2).next();",
         "private_method": "class C { #f({P}) { {B} } g() { return this.#f(1, 2); } } new C().g();"}
PARAMS = {"none": "", "simple": "a, b", "default": "a, b = a + 1", "default_closure": "a, b = () => a", "rest": "a, ...r", "destr": "{x} = {}, [y] = []",
          "destr_default_rest": "{x = 1, ...o2} = {}, [y = x, ...z] = [], ...r", "dup_sloppy": "a, a2", "shadow_args": "arguments2, a"}
BODIES = {"empty": "", "use_args": "return arguments.length;", "use_this": "return this;", "closure": "var v = 1; return () => v + (typeof a);", "eval": "return eval('1');",
          "var_shadow_param": "var a = 5; return a;", "lex_decls": "let l = 1; const c = 2; class K {} function inner() { return l + c; } return inner();",
          "arguments_closure": "return () => arguments;", "new_target": "return new.target;", "try_return": "try { return 1; } finally { var z = 2; }"}
for (kk, kv), (pk, pv), (bk, bv) in itertools.product(KINDS.items(), PARAMS.items(), BODIES.items()):
    h = sum(map(ord, kk + pk + bk))
    if h % 5 != 0 and not (pk == "simple" and bk == "empty") and not (kk == "decl" and (pk == "default_closure" or bk == "eval")):
        continue
    if "arrow" in kk and bk in ("use_args", "arguments_closure", "new_target"):
        continue
    if bk == "new_target" and kk in ("getter_setter",):
        continue
    p1 = pv.split(",")[0] if pv else "a"
    src = kv.replace("{P1}", p1).replace("{P}", pv).replace("{B}", bv)
    add(f"fn/{kk}/{pk}/{bk}", src)

# binary / unary operator grid on operand shapes (register aliasing shortcuts)
BIN = ["+", "-", "*", "/", "%", "**", "<<", ">>", ">>>", "&", "|", "^", "==", "!=", "===", "!==", "<", "<=", ">", ">=", "in", "instanceof", "&&", "||", "??", ","]
OPERANDS = {"local": "l", "global": "gv", "const": "1", "call": "g()", "member": "o.p", "assign": "(l = 2)", "update": "l++", "this": "this", "str": "'s'"}
for op in BIN:
    exprs = []
    for (ak, av), (bk, bv) in itertools.product(OPERANDS.items(), OPERANDS.items()):
        if sum(map(ord, op + ak + bk)) % 4 == 0:
            rhs = "o" if op in ("in", "instanceof") and bk in ("const", "str", "update") else bv
            if op == "instanceof":
                rhs = "Object"
            exprs.append(f"r = {av} {op} {rhs};")
    add(f"binop/{op}", "var gv = 1, o = {p: 1}, r; function g() { return 1; } function f() { var l = 1; " + " ".join(exprs) + " if (l " + (op if op not in (",",) else "<") + " gv) r = 0; return r; } f();")
for op in ["-", "+", "!", "~", "typeof ", "void ", "delete ", "await "]:
    if op == "await ":
        add("unop/await", "async function f(l) { var r = await l; r = await g(); r = await o.p; r = await (l = 1); return await await r; } function g() {} var o = {p: 1}; f(1);")
    else:
        add(f"unop/{op.strip()}", "var gv = 1, o = {p: 1}, r; function g() { return 1; } function f() { var l = 1; " + " ".join(f"r = {op}{x};" for x in ["l", "gv", "1", "g()", "o.p", "o['p']", "(l = 2)", "'s'", "-l", "!l"]) + " return r; } f();")

# constants pool / many registers / long jumps
add("big/many_locals", "function f() { " + " ".join(f"var v{i} = {i};" for i in range(300)) + " return " + " + ".join(f"v{i}" for i in range(300)) + "; } f();")
add("big/many_constants", "var o = {" + ", ".join(f"k{i}: 's{i}'" for i in range(300)) + "}; " + " ".join(f"o.k{i};" for i in range(0, 300, 7)))
add("big/many_args", "function f() { return arguments.length; } f(" + ", ".join(str(i) for i in range(300)) + ");")
add("big/deep_expr", "var x = 1; var r = " + "(" * 60 + "x" + " + 1)" * 60 + ";")
add("big/many_functions", " ".join(f"function f{i}(a) {{ return a + {i}; }}" for i in range(120)) + " f0(1);")
add("big/long_switch", "function f(x) { switch (x) { " + " ".join(f"case {i}: return {i} * 2;" for i in range(150)) + " default: return -1; } } f(77);")
add("big/nested_try", "function f() { " + "try { " * 12 + "return g();" + " } finally { x++; }" * 12 + " } var x = 0; function g() { return 1; } f();")
add("big/nested_loops_labels", "".join(f"l{i}: for (var i{i} = 0; i{i} < 1; i{i}++) {{ " for i in range(12)) + "if (i0) continue l3; if (i1) break l0; continue l11;" + " }" * 12)
add("big/nested_closures_scopes", "".join(f"{{ let a{i} = {i}; (() => a{i})(); " for i in range(20)) + "".join(f"a{i}+" for i in range(20)) + "0;" + " }" * 20)
add("big/array_literal", "var a = [" + ", ".join(str(i) if i % 10 else "" for i in range(400)) + "];")
add("big/template_many", "var v = 1; var s = `" + "".join(f"p{i}${{v + {i}}}" for i in range(80)) + "`;")
add("big/class_many_members", "class C { " + " ".join(f"m{i}() {{ return {i}; }} static s{i} = {i}; #p{i} = {i}; f{i} = this.#p{i};" for i in range(40)) + " } new C();")
add("big/string_concat", "var a = 'a'; var s = " + " + ".join(["a", "'b'", "1"] * 40) + ";")


def main():
    os.makedirs(os.path.dirname(OUT), exist_ok=True)
    names = set()
    with open(OUT, "w") as f:
        for p in P:
            assert p["name"] not in names, p["name"]
            names.add(p["name"])
            f.write(json.dumps(p, sort_keys=True) + "\n")
    print(f"wrote {len(P)} programs to {OUT}")


if __name__ == "__main__":
    main()
