#!/usr/bin/env python3
"""DEVELOPMENT-TIME vetting of tools/c20_catalogue.py (not a registered command).
  python3 tools/c20_vet.py node    cross-check every (path, status) expectation and the independence matrix on node
  python3 tools/c20_vet.py boa     same against harness/target/debug/hrealm
Prints every disagreement; the independence matrix (which sabotage disturbs which other probe) is printed as the
`DEPS` table to paste into the catalogue if it changes."""
import json, os, subprocess, sys, tempfile
sys.path.insert(0, os.path.dirname(os.path.abspath(__file__)))
import c20_catalogue as cat

ROOT = os.path.dirname(os.path.dirname(os.path.abspath(__file__)))


def run(engine, scs):
    with tempfile.NamedTemporaryFile("w", suffix=".ndjson", delete=False) as f:
        for s in scs:
            f.write(json.dumps(s) + "\n")
        name = f.name
    if engine == "node":
        cmd = ["/usr/bin/nodejs", os.path.join(ROOT, "tools", "c20_node_emul.js"), name]
    else:
        cmd = [os.path.join(ROOT, "harness", "target", "debug", "hrealm"), "--batch", "64", name]
    p = subprocess.run(cmd, stdout=subprocess.PIPE, stderr=subprocess.PIPE, text=True)
    os.unlink(name)
    out = {}
    for l in p.stdout.splitlines():
        if l.startswith("{"):
            r = json.loads(l)
            out[r["id"]] = r
    if p.returncode != 0:
        print("engine exit", p.returncode, p.stderr[-2000:])
    return out


def ev(realm, src):
    return {"op": "eval", "realm": realm, "src": src}


def status_after(path, how):
    """abstract status of `path` itself after one sabotage `how` on a pristine realm (mirror of Realms.tla Apply)"""
    a = cat.BY_PATH[path]["attrs"]
    if how == "overwrite":
        return "repl" if a == "wc" else "orig"
    if how == "delete":
        return "absent" if a[1] == "c" else "orig"
    if how == "getter":
        return "getter" if a[1] == "c" else "orig"
    return "orig"


def main():
    engine = sys.argv[1] if len(sys.argv) > 1 else "node"
    base = [{"op": "newctx", "ctx": "A", "realm": "A1"}, ev("A1", cat.prelude())]
    scs, meta = [], {}
    n = 0
    for p in cat.PATHS:
        e = cat.BY_PATH[p]
        cases = [("orig", None, None)]
        for how in ("overwrite", "delete", "getter"):
            cases.append((status_after(p, how), how, p))
            if e["via"]:
                cases.append(("ns-" + status_after(e["via"], how), how, e["via"]))
        for status, how, target in cases:
            steps = list(base)
            if how:
                steps.append(ev("A1", cat.sab_src(how, target)))
            steps.append(ev("A1", cat.probe_src(p)))
            scs.append({"id": n, "steps": steps})
            meta[n] = ("status", p, status, how, target)
            n += 1
    # independence: sabotage q, probe p
    for q in cat.PATHS:
        for how in ("overwrite", "delete", "getter", "freeze", "proto"):
            steps = list(base) + [ev("A1", cat.sab_src(how, q))]
            for p in cat.PATHS:
                steps.append(ev("A1", cat.probe_src(p)))
            scs.append({"id": n, "steps": steps})
            meta[n] = ("indep", q, how)
            n += 1
    res = run(engine, scs)
    bad = 0
    deps = {}
    for i in range(n):
        r = res.get(i)
        m = meta[i]
        if r is None or "panic" in r:
            print("NO RESULT", m, r)
            bad += 1
            continue
        if m[0] == "status":
            _, p, status, how, target = m
            st = r["steps"][-1]
            exp = cat.expand(cat.BY_PATH[p]["lines"][status.replace("ns-orig", "orig")], "A1", "A1", "A1")
            if st.get("out") != exp:
                bad += 1
                print("MISMATCH", p, status, how, target, "\n   expected", exp, "\n   got     ", st.get("out"), st.get("c"))
        else:
            _, q, how = m
            for k, p in enumerate(cat.PATHS):
                if p == q or cat.BY_PATH[p]["via"] == q:
                    continue
                if how in ("freeze", "proto"):
                    pass
                st = r["steps"][len(base) + 1 + k]
                exp = cat.expand(cat.BY_PATH[p]["lines"]["orig"], "A1", "A1", "A1")
                if st.get("out") != exp:
                    same_holder = cat.BY_PATH[p]["holder"] == cat.BY_PATH[q]["holder"]
                    if how in ("freeze", "proto") and same_holder and st.get("out") == exp:
                        continue
                    deps.setdefault(p, set()).add((q, how))
    print("DEPS (probe <- sabotage that disturbs it):")
    for p in sorted(deps):
        print("  ", p, "<-", sorted(deps[p]))
    print("mismatches:", bad)


if __name__ == "__main__":
    main()
