#!/usr/bin/env python3
"""Generates spec/vm/CodeBlockOps.tla (the opcode table of CodeBlockWF.tla) from the engine source.

What comes from the source (core/engine/src/vm/opcode/mod.rs `generate_opcodes!` and the handler
files next to it): the opcode list, operand names and operand types, and whether a handler can raise
an exception that the block's own handlers see (its `operation` returns JsResult / ControlFlow / JsError).
What is stated here by hand (read off the handlers, see the comments): the role of each index operand
(which table it indexes) and the abstract effect of the few opcodes that touch the environment chain,
the binding-reference stack or the value stack, or that transfer control.

An opcode that is in the source but not classified below is an error: the table must be extended by a
person, it is never defaulted.  `./check C03` additionally compares the committed table with the
instruction set reported by the engine it was built against (`hdump --sig`) and exits 2 on any difference.

usage: tools/c03_optable.py [--repo /repo] [--check]     (--check: exit 1 if the committed file is stale)
"""
import os
import re
import sys

ROOT = os.path.dirname(os.path.dirname(os.path.abspath(__file__)))
OUT = os.path.join(ROOT, "spec", "vm", "CodeBlockOps.tla")

KIND = {"RegisterOperand": "reg", "IndexOperand": "index", "Address": "addr", "u8": "u8", "u16": "u16", "u32": "u32",
        "u64": "u64", "i8": "i8", "i16": "i16", "i32": "i32", "f32": "f32", "f64": "f64",
        "ThinVec<RegisterOperand>": "vec_reg", "ThinVec<Address>": "vec_addr", "ThinVec<u32>": "vec_u32"}

# role of IndexOperand fields by name (table the VM indexes with it); "imm" = not an index
INDEX_ROLE_BY_NAME = {"binding_index": "bind", "ic_index": "ic", "name_index": "str", "scope_index": "scope",
                      "argument_count": "argc", "pattern_index": "str", "flags_index": "str", "message": "str",
                      "prefix": "imm", "done": "imm", "phase": "imm", "is_anonymous_function": "imm"}
# ... and for the fields simply called `index`, per opcode (read off the handlers)
INDEX_ROLE_BY_OP = {("StoreLiteral", "index"): "lit",              # constants[i] must be String or BigInt
                    ("GetFunction", "index"): "fn",                # constant_function(i)
                    ("GetArgument", "index"): "imm",               # argument position, any value is fine
                    ("ThrowMutateImmutable", "index"): "str",      # constant_string(i)
                    ("ThisForObjectEnvironmentName", "index"): "bind",  # bindings[i]
                    ("InPrivate", "index"): "str"}                 # constant_string(i)
# raw u32 operands that are really registers / constant indices
RAW_ROLE = {("JumpTable", "index"): "reg",                        # get_register(index)
            ("TemplateCreate", "values"): "regs",                 # get_register(value) for each
            ("PushPrivateEnvironment", "name_indices"): "strs"}   # constant_string(index) for each

# Abstract effects.  E(succ, env, bind, pop, push, argc, tb, tpop, targc, calls)
#   succ   normal successors: fall | jump (address operands only) | branch (fall-through and address operands)
#          | throw (none) | return (leaves the block) | reserved (must not occur)
#   env    change of the environment chain length       bind   change of the binding-reference stack length
#   pop/push  values popped from / pushed on the value stack above the register file; argc = name of the
#          operand whose value is added to pop
#   tb / tpop / targc  what has already been removed from the binding-reference stack / value stack when the
#          handler may still raise (lower bound of the depths an exceptional edge arrives with)
#   calls  the handler pushes a call frame: an exception of the callee is looked up at the *next* pc
def E(succ="fall", env=0, bind=0, pop=0, push=0, argc="", tb=0, tpop=0, targc=False, calls=False):
    return dict(succ=succ, env=env, bind=bind, pop=pop, push=push, argc=argc, tb=tb, tpop=tpop, targc=targc, calls=calls)


SPECIAL = {
    # value stack
    "Pop": E(pop=1), "PopIntoRegister": E(pop=1), "PushFromRegister": E(push=1),
    # calls: stack is `this, function, arg1..argN` => result   (vm/opcode/call, new, environment)
    "Call": E(pop=2, argc="argument_count", push=1, calls=True),
    "CallEval": E(pop=2, argc="argument_count", push=1, calls=True, tpop=2, targc=True),  # direct eval pops everything, then may throw
    "New": E(pop=2, argc="argument_count", push=1, calls=True),
    "SuperCall": E(pop=2, argc="argument_count", push=1, calls=True),
    # spread calls: `this, function, arguments_array` => result
    "CallSpread": E(pop=3, push=1, calls=True, tpop=1),
    "CallEvalSpread": E(pop=3, push=1, calls=True, tpop=3),
    "NewSpread": E(pop=3, push=1, calls=True, tpop=2),
    "SuperCallSpread": E(pop=3, push=1, calls=True, tpop=2),
    "SuperCallDerived": E(push=1, calls=True),          # pushes this/function/arguments itself
    # generators: on resumption the VM pushes `value, resume_kind` (GeneratorContext::resume)
    "Generator": E(push=1),                             # first resumption pushes the resume kind only
    "AsyncGenerator": E(push=2),                        # AsyncGenerator::resume always passes Some(value)
    "GeneratorYield": E(push=2), "AsyncGeneratorYield": E(push=2), "Await": E(push=2),
    # environments
    "PushScope": E(env=1), "PushObjectEnvironment": E(env=1), "PopEnvironment": E(env=-1),
    # binding references
    "GetLocator": E(bind=1), "GetNameAndLocator": E(bind=1),
    "SetNameByLocator": E(bind=-1, tb=-1),              # pops the reference first, may throw afterwards
    # control transfer
    "Jump": E(succ="jump"),
    "JumpIfTrue": E(succ="branch"), "JumpIfFalse": E(succ="branch"), "JumpIfNotUndefined": E(succ="branch"),
    "JumpIfNullOrUndefined": E(succ="branch"), "JumpIfNotLessThan": E(succ="branch"),
    "JumpIfNotLessThanOrEqual": E(succ="branch"), "JumpIfNotGreaterThan": E(succ="branch"),
    "JumpIfNotGreaterThanOrEqual": E(succ="branch"), "JumpIfNotEqual": E(succ="branch"),
    "LogicalAnd": E(succ="branch"), "LogicalOr": E(succ="branch"), "Coalesce": E(succ="branch"),
    "Case": E(succ="branch"), "TemplateLookup": E(succ="branch"), "JumpTable": E(succ="branch"),
    "Throw": E(succ="throw"), "ReThrow": E(succ="throw"), "ThrowNewTypeError": E(succ="throw"),
    "ThrowNewReferenceError": E(succ="throw"), "ThrowMutateImmutable": E(succ="throw"),
    "DeleteSuperThrow": E(succ="throw"),
    "Return": E(succ="return"),
}

# Opcodes that only read/write registers, tables and the heap (no depth changes, fall through).
PLAIN = """StoreZero StoreOne StoreInt8 StoreInt16 StoreInt32 StoreFloat StoreDouble StoreNan StorePositiveInfinity
StoreNegativeInfinity StoreNull StoreTrue StoreFalse StoreUndefined StoreLiteral StoreRegexp StoreEmptyObject
StoreClassPrototype SetClassPrototype SetHomeObject GetHomeObject SetPrototype GetPrototype StoreNewArray
PushValueToArray PushElisionToArray PushIteratorToArray Add Sub Div Mul Mod Pow ShiftRight ShiftLeft
UnsignedShiftRight BitOr BitAnd BitXor BitNot In InPrivate Eq StrictEq NotEq StrictNotEq GreaterThan
GreaterThanOrEq LessThan LessThanOrEq InstanceOf TypeOf LogicalNot Pos Neg Inc Dec DefVar DefInitVar
PutLexicalValue GetArgument GetName GetNameGlobal GetNameOrUndefined SetName DeleteName GetMethod
GetLengthProperty GetPropertyByName GetPropertyByNameWithThis GetPropertyByValue GetPropertyByValuePush
SetPropertyByName SetPropertyByNameWithThis SetFunctionName DefineOwnPropertyByName
DefineClassStaticMethodByName DefineClassMethodByName SetPropertyByValue DefineOwnPropertyByValue
DefineClassStaticMethodByValue DefineClassMethodByValue SetPropertyGetterByName DefineClassStaticGetterByName
DefineClassGetterByName SetPropertyGetterByValue DefineClassStaticGetterByValue DefineClassGetterByValue
SetPropertySetterByName DefineClassStaticSetterByName DefineClassSetterByName SetPropertySetterByValue
DefineClassStaticSetterByValue DefineClassSetterByValue SetPrivateField DefinePrivateField SetPrivateMethod
SetPrivateSetter SetPrivateGetter GetPrivateField PushClassField PushClassFieldPrivate PushClassPrivateGetter
PushClassPrivateSetter PushClassPrivateMethod DeletePropertyByName DeletePropertyByValue CopyDataProperties
ToPropertyKey Exception MaybeException GetFunctionObject This ThisForObjectEnvironmentName BindThisValue
ImportCall GetFunction CheckReturn AsyncGeneratorClose SetAccumulator SetRegisterFromAccumulator Move
IncrementLoopIteration CreateForInIterator GetIterator GetAsyncIterator IteratorPop IteratorPush IteratorNext
IteratorUpdateResult IteratorDone IteratorFinishAsyncNext IteratorValue IteratorResult IteratorToArray
IteratorStackEmpty CreateIteratorResult IteratorReturn ConcatToString ValueNotNullOrUndefined RestParameterInit
CreatePromiseCapability NewTarget ImportMeta IsObject TemplateCreate PushPrivateEnvironment PopPrivateEnvironment
CreateMappedArgumentsObject CreateUnmappedArgumentsObject DefEvalVar""".split()

# `throws` for handlers generated by macros (binary_ops/macro_defined.rs returns JsResult; push/mod.rs and
# push/numbers.rs return nothing), and the deliberate deviations from the return-type rule.
MACRO_THROWS = {op: True for op in """Add Sub Div Mul Mod Pow ShiftRight ShiftLeft UnsignedShiftRight BitOr BitAnd BitXor Eq
NotEq GreaterThan GreaterThanOrEq LessThan LessThanOrEq InstanceOf""".split()}
MACRO_THROWS.update({op: False for op in """StoreZero StoreOne StoreInt8 StoreInt16 StoreInt32 StoreFloat StoreDouble StoreNan
StorePositiveInfinity StoreNegativeInfinity StoreNull StoreTrue StoreFalse StoreUndefined""".split()})
THROWS_OVERRIDE = {
    "Return": False,          # handle_return
    "CheckReturn": False,     # raises through handle_throw: never seen by this block's handlers
    "GeneratorYield": False,  # handle_yield only
}


def parse_opcodes(repo):
    src = open(os.path.join(repo, "core/engine/src/vm/opcode/mod.rs")).read()
    i = src.index("generate_opcodes! {\n")
    body = src[i + len("generate_opcodes! {"):]
    body = body[:body.rindex("}")]
    body = re.sub(r"//[^\n]*", "", body)
    ops = []
    for m in re.finditer(r"(\w+)\s*(\{([^}]*)\})?\s*(=>\s*(\w+))?\s*,", body):
        fields = []
        if m.group(3):
            for f in m.group(3).split(","):
                f = f.strip()
                if f:
                    n, t = f.split(":")
                    fields.append((n.strip(), t.strip()))
        ops.append((m.group(1), fields, m.group(5)))
    return ops


def parse_returns(repo):
    rets = {}
    base = os.path.join(repo, "core/engine/src/vm/opcode")
    for dp, _ds, fs in os.walk(base):
        for f in fs:
            if not f.endswith(".rs") or f == "args.rs" or (dp == base and f == "mod.rs"):
                continue
            t = open(os.path.join(dp, f)).read()
            for m in re.finditer(r"impl\s+(\w+)\s*\{\s*(?:#\[[^\]]*\]\s*)*pub\(?[a-z:() ]*\)?\s*fn operation\s*\((.*?)\)\s*(->\s*([^{]+?))?\s*\{", t, re.S):
                rets[m.group(1)] = (m.group(4) or "()").strip()
    return rets


def role_of(op, name, typ):
    if (op, name) in RAW_ROLE:
        return RAW_ROLE[(op, name)]
    k = KIND.get(typ)
    if k is None:
        raise SystemExit(f"c03_optable: operand type {typ} of {op}.{name} is unknown: extend KIND")
    if k == "reg":
        return "reg"
    if k == "addr":
        return "addr"
    if k == "vec_reg":
        return "regs"
    if k == "vec_addr":
        return "addrs"
    if k == "index":
        if (op, name) in INDEX_ROLE_BY_OP:
            return INDEX_ROLE_BY_OP[(op, name)]
        if name in INDEX_ROLE_BY_NAME:
            return INDEX_ROLE_BY_NAME[name]
        raise SystemExit(f"c03_optable: index operand {op}.{name} is not classified: extend INDEX_ROLE_*")
    if k in ("vec_u32", "u32"):
        raise SystemExit(f"c03_optable: raw operand {op}.{name} is not classified: extend RAW_ROLE")
    return "imm"


def tla_bool(b):
    return "TRUE" if b else "FALSE"


def generate(repo):
    ops = parse_opcodes(repo)
    rets = parse_returns(repo)
    rows = []
    for op, fields, mapping in ops:
        if mapping == "Reserved" or op.startswith("Reserved"):
            rows.append((op, [], E(succ="reserved"), False))
            continue
        if op in SPECIAL:
            eff = SPECIAL[op]
        elif op in PLAIN:
            eff = E()
        else:
            raise SystemExit(f"c03_optable: opcode {op} is not classified (add it to SPECIAL or PLAIN after reading its handler)")
        if op in THROWS_OVERRIDE:
            throws = THROWS_OVERRIDE[op]
        elif op in MACRO_THROWS:
            throws = MACRO_THROWS[op]
        elif op in rets:
            throws = rets[op] != "()"
        else:
            raise SystemExit(f"c03_optable: no `fn operation` found for {op}: extend MACRO_THROWS")
        roles = [(n, KIND[t], role_of(op, n, t)) for n, t in fields]
        if eff["argc"] and eff["argc"] not in [n for n, _ in fields]:
            raise SystemExit(f"c03_optable: {op} has no operand {eff['argc']}")
        rows.append((op, roles, eff, throws))
    known = {r[0] for r in rows}
    for op in list(SPECIAL) + PLAIN:
        if op not in known:
            raise SystemExit(f"c03_optable: {op} is classified but no longer in the instruction set")
    out = []
    out.append("---------------------------- MODULE CodeBlockOps ----------------------------")
    out.append("(* GENERATED by tools/c03_optable.py from core/engine/src/vm/opcode/ -- do not edit by hand.")
    out.append("   One row per opcode of the VM: operand signature (name, operand kind as encoded, role = which table")
    out.append("   the operand indexes) and abstract effect.  Legend:")
    out.append("     roles  reg(s) register(s) | addr(s) jump target(s) | str / lit / fn / scope constant of that kind |")
    out.append("            strs string constants | bind binding locator | ic inline cache | argc argument count | imm immediate")
    out.append("     succ   fall | jump | branch (fall-through + address operands) | throw | return | reserved")
    out.append("     env, bind   change of environment-chain / binding-reference-stack length")
    out.append("     pop (+ value of operand `argc`), push   value-stack effect above the register file")
    out.append("     throws  the handler can raise an exception that this block's handlers see")
    out.append("     calls   it pushes a call frame (callee exceptions are looked up at the next pc)")
    out.append("     tb, tpop (+ argc if targc)  already removed from the binding-reference / value stack when it raises *)")
    out.append("EXTENDS Integers, Sequences, TLC")
    out.append("")
    out.append("Op(roles, succ, env, bind, pop, push, argc, throws, calls, tb, tpop, targc) ==")
    out.append("  [roles |-> roles, succ |-> succ, env |-> env, bind |-> bind, pop |-> pop, push |-> push, argc |-> argc,")
    out.append("   throws |-> throws, calls |-> calls, tb |-> tb, tpop |-> tpop, targc |-> targc]")
    out.append("")
    out.append("OpTable ==")
    lines = []
    for op, roles, e, throws in rows:
        rs = ", ".join(f'<<"{n}", "{k}", "{r}">>' for n, k, r in roles)
        lines.append(f'  "{op}" :> Op(<<{rs}>>, "{e["succ"]}", {e["env"]}, {e["bind"]}, {e["pop"]}, {e["push"]}, "{e["argc"]}", '
                     f'{tla_bool(throws)}, {tla_bool(e["calls"])}, {e["tb"]}, {e["tpop"]}, {tla_bool(e["targc"])})')
    out.append(" @@\n".join(lines))
    out.append("")
    out.append("=============================================================================")
    return "\n".join(out) + "\n"


def main():
    repo = "/repo"
    if "--repo" in sys.argv:
        repo = sys.argv[sys.argv.index("--repo") + 1]
    text = generate(repo)
    if "--check" in sys.argv:
        old = open(OUT).read() if os.path.exists(OUT) else ""
        if old != text:
            print("spec/vm/CodeBlockOps.tla is stale: run tools/c03_optable.py")
            return 1
        print("spec/vm/CodeBlockOps.tla is up to date")
        return 0
    os.makedirs(os.path.dirname(OUT), exist_ok=True)
    with open(OUT, "w") as f:
        f.write(text)
    print(f"wrote {OUT}")
    return 0


if __name__ == "__main__":
    sys.exit(main())
