#!/usr/bin/env python3
"""C20: the catalogue of intrinsic *paths* (what a script can sabotage) and of the *probes* that observe them.

One entry per path: holder object, key, initial attributes, a `use` (JS function body that reaches the intrinsic
the way ordinary programs do - a literal, an operator, a protocol, a bare global name) and, per abstract status of the
path (orig | repl | absent | getter, and ns-repl | ns-absent | ns-getter when the use first resolves a global name
`via`), the lines the probe must print.  Lines are (who, text): who = "own" for lines printed by the functions the
sabotage installed (they live in the realm whose table was sabotaged) and "use" for lines printed by the probe
wrapper (the realm that evaluates).  `E:TypeError` in a text stands for an error object created in the realm that
owns the code that failed: rendered `o:Error:TypeError` when that realm is the printing one, `o:Object` otherwise
(the native renderer only knows the printing realm's error prototypes - cross-realm identity, ECMA-262 10.2.1.1 /
GetFunctionRealm).

The expected lines are statements about ECMA-262, authored here and cross-checked once at development time against
node (tools/c20_vet_node.py, not a registered command).  spec/realm/RealmsCatalogue.tla is generated from this file
(`python3 tools/c20_catalogue.py --write`); the check refuses to run when it is stale.
"""
import json
import os
import sys

HOWS = ["overwrite", "delete", "freeze", "getter", "proto"]

# holder name -> (JS expression evaluated in the pristine realm, immutable [[Prototype]]?, holder-level hows allowed)
HOLDERS = {
    "globalThis": ("globalThis", False, False),
    "Object.prototype": ("Object.prototype", True, True),
    "Array.prototype": ("Array.prototype", False, True),
    "Function.prototype": ("Function.prototype", False, True),
    "String.prototype": ("String.prototype", False, True),
    "Number.prototype": ("Number.prototype", False, True),
    "Promise.prototype": ("Promise.prototype", False, True),
    "Error.prototype": ("Error.prototype", False, True),
    "Map.prototype": ("Map.prototype", False, True),
    "Set.prototype": ("Set.prototype", False, True),
    "RegExp.prototype": ("RegExp.prototype", False, True),
    "ArrayIteratorPrototype": ("Object.getPrototypeOf([][Symbol.iterator]())", False, True),
    "Object": ("Object", False, True),
    "Array": ("Array", False, True),
    "Promise": ("Promise", False, True),
    "Symbol": ("Symbol", False, True),
    "Number": ("Number", False, True),
    "Math": ("Math", False, True),
    "JSON": ("JSON", False, True),
    "Reflect": ("Reflect", False, True),
}

KEYS = {"@@iterator": "Symbol.iterator", "@@hasInstance": "Symbol.hasInstance"}


def U(t): return ["use", t]
def W(t): return ["own", t]


def method_lines(T, orig):
    return {"orig": [U(f"{T} ret {orig}")],
            "repl": [W(f"s:SAB s:{T}"), U(f"{T} ret s:sab")],
            "absent": [U(f"{T} throw E:TypeError")],
            "getter": [W(f"s:GET s:{T}"), W(f"s:SABG s:{T}"), U(f"{T} ret s:sabg")]}


def value_lines(T, orig):
    return {"orig": [U(f"{T} ret {orig}")],
            "repl": [U(f"{T} ret o:Function")],
            "absent": [U(f"{T} ret u")],
            "getter": [W(f"s:GET s:{T}"), U(f"{T} ret o:Function")]}


def ns_obj(T, G):      # `G.m(...)`: G replaced by a function without `m`
    return {"ns-repl": [U(f"{T} throw E:TypeError")],
            "ns-absent": [U(f"{T} throw E:ReferenceError")],
            "ns-getter": [W(f"s:GET s:{G}"), U(f"{T} throw E:TypeError")]}


def ns_new(T, G):      # `new G().m(...)`
    return {"ns-repl": [W(f"s:SAB s:{G}"), U(f"{T} throw E:TypeError")],
            "ns-absent": [U(f"{T} throw E:ReferenceError")],
            "ns-getter": [W(f"s:GET s:{G}"), W(f"s:SABG s:{G}"), U(f"{T} throw E:TypeError")]}


def _mk():
    C = []

    def add(path, holder, key, attrs, kind, use, orig, via=None, vkind=None, over=None, deps=None):
        T = path
        if kind in ("method", "gfunc"):
            L = method_lines(T, orig)
            if kind == "gfunc":
                L["absent"] = [U(f"{T} throw E:ReferenceError")]
        elif kind == "value":
            L = value_lines(T, orig)
        else:
            L = {"orig": [U(f"{T} ret {orig}")]}
        if via:
            L.update(ns_obj(T, via) if vkind == "obj" else ns_new(T, via))
        if over:
            L.update(over)
        C.append({"path": path, "holder": holder, "key": key, "attrs": attrs, "kind": kind, "use": use,
                  "via": via, "deps": list(deps or []), "lines": L})

    G = "globalThis"
    # ---- global bindings (also the `via` names of the paths below)
    for name, typ in [("Object", "function"), ("Array", "function"), ("Promise", "function"), ("Symbol", "function"),
                      ("Number", "function"), ("Error", "function"), ("Map", "function"), ("Set", "function"),
                      ("Math", "object"), ("JSON", "object"), ("Reflect", "object"), ("globalThis", "object")]:
        T = f"{G}.{name}"
        add(T, G, name, "wc", "custom", f"var v={name}; return typeof v==='function' ? v.name : typeof v",
            f"s:{name}" if typ == "function" else "s:object", over={
            "repl": [U(f"{T} ret s:repl")], "absent": [U(f"{T} throw E:ReferenceError")],
            "getter": [W(f"s:GET s:{T}"), U(f"{T} ret s:sabg")]})
    add(f"{G}.parseInt", G, "parseInt", "wc", "gfunc", "return parseInt('42')", "n:42")
    add(f"{G}.isNaN", G, "isNaN", "wc", "gfunc", "return isNaN(NaN)", "b:true")
    add(f"{G}.NaN", G, "NaN", "--", "value", "return NaN", "n:NaN")
    add(f"{G}.undefined", G, "undefined", "--", "value", "return undefined", "u")
    add(f"{G}.Infinity", G, "Infinity", "--", "value", "return Infinity", "n:Infinity")
    # ---- Object.prototype
    add("Object.prototype.toString", "Object.prototype", "toString", "wc", "method", "return ({}).toString()", "s:[object Object]")
    add("Object.prototype.hasOwnProperty", "Object.prototype", "hasOwnProperty", "wc", "method", "return ({a:1}).hasOwnProperty('a')", "b:true")
    add("Object.prototype.valueOf", "Object.prototype", "valueOf", "wc", "method", "return ({}).valueOf()", "o:Object")
    # ---- Array.prototype
    add("Array.prototype.push", "Array.prototype", "push", "wc", "method", "return [1].push(2)", "n:2")
    add("Array.prototype.map", "Array.prototype", "map", "wc", "method", "return [1,2].map(function(x){return x+1})", "o:Array(2)")
    add("Array.prototype.join", "Array.prototype", "join", "wc", "method", "return [1,2].join('-')", "s:1-2")
    add("Array.prototype.indexOf", "Array.prototype", "indexOf", "wc", "method", "return [5,6].indexOf(6)", "n:1")
    add("Array.prototype.concat", "Array.prototype", "concat", "wc", "method", "return [1].concat([2])", "o:Array(2)")
    T = "Array.prototype.@@iterator"
    add(T, "Array.prototype", "@@iterator", "wc", "custom", "var s=0; for (var x of [1,2]) s+=x; return s", "n:3", deps=["ArrayIteratorPrototype.next"], over={
        "repl": [W(f"s:SAB s:{T}"), U(f"{T} throw E:TypeError")], "absent": [U(f"{T} throw E:TypeError")],
        "getter": [W(f"s:GET s:{T}"), W(f"s:SABG s:{T}"), U(f"{T} throw E:TypeError")]})
    T = "ArrayIteratorPrototype.next"
    add(T, "ArrayIteratorPrototype", "next", "wc", "custom", "var a=0; for (var x of [4,5]) a+=x; return a", "n:9", deps=["Array.prototype.@@iterator"], over={
        "repl": [W(f"s:SAB s:{T}"), U(f"{T} throw E:TypeError")], "absent": [U(f"{T} throw E:TypeError")],
        "getter": [W(f"s:GET s:{T}"), W(f"s:SABG s:{T}"), U(f"{T} throw E:TypeError")]})
    # ---- Function.prototype
    add("Function.prototype.call", "Function.prototype", "call", "wc", "method", "return (function(){return 7}).call()", "n:7")
    add("Function.prototype.apply", "Function.prototype", "apply", "wc", "method", "return (function(a){return a}).apply(null,[3])", "n:3")
    add("Function.prototype.bind", "Function.prototype", "bind", "wc", "method", "return (function(){return 7}).bind(null)", "o:Function")
    add("Function.prototype.@@hasInstance", "Function.prototype", "@@hasInstance", "--", "value",
        "function F(){}; return new F() instanceof F", "b:true")
    # ---- String / Number prototypes
    add("String.prototype.toUpperCase", "String.prototype", "toUpperCase", "wc", "method", "return 'ab'.toUpperCase()", "s:AB")
    add("String.prototype.charAt", "String.prototype", "charAt", "wc", "method", "return 'ab'.charAt(1)", "s:b")
    add("String.prototype.split", "String.prototype", "split", "wc", "method", "return 'a,b'.split(',')", "o:Array(2)")
    T = "String.prototype.@@iterator"
    add(T, "String.prototype", "@@iterator", "wc", "custom", "var n=0; for (var c of 'ab') n++; return n", "n:2", over={
        "repl": [W(f"s:SAB s:{T}"), U(f"{T} throw E:TypeError")], "absent": [U(f"{T} throw E:TypeError")],
        "getter": [W(f"s:GET s:{T}"), W(f"s:SABG s:{T}"), U(f"{T} throw E:TypeError")]})
    add("Number.prototype.toString", "Number.prototype", "toString", "wc", "method", "return (255).toString(16)", "s:ff", over={
        "absent": [U("Number.prototype.toString ret s:[object Number]")]}, deps=["Object.prototype.toString"])   # falls through to the inherited one
    add("Number.prototype.toFixed", "Number.prototype", "toFixed", "wc", "method", "return (1.5).toFixed(0)", "s:2")
    # ---- Promise
    T = "Promise.prototype.then"
    use = "var p=(async function(){return 1})(); return p.then(function(v){print('%s','then',v)})" % T
    add(T, "Promise.prototype", "then", "wc", "custom", use, "o:Object", over={
        "orig": [U(f"{T} ret o:Object"), W(f"s:{T} s:then n:1")],
        "repl": [W(f"s:SAB s:{T}"), U(f"{T} ret s:sab")], "absent": [U(f"{T} throw E:TypeError")],
        "getter": [W(f"s:GET s:{T}"), W(f"s:SABG s:{T}"), U(f"{T} ret s:sabg")]})
    add("Promise.resolve", "Promise", "resolve", "wc", "method", "return Promise.resolve(5)", "o:Object", via=f"{G}.Promise", vkind="obj")
    # ---- Error.prototype
    add("Error.prototype.toString", "Error.prototype", "toString", "wc", "method",
        "try { null.x } catch (e) { e.message='m'; return e.toString() }", "s:TypeError: m", over={
            "absent": [U("Error.prototype.toString ret s:[object Error]")]}, deps=["Object.prototype.toString"])
    T = "Error.prototype.name"
    add(T, "Error.prototype", "name", "wc", "value", "return new Error('m').name", "s:Error", via=f"{G}.Error", vkind="new", over={
        "ns-repl": [W(f"s:SAB s:{G}.Error"), U(f"{T} ret u")],
        "ns-getter": [W(f"s:GET s:{G}.Error"), W(f"s:SABG s:{G}.Error"), U(f"{T} ret u")]})
    # ---- Map / Set
    add("Map.prototype.set", "Map.prototype", "set", "wc", "method", "return new Map().set(1,2)", "o:Object", via=f"{G}.Map", vkind="new")
    T = "Map.prototype.size"
    add(T, "Map.prototype", "size", "ac", "custom", "return new Map().size", "n:0", via=f"{G}.Map", vkind="new", over={
        "absent": [U(f"{T} ret u")], "getter": [W(f"s:GET s:{T}"), U(f"{T} ret o:Function")],
        "repl": [U(f"{T} ret o:Function")],      # reachable only by delete-then-assign (the built-in accessor has no setter)
        "ns-repl": [W(f"s:SAB s:{G}.Map"), U(f"{T} ret u")],
        "ns-getter": [W(f"s:GET s:{G}.Map"), W(f"s:SABG s:{G}.Map"), U(f"{T} ret u")]})
    add("Set.prototype.add", "Set.prototype", "add", "wc", "method", "return new Set().add(1)", "o:Object", via=f"{G}.Set", vkind="new")
    # ---- RegExp
    add("RegExp.prototype.exec", "RegExp.prototype", "exec", "wc", "method", "return /a/.exec('b')", "null")
    # ---- constructors / namespaces reached through a global name
    add("Object.keys", "Object", "keys", "wc", "method", "return Object.keys({a:1})", "o:Array(1)", via=f"{G}.Object", vkind="obj")
    T = "Object.defineProperty"
    add(T, "Object", "defineProperty", "wc", "custom", "var o={}; Object.defineProperty(o,'x',{value:1}); return o.x", "n:1",
        via=f"{G}.Object", vkind="obj", over={
            "repl": [W(f"s:SAB s:{T}"), U(f"{T} ret u")], "absent": [U(f"{T} throw E:TypeError")],
            "getter": [W(f"s:GET s:{T}"), W(f"s:SABG s:{T}"), U(f"{T} ret u")]})
    add("Array.isArray", "Array", "isArray", "wc", "method", "return Array.isArray([])", "b:true", via=f"{G}.Array", vkind="obj")
    T = "Symbol.iterator"
    add(T, "Symbol", "iterator", "--", "value", "return Symbol.iterator", "y:Symbol.iterator", via=f"{G}.Symbol", vkind="obj", over={
        "ns-repl": [U(f"{T} ret u")], "ns-getter": [W(f"s:GET s:{G}.Symbol"), U(f"{T} ret u")]})
    add("Symbol.for", "Symbol", "for", "wc", "method", "return Symbol.for('k')", "y:k", via=f"{G}.Symbol", vkind="obj")
    add("Number.isInteger", "Number", "isInteger", "wc", "method", "return Number.isInteger(3)", "b:true", via=f"{G}.Number", vkind="obj")
    T = "Number.MAX_SAFE_INTEGER"
    add(T, "Number", "MAX_SAFE_INTEGER", "--", "value", "return Number.MAX_SAFE_INTEGER", "n:9007199254740991",
        via=f"{G}.Number", vkind="obj", over={
            "ns-repl": [U(f"{T} ret u")], "ns-getter": [W(f"s:GET s:{G}.Number"), U(f"{T} ret u")]})
    add("Math.max", "Math", "max", "wc", "method", "return Math.max(1,3)", "n:3", via=f"{G}.Math", vkind="obj")
    add("Math.floor", "Math", "floor", "wc", "method", "return Math.floor(2.5)", "n:2", via=f"{G}.Math", vkind="obj")
    T = "Math.PI"
    add(T, "Math", "PI", "--", "value", "return Math.PI > 3", "b:true", via=f"{G}.Math", vkind="obj", over={
        "ns-repl": [U(f"{T} ret b:false")], "ns-getter": [W(f"s:GET s:{G}.Math"), U(f"{T} ret b:false")]})
    add("JSON.stringify", "JSON", "stringify", "wc", "method", "return JSON.stringify({a:[1,'x']})", 's:{"a":[1,"x"]}', via=f"{G}.JSON", vkind="obj")
    add("JSON.parse", "JSON", "parse", "wc", "method", "return JSON.parse('[1,2]')", "o:Array(2)", via=f"{G}.JSON", vkind="obj")
    add("Reflect.ownKeys", "Reflect", "ownKeys", "wc", "method",
        "var k=Reflect.ownKeys({b:1,a:2,1:0}); return k[0]+k[1]+k[2]", "s:1ba", via=f"{G}.Reflect", vkind="obj", over={
            "getter": [W("s:GET s:Reflect.ownKeys"), W("s:SABG s:Reflect.ownKeys"), U("Reflect.ownKeys ret s:sab")]})
    return C


CATALOGUE = _mk()
BY_PATH = {e["path"]: e for e in CATALOGUE}
PATHS = [e["path"] for e in CATALOGUE]


def mate(path):
    """The second path a slice may sabotage together with `path`: the global name its use resolves first, else a
    neighbour on the same holder."""
    e = BY_PATH[path]
    if e["via"]:
        return e["via"]
    same = [x["path"] for x in CATALOGUE if x["holder"] == e["holder"] and x["path"] != path and x["attrs"] == "wc"]
    if not same:
        return path
    i = PATHS.index(path)
    return same[i % len(same)]


# ------------------------------------------------------------------------------------------- JS rendering
def js_str(s):
    return json.dumps(s)


def prelude():
    """Evaluated once in every realm right after creation (pristine): captures the holders and the reflection
    primitives it needs, installs the non-writable, non-configurable globals __sab(how, holder, key, tag) and
    __st(holder)."""
    hold = "".join(f"H[{js_str(n)}]={expr};" for n, (expr, _, _) in HOLDERS.items())
    keys = "".join(f"K[{js_str(k)}]={expr};" for k, expr in KEYS.items())
    return ("(function(){var O=Object,dp=O.defineProperty,fr=O.freeze,sp=O.setPrototypeOf,cr=O.create,isF=O.isFrozen,gp=O.getPrototypeOf;"
            "var H=cr(null),K=cr(null),P0=cr(null);" + hold + keys +
            "for(var n in H)P0[n]=gp(H[n]);"
            "function key(k){return k in K?K[k]:k}"
            "function sab(how,h,k,tag){var o=H[h],r='done';try{"
            "if(how==='overwrite'){o[key(k)]=function repl(){print('SAB',tag);return 'sab'}}"
            "else if(how==='delete'){r=delete o[key(k)]}"
            "else if(how==='freeze'){fr(o);r='ok'}"
            "else if(how==='getter'){var d=cr(null);d.get=function(){print('GET',tag);return function sabg(){print('SABG',tag);return 'sabg'}};"
            "d.configurable=true;dp(o,key(k),d);r='ok'}"
            "else if(how==='proto'){var p=cr(null);p.sabProto=1;sp(o,p);r='ok'}"
            "}catch(e){r=e}print('sab',how,r)}"
            "function st(h){var o=H[h];print('st',h,isF(o),gp(o)===P0[h])}"
            "var TE=TypeError,sf=Symbol.for;"
            "function make(k){if(k==='arr')return [1,2];if(k==='err')return new TE('x');if(k==='sym')return sf('k');"
            "if(k==='prom')return (async function(){return 5})();return cr(null)}"
            "var d3=cr(null);d3.value=make;dp(globalThis,'__make',d3);"
            "var d1=cr(null);d1.value=sab;dp(globalThis,'__sab',d1);var d2=cr(null);d2.value=st;dp(globalThis,'__st',d2);"
            "})()")


def sab_src(how, path):
    e = BY_PATH[path]
    return f"__sab({js_str(how)},{js_str(e['holder'])},{js_str(e['key'])},{js_str(path)})"


def use_fn(path):
    return "(function(){" + BY_PATH[path]["use"] + "})"


def probe_src(path, passed=False):
    """Wrapper: evaluates the use (its own, or the function found in the inbox) and prints ret / throw."""
    f = "__inbox()" if passed else use_fn(path)
    t = js_str(path)
    return ("(function(){var r;try{r=" + f + "()}catch(e){print(" + t + ",'throw',e);return}print(" + t + ",'ret',r)})()")


IDENT = {
    "arr": "(function(){var p=__inbox();print('ident',p instanceof Array,Array.isArray(p),Object.getPrototypeOf(p)===Array.prototype,p.length)})()",
    "err": "(function(){var p=__inbox();print('ident',p,p instanceof Error)})()",
    "prom": "(function(){var p=__inbox();print('ident',p instanceof Promise);p.then(function(v){print('ident','then',v)})})()",
    "sym": "(function(){var p=__inbox();print('ident',p===Symbol.for('k'),Symbol.keyFor(p),typeof p)})()",
}


# "rich" kinds: cross-realm identity rules of ECMA-262 seen through one handed-over object.  S = "the evaluating realm is
# the creator realm".  Each entry: (maker expression evaluated in the creator realm, probe evaluated in the receiving realm,
# expected lines with S / N(ot S) placeholders).  Rules exercised: 10.2.1.1 (function code runs in the function's realm:
# literals, arguments objects, template objects, closures, async / generator prototypes), 10.1.14 GetPrototypeFromConstructor
# + 7.3.24 GetFunctionRealm (also through bound functions and proxies), 10.4.2.2 ArraySpeciesCreate (foreign %Array% is
# ignored), 19.2.1 / 20.2.1.1 (indirect eval and `new Function` work in the realm of the eval / Function object they are
# called through), 27.2.4.7 PromiseResolve (a foreign promise is wrapped), 9.3 / 13.2.8.4 (template objects are per realm
# and per site).
RICH = {
    "xarr": ("[1,2]",
             "var p=__inbox();print('ident',p instanceof Array,Array.isArray(p),Array.prototype.map.call(p,function(x){return x}) instanceof Array,"
             "p.map(function(x){return x}) instanceof Array,Array.prototype.concat.call(p,[3]) instanceof Array,Array.from(p) instanceof Array,"
             "JSON.stringify(p),Object.prototype.toString.call(p),p.slice(0) instanceof Array,Array.prototype.slice.call(p,0) instanceof Array)",
             ["s:ident S b:true b:true S b:true b:true s:[1,2] s:[object Array] S b:true"]),
    "ufn": ("(function F(){})",
            "var f=__inbox();f.prototype=1;var o=Reflect.construct(Array,[],f);var q=new f();print('ident',Object.getPrototypeOf(o)===Array.prototype,"
            "Array.isArray(o),Object.getPrototypeOf(q)===Object.prototype,q instanceof Object,"
            "Object.getPrototypeOf(Reflect.construct(Object,[],f))===Object.prototype,Object.getPrototypeOf(Reflect.construct(Error,['m'],f))===Error.prototype,"
            "Object.getPrototypeOf(Reflect.construct(Map,[],f.bind(null)))===Map.prototype,"
            "Object.getPrototypeOf(Reflect.construct(Promise,[function(){}],new Proxy(f,{})))===Promise.prototype)",
            ["s:ident S b:true S S S S S S"]),
    "eval": ("eval", "var g=__inbox();print('ident',g('Array')===Array,g('this')===globalThis,g('[]') instanceof Array,g('typeof print'))",
             ["s:ident S S S s:function"]),
    "fctor": ("Function",
              "var F=__inbox();var h=new F('return [Array,this,[]]');var r=h();print('ident',r[0]===Array,r[1]===globalThis,r[2] instanceof Array,"
              "h instanceof Function,h instanceof F,Object.getPrototypeOf(h)===Function.prototype)",
              ["s:ident S S S S b:true S"]),
    "xprom": ("(async function(){return 5})()",
              "var p=__inbox();print('ident',Promise.resolve(p)===p,p instanceof Promise,p.then(function(){}) instanceof Promise,"
              "Promise.prototype.then.call(p,function(){}) instanceof Promise);(async function(){print('ident','aw',await p)})()",
              ["s:ident S S S S", "s:ident s:aw n:5"]),
    "xerr": ("new TypeError('x')",
             "var e=__inbox();print('ident',e,e instanceof Error,e instanceof TypeError,Object.prototype.toString.call(e),e.name,e.message,"
             "Error.prototype.toString.call(e));try{null.x}catch(t){print('ident',t instanceof TypeError)}",
             ["s:ident E S S s:[object Error] s:TypeError s:x s:TypeError: x", "s:ident b:true"]),
    "gen": ("(function*(){yield 1})",
            "var g=__inbox();var it=g();var IP=Object.getPrototypeOf(Object.getPrototypeOf(Object.getPrototypeOf((function*(){})())));"
            "print('ident',Object.getPrototypeOf(Object.getPrototypeOf(Object.getPrototypeOf(it)))===IP,it.next().value,[...g()].length,it[Symbol.iterator]()===it)",
            ["s:ident S n:1 n:1 b:true"]),
    "cls": ("(class K extends Array{})",
            "var K=__inbox();var k=new K();print('ident',k instanceof K,k instanceof Array,Array.isArray(k),k.map(function(x){return x}) instanceof K,"
            "Object.getPrototypeOf(K)===Array,Object.getPrototypeOf(K.prototype)===Array.prototype)",
            ["s:ident b:true S b:true b:true S S"]),
    "tmpl": ("(function(){function tag(s){return s}return [tag`a`,tag`a`,(function(){return tag`b`})(),Object.isFrozen(tag`c`),Array.isArray(tag`d`)]})",
             "var f=__inbox();var r=f();var r2=f();print('ident',r[0]===r[1],r[0] instanceof Array,r[3],r[4],r2[0]===r[0],Object.getPrototypeOf(r[0])===Array.prototype)",
             ["s:ident b:false S b:true b:true b:true S"]),
    "args": ("(function(){return [arguments,/x/,function(){},()=>1,{},[],new.target,class{},async function(){},function*(){}]})",
             "var f=__inbox();var r=f(1);print('ident',Object.getPrototypeOf(r[0])===Object.prototype,r[1] instanceof RegExp,r[2] instanceof Function,"
             "r[3] instanceof Function,r[4] instanceof Object,r[5] instanceof Array,r[7] instanceof Function,"
             "Object.getPrototypeOf(r[8])===Object.getPrototypeOf(async function(){}),Object.getPrototypeOf(r[9])===Object.getPrototypeOf(function*(){}),r instanceof Array)",
             ["s:ident S S S S S S S S S S"]),
    # 10.3.1 / 10.2.1: the realm of the calling frame is the caller's again after a foreign callee threw (native function,
    # bytecode function, native constructor) and the exception was caught in the same frame: literals, VM-created errors
    # and global lookups of the rest of that frame belong to the evaluating realm; only the caught error is foreign
    "xthrow": ("JSON.parse",
               "var f=__inbox();var A=Array,O=Object,F=Function,G=globalThis,E=SyntaxError;var r=(function(){var se;try{f('{')}catch(e){se=e instanceof E}"
               "return [se,[] instanceof A,({}) instanceof O,(function(){}) instanceof F,globalThis===G,Array===A,(function(){try{null.x}catch(t){return t instanceof TypeError}})()]})();"
               "print('ident',r[0],r[1],r[2],r[3],r[4],r[5],r[6])",
               ["s:ident S b:true b:true b:true b:true b:true b:true"]),
    "ufthrow": ("(function(){throw new RangeError('r')})",
                "var f=__inbox();var A=Array,O=Object,F=Function,G=globalThis,E=RangeError;var r=(function(){var se;try{f()}catch(e){se=e instanceof E}"
                "return [se,[] instanceof A,({}) instanceof O,(function(){}) instanceof F,globalThis===G,Array===A,/x/ instanceof RegExp]})();"
                "print('ident',r[0],r[1],r[2],r[3],r[4],r[5],r[6])",
                ["s:ident S b:true b:true b:true b:true b:true b:true"]),
    "xctor": ("Array",
              "var f=__inbox();var A=Array,O=Object,F=Function,G=globalThis,E=RangeError;var r=(function(){var se;try{new f(-1)}catch(e){se=e instanceof E}"
              "var ok=new f(2);return [se,[] instanceof A,({}) instanceof O,(function(){}) instanceof F,globalThis===G,Array===A,ok instanceof A]})();"
              "print('ident',r[0],r[1],r[2],r[3],r[4],r[5],r[6])",
              ["s:ident S b:true b:true b:true b:true b:true S"]),
}
for _k, (_m, _p, _l) in RICH.items():
    IDENT[_k] = "(function(){" + _p + "})()"


def ident_expect(kind, same, user):
    b = "b:true" if same else "b:false"
    if kind in RICH:
        out = []
        for line in RICH[kind][2]:
            toks = [b if t == "S" else (("o:Error:TypeError" if same else "o:Object") if t == "E" else t) for t in line.split(" ")]
            out.append([user, " ".join(toks)])
        return out
    if kind == "arr":
        return [[user, f"s:ident {b} b:true {b} n:2"]]
    if kind == "err":
        return [[user, "s:ident " + ("o:Error:TypeError" if same else "o:Object") + f" {b}"]]
    if kind == "prom":
        return [[user, f"s:ident {b}"], [user, "s:ident s:then n:5"]]
    if kind == "sym":
        return [[user, "s:ident b:true s:k s:symbol"]]
    raise KeyError(kind)


def make_src(kind, path=None):
    if kind in RICH:
        return RICH[kind][0]          # only made in pristine realms (the model withholds the prediction otherwise)
    return use_fn(path) if kind == "fn" else f"__make({js_str(kind)})"


def st_src(holder):
    return f"__st({js_str(holder)})"


def expand(lines, own, user, err_realm):
    """(who, text) lines -> [[channel, text]] for a use whose intrinsics resolve in realm `own`, evaluated by `user`;
    errors are created in `err_realm`."""
    out = []
    for who, text in lines:
        ch = own if who == "own" else user
        if who == "use":
            parts = text.split(" ")
            # tag and ret/throw marker are strings printed natively
            text = "s:" + parts[0] + " s:" + parts[1] + " " + " ".join(parts[2:])
            if "E:" in text:
                cls = text.split("E:")[1]
                text = text.split("E:")[0] + (f"o:Error:{cls}" if err_realm == user else "o:Object")
        out.append([ch, text])
    return out


# ------------------------------------------------------------------------------------------- TLA+ generation
def tla_catalogue():
    def q(s): return '"' + s + '"'
    L = ["---- MODULE RealmsCatalogue ----",
         "\\* GENERATED by tools/c20_catalogue.py --write from the catalogue of sabotage paths; do not edit.",
         "\\* w = writable data property, c = configurable, acc = accessor without setter; via = global path the",
         "\\* probe resolves first (\"\" if none); mate = second path a slice sabotages together with this one;",
         "\\* deps = other paths the probe of this path also reaches (its prediction is withheld when one of them is not pristine).",
         "EXTENDS TLC",
         "HolderSeq == <<" + ", ".join(q(h) for h in HOLDERS) + ">>",
         "HolderNames == {HolderSeq[i] : i \\in DOMAIN HolderSeq}",
         "ImmutableProto == {" + ", ".join(q(h) for h, v in HOLDERS.items() if v[1]) + "}",
         "HolderHows == {" + ", ".join(q(h) for h, v in HOLDERS.items() if v[2]) + "}",
         "PathSeq == <<" + ", ".join(q(p) for p in PATHS) + ">>",
         "PathInfo == ("]
    fr = []
    for e in CATALOGUE:
        a = e["attrs"]
        fr.append("  %s :> [holder |-> %s, w |-> %s, c |-> %s, acc |-> %s, via |-> %s, mate |-> %s, deps |-> %s]" % (
            q(e["path"]), q(e["holder"]),
            "TRUE" if a[0] == "w" else "FALSE", "TRUE" if a[1] == "c" else "FALSE", "TRUE" if a[0] == "a" else "FALSE",
            q(e["via"] or ""), q(mate(e["path"])), "{" + ", ".join(q(d) for d in e["deps"]) + "}"))
    L.append(" @@\n".join(fr) + ")")
    L.append("====")
    return "\n".join(L) + "\n"


TLA_PATH = os.path.join(os.path.dirname(os.path.dirname(os.path.abspath(__file__))), "spec", "realm", "RealmsCatalogue.tla")

if __name__ == "__main__":
    if "--write" in sys.argv:
        os.makedirs(os.path.dirname(TLA_PATH), exist_ok=True)
        open(TLA_PATH, "w").write(tla_catalogue())
        print("wrote", TLA_PATH, len(PATHS), "paths")
    else:
        print(len(PATHS), "paths,", len(HOLDERS), "holders")
