"""Configuration-difference checks over the MiniJS oracle (C04, C05, C10's trace clause).

One program, several engine configurations (compiler shortcuts, optimizer passes, collection schedules ...): every
configuration must produce the observation of the *reference* configuration, and the referee is JsCore.tla:
TLC evaluates every program of the run (same model gate as C01) and its expectation
  * decides which programs take part (OutOfModel programs are skipped, so every compared program is closed,
    deterministic and terminating by the model's judgement, not by boa's);
  * says which side of a disagreement is wrong (reported in the replay file and used by the signature);
  * is compared with every configuration as well: a configuration-independent disagreement belongs to C01 and is
    only counted here ("c01_class"), never reported.
A property failure of the calling check is a program whose observation under some configuration differs from its
observation under the reference configuration.

Programs: the deterministic interaction grids of tools/jscore.py and a committed corpus (corpus/<dir>/*.ndjson,
generated once from recorded seeds and kept when the MODEL evaluates them - not vetted against boa, so programs that
expose a configuration dependence on the unchanged tree stay in and are listed as known findings).
Each program runs as a script and (separately, with its own expectation) as the body of a function entered through
JsObject::call, because function-level bindings are the ones the compiler may keep in registers.
"""
import hashlib
import json
import os
import random
import sys
import time

sys.path.insert(0, os.path.dirname(os.path.abspath(__file__)))
import vlib
import jscore
from checks import C01 as c01

SAFETY = {"loop": 200000, "rec": 400}


def prog_key(ast):
    return hashlib.sha1(json.dumps(ast, sort_keys=True, separators=(",", ":")).encode()).hexdigest()[:16]


class Spec:
    """What one configuration-difference check consists of."""

    def __init__(self, pid, configs, reference, corpus_dir, what, min_nontrivial, families=None, entry_modes=("script", "call")):
        self.pid = pid
        self.configs = configs              # ordered list of (name, cfg dict); the first one is the default build
        self.reference = reference          # name of the reference configuration
        self.corpus_dir = os.path.join(vlib.ROOT, "corpus", corpus_dir)
        self.expected = os.path.join(self.corpus_dir, "expected_failures.json")
        self.what = what                    # words for the evidence rule
        self.min_nontrivial = min_nontrivial
        self.families = families
        self.entry_modes = entry_modes
        self.sig_names = None               # configurations named in signatures / cached records (None = all)
        self.quick_grid, self.quick_corpus = 700, 250      # size of the seed-selected slice of the quick tier
        self.extra_items = []               # (name, ast) programs of the check's own, always included
        self.raw_items = []                 # (name, JavaScript text) programs outside the modelled fragment: compared between
                                            # configurations only (no referee), see run_raw


def load_corpus(spec):
    out = []
    if os.path.isdir(spec.corpus_dir):
        for fn in sorted(os.listdir(spec.corpus_dir)):
            if fn.endswith(".ndjson"):
                with open(os.path.join(spec.corpus_dir, fn)) as f:
                    for line in f:
                        if line.strip():
                            o = json.loads(line)
                            out.append(("corpus/%s/%s" % (fn[:-7], o["id"]), o["ast"]))
    return out


def scenario(sid, ast, mode, cfg):
    c = dict(SAFETY)
    c.update(cfg)
    if mode == "call":
        d, _ = jscore.wrap_call(ast)
        return {"id": sid, "cfg": c, "steps": [{"kind": "eval", "src": jscore.render(d)}, {"kind": "call", "fn": "f", "args": []}]}
    return {"id": sid, "cfg": c, "steps": [{"kind": "eval", "src": jscore.render(ast)}]}


def observation(res, mode, early):
    return c01.observation(res, "call" if mode == "call" else "bytes", early)


class Runner:
    def __init__(self, spec, binary, workers):
        self.spec, self.binary, self.workers = spec, binary, workers
        self.states = self.trans = 0
        self.cmd = None

    def expectations(self, asts):
        rs, st = jscore.expect(asts, workers=self.workers, timeout=1500)
        self.states += st["states"]
        self.trans += st["transitions"]
        self.cmd = st["cmd"]
        return rs

    def compare(self, items, configs=None, modes=None):
        """items: list of (name, ast). Returns (diffs, stats).
        diffs[i][mode] = {"ref": obs, "model": obs or None, "cfg": {name: obs differing from ref}}"""
        configs = configs or self.spec.configs
        modes = modes or self.spec.entry_modes
        names = [n for n, _ in configs]
        if self.spec.reference not in names:
            configs = list(configs) + [c for c in self.spec.configs if c[0] == self.spec.reference]
        asts, slots = [], []
        for name, ast in items:
            si = len(asts)
            asts.append(ast)
            ci = None
            if "call" in modes:
                ci = len(asts)
                asts.append(jscore.wrap_call(ast)[1])
            slots.append((si, ci))
        exp = self.expectations(asts)
        scen = []
        for i, (name, ast) in enumerate(items):
            for m in modes:
                e = exp[slots[i][1]] if m == "call" else exp[slots[i][0]]
                if e["c"] == "OutOfModel":
                    continue
                for cn, cfg in configs:
                    scen.append(scenario("%d/%s/%s" % (i, m, cn), ast, m, cfg))
        res = c01.run_hjs(self.binary, scen)
        diffs = {}
        st = {"oom": 0, "nontrivial": 0, "evaluations": len(scen), "c01_class": 0, "agree_model": 0, "compared": 0, "exp": exp, "slots": slots}
        for i, (name, ast) in enumerate(items):
            e0 = exp[slots[i][0]]
            if e0["c"] == "OutOfModel":
                st["oom"] += 1
            elif e0["out"] or e0["steps"] >= 40:
                st["nontrivial"] += 1
            for m in modes:
                e = exp[slots[i][1]] if m == "call" else e0
                if e["c"] == "OutOfModel":
                    continue
                want = (e["out"], e["c"])
                obs = {cn: observation(res["%d/%s/%s" % (i, m, cn)], m, e.get("early", False)) for cn, _ in configs}
                ref = obs[self.spec.reference]
                bad = {cn: o for cn, o in obs.items() if o != ref}
                st["compared"] += len(obs)
                st["agree_model"] += sum(1 for o in obs.values() if o == want)
                if bad:
                    diffs.setdefault(i, {})[m] = {"ref": ref, "model": want, "cfg": bad}
                elif ref != want:
                    st["c01_class"] += 1
        return diffs, st


def _named(spec, cfgs):
    """the differing configurations that signatures and cached records mention (tier-independent)"""
    if spec.sig_names is None:
        return sorted(cfgs)
    keep = sorted(c for c in cfgs if c in spec.sig_names)
    return keep or sorted(cfgs)


def record(d, spec):
    """JSON-able, order-stable record of the differing configurations of one program"""
    out = {}
    for m, x in sorted(d.items()):
        out[m] = {"reference": [x["ref"][0], x["ref"][1]], "model": [x["model"][0], x["model"][1]],
                  "configs": {cn: [x["cfg"][cn][0], x["cfg"][cn][1]] for cn in _named(spec, x["cfg"])}}
    return out


def blame(x):
    """which side the model supports for one (program, mode) difference"""
    if x["ref"] == x["model"]:
        return "configuration(s) wrong, reference agrees with the model"
    if all(o == x["model"] for o in x["cfg"].values()):
        return "reference configuration wrong, the differing configuration(s) agree with the model"
    return "neither side agrees with the model"


def make_signature(small, d, spec):
    cfgs = sorted({cn for x in d.values() for cn in _named(spec, x["cfg"])})
    return json.dumps({"src": jscore.render(c01.canonical(small)), "configs": cfgs, "modes": sorted(d)}, sort_keys=True)


def still_differs(runner, mode, cn):
    spec = runner.spec

    def pred(cands):
        cfgs = [c for c in spec.configs if c[0] in (cn, spec.reference)]
        diffs, _ = runner.compare([("cand", c) for c in cands], configs=cfgs, modes=[mode])
        return [i in diffs for i in range(len(cands))]
    return pred


def load_expected(spec):
    if os.path.exists(spec.expected):
        return json.load(open(spec.expected))
    return {}


def select_items(spec, tier, rng):
    grid = jscore.grids(tier, spec.families)
    corpus = load_corpus(spec)
    ncorp = spec.quick_corpus if tier == "quick" else len(corpus)
    order = list(range(len(corpus)))
    rng.shuffle(order)                       # VERIF_SEED selects the slice and the order, never the content
    corpus = [corpus[i] for i in order[:ncorp]]
    if tier == "quick" and len(grid) > spec.quick_grid:
        gi = list(range(len(grid)))
        rng.shuffle(gi)
        grid = [grid[i] for i in sorted(gi[:spec.quick_grid])]
    return grid, corpus


def run(spec, tier, replay=None, extra=None):
    ck = vlib.Check(spec.pid, tier, "model_checking", replay)
    bindir = vlib.build_harness(["hjs"])
    runner = Runner(spec, os.path.join(bindir, "hjs"), int(os.environ.get("C01_TLC_WORKERS", "8")))
    rng = random.Random(vlib.seed())
    grid, corpus = select_items(spec, tier, rng)
    items = [(n, a) for n, a in grid] + [(n, a) for n, a in corpus] + list(spec.extra_items)
    known = load_expected(spec)
    t0 = time.time()
    tot = {"oom": 0, "nontrivial": 0, "evaluations": 0, "c01_class": 0, "agree_model": 0, "compared": 0}
    failures = []
    for b0 in range(0, len(items), 1500):
        part = items[b0:b0 + 1500]
        diffs, st = runner.compare(part)
        for k in tot:
            tot[k] += st[k]
        for i, d in sorted(diffs.items()):
            failures.append((part[i][0], part[i][1], d))
        if b0 == 0:
            for j in (0, len(part) // 2, len(part) - 1):
                e = st["exp"][st["slots"][j][0]]
                ck.sample({"program": part[j][0], "src": jscore.render(part[j][1])[:300], "expected_out": e["out"][:6],
                           "expected_completion": e["c"], "configurations": [n for n, _ in spec.configs]})
    vlib.log("[%s] %d programs (%d grid, %d corpus) x %d configurations x %d entry modes = %d evaluations, %d programs differ, %.0fs"
             % (spec.pid, len(items), len(grid), len(corpus), len(spec.configs), len(spec.entry_modes), tot["evaluations"], len(failures), time.time() - t0))

    fresh = 0
    max_shrinks = 4 if tier == "quick" else 16
    for name, ast, d in failures:
        rec = record(d, spec)
        kn = known.get(prog_key(ast))
        if kn is not None and kn["diff"] == rec:
            ck.failure(kn["signature"], {"program": name, "src": jscore.render(ast), "diff": rec, "cached_shrink": True})
            continue
        again, _ = runner.compare([(name, ast)])
        if record(again.get(0, {}), spec) != rec:
            # not the same difference twice: the observation depends on something outside the program (allocation
            # addresses, collection timing).  It counts if the program differs from its reference again in any of
            # three more runs; a difference that never comes back is a tool problem, not a verdict.
            seen = [again.get(0)] + [runner.compare([(name, ast)])[0].get(0) for _ in range(3)]
            if not any(seen):
                raise vlib.ToolError("%s: difference of %s did not reproduce" % (spec.pid, name))
            ck.failure(json.dumps({"program": name, "unstable": True, "src": jscore.render(c01.canonical(ast))[:400]}, sort_keys=True),
                       {"program": name, "src": jscore.render(ast), "first_diff": rec,
                        "later_diffs": [record(x, spec) if x else None for x in seen],
                        "note": "the same program gives different observations from run to run under the same configuration"})
            continue
        mode = sorted(d)[0]
        cn = sorted(d[mode]["cfg"])[0]
        small = ast
        if fresh < max_shrinks:
            fresh += 1
            small = jscore.shrink(ast, still_differs(runner, mode, cn), max_rounds=12 if tier == "quick" else 25, limit=200)
        ck.failure(make_signature(small, d, spec), {"program": name, "src": jscore.render(ast), "shrunk": jscore.render(small), "diff": rec,
                                              "blame": {m: blame(x) for m, x in d.items()}})

    ck.cov.update(states=runner.states, transitions=runner.trans, traces_validated_against_impl=tot["compared"],
                  programs=len(items), grid_programs=len(grid), corpus_programs=len(corpus), evaluations=tot["evaluations"],
                  configurations=[n for n, _ in spec.configs], reference=spec.reference, out_of_model=tot["oom"],
                  distinct_nontrivial=tot["nontrivial"], disagreements_checked=len(failures),
                  observations_equal_to_model=tot["agree_model"], configuration_independent_model_disagreements=tot["c01_class"],
                  checker_cmd=runner.cmd,
                  rule="one TLC-evaluated expectation per program and per function-wrapped form; evaluations = (program, entry mode, "
                       "configuration) triples run in boa; a program fails when some configuration's observation differs from the "
                       "reference configuration's (%s); non-trivial = program that prints or takes >= 40 machine steps; "
                       "OutOfModel programs are skipped" % spec.what)
    raw_n = run_raw(spec, ck, runner)
    if extra:
        extra(ck, runner, items, tier)
    if tot["nontrivial"] < spec.min_nontrivial[tier]:
        raise vlib.ToolError("vacuity guard: only %d non-trivial programs" % tot["nontrivial"])
    if tot["oom"] * 20 > len(items):
        raise vlib.ToolError("too many OutOfModel programs: %d of %d" % (tot["oom"], len(items)))
    if tot["agree_model"] * 10 < tot["compared"] * 9:
        raise vlib.ToolError("fewer than 90%% of the observations equal the model's (%d of %d): the oracle or the renderer drifted"
                             % (tot["agree_model"], tot["compared"]))
    ck.assumptions += ["the referee is JsCore.tla's transcription of ECMA-262 for the MiniJS fragment; programs leaving the modelled "
                       "domain are skipped", "a disagreement with the model that is the same under every configuration is C01's "
                       "business and is only counted here"]
    return ck.finish()


def run_raw(spec, ck, runner):
    """Programs outside MiniJS (`with`, direct eval ...): the model cannot referee them, but the property is an equivalence
    between configurations, so every configuration must still print what the reference configuration prints."""
    if not spec.raw_items:
        return 0
    scen = []
    for i, item in enumerate(spec.raw_items):
        name, src = item[0], item[1]
        for cn, cfg in spec.configs:
            c = dict(SAFETY)
            c.update(cfg)
            scen.append({"id": "%d/%s" % (i, cn), "cfg": c, "timeout_ms": 20000, "steps": [{"kind": "eval", "src": src}]})
    res = c01.run_hjs(runner.binary, scen)
    bad = 0
    for i, item in enumerate(spec.raw_items):
        name, src = item[0], item[1]
        expect = item[2] if len(item) > 2 else None      # closed-form expectation of the generator (list of print lines)
        obs = {}
        for cn, _ in spec.configs:
            r = res["%d/%s" % (i, cn)]
            obs[cn] = (r["steps"][0]["out"], r["steps"][0]["c"]) if "steps" in r else (None, "panic:" + str(r.get("panic") or r.get("abort"))[:160])
        ref = obs[spec.reference]
        if expect is not None and ref[0] != expect:
            # the generator states what the program prints; a reference configuration that prints something else is not a
            # difference between configurations, but it makes the comparison meaningless: report it under its own signature
            bad += 1
            ck.failure(json.dumps({"raw": name, "reference-differs-from-expectation": True}, sort_keys=True),
                       {"program": name, "src": src, "expected": expect, "reference": [ref[0], ref[1]]})
            continue
        diff = {cn: o for cn, o in obs.items() if o != ref}
        if diff:
            bad += 1
            ck.failure(json.dumps({"raw": name, "configs": _named(spec, diff)}, sort_keys=True),
                       {"program": name, "src": src, "reference": [ref[0], ref[1]], "configs": {cn: [o[0], o[1]] for cn, o in sorted(diff.items())}})
    ck.cov["raw_programs"] = len(spec.raw_items)
    ck.cov["raw_programs_differing"] = bad
    ck.cov["evaluations"] = ck.cov.get("evaluations", 0) + len(scen)
    ck.cov["traces_validated_against_impl"] = ck.cov.get("traces_validated_against_impl", 0) + len(scen)
    return len(scen)


# ------------------------------------------------------------------------------------------------ build-time tools
def build_corpus(spec, profile, seed, n):
    """generate + keep what the MODEL evaluates (development only)"""
    progs = jscore.gen_programs(seed, n, profile)
    asts = []
    for p in progs:
        asts.append(p)
        asts.append(jscore.wrap_call(p)[1])
    rs, _ = jscore.expect(asts, workers=6, timeout=3000)
    keep = []
    for i, p in enumerate(progs):
        if rs[2 * i]["c"] == "OutOfModel" or rs[2 * i + 1]["c"] == "OutOfModel":
            continue
        keep.append({"id": i, "profile": profile, "seed": seed, "ast": p})
    os.makedirs(spec.corpus_dir, exist_ok=True)
    with open(os.path.join(spec.corpus_dir, "%s-%d.ndjson" % (profile, seed)), "w") as f:
        for o in keep:
            f.write(json.dumps(o, separators=(",", ":")) + "\n")
    vlib.log("corpus %s-%d: kept %d of %d" % (profile, seed, len(keep), n))


def vet(spec, tier="thorough"):
    """recompute corpus/<dir>/expected_failures.json (the failing programs of the unchanged tree with shrunk signatures)"""
    bindir = os.path.join(vlib.HARNESS, "target", "debug") if os.environ.get("C01_NO_BUILD") else vlib.build_harness(["hjs"])
    runner = Runner(spec, os.path.join(bindir, "hjs"), 6)
    items = [(n, a) for n, a in jscore.grids(tier, spec.families)] + load_corpus(spec) + list(spec.extra_items)
    fails = []
    for b0 in range(0, len(items), 1500):
        part = items[b0:b0 + 1500]
        diffs, _ = runner.compare(part)
        for i, d in sorted(diffs.items()):
            fails.append((part[i][0], part[i][1], d))
        vlib.log("batch %d: %d differing so far" % (b0, len(fails)))
    keys = []
    for _, _, d in fails:
        m = sorted(d)[0]
        keys.append((m, sorted(d[m]["cfg"])[0]))

    def pred(cands):
        out = [False] * len(cands)
        groups = {}
        for j, (i, c) in enumerate(cands):
            groups.setdefault(keys[i], []).append((j, c))
        for (m, cn), lst in groups.items():
            cfgs = [c for c in spec.configs if c[0] in (cn, spec.reference)]
            diffs, _ = runner.compare([("cand", c) for _, c in lst], configs=cfgs, modes=[m])
            for k, (j, _) in enumerate(lst):
                out[j] = k in diffs
        return out
    small = jscore.shrink_many([a for _, a, _ in fails], pred, max_rounds=30, limit=40, log=vlib.log)
    out = {}
    for (name, ast, d), sm in zip(fails, small):
        out[prog_key(ast)] = {"program": name, "diff": record(d, spec), "signature": make_signature(sm, d, spec),
                              "blame": {m: blame(x) for m, x in d.items()}}
    os.makedirs(spec.corpus_dir, exist_ok=True)
    with open(spec.expected, "w") as f:
        json.dump(out, f, indent=1, sort_keys=True)
    sigs = {}
    for v in out.values():
        sigs.setdefault(v["signature"], []).append(v)
    vlib.log("%d differing programs, %d distinct signatures" % (len(out), len(sigs)))
    for s_, vs in sorted(sigs.items()):
        vlib.log("SIG %s  <- %d programs, e.g. %s; %s" % (s_, len(vs), vs[0]["program"], sorted(set(vs[0]["blame"].values()))))
    return sigs
