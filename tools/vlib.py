#!/usr/bin/env python3
"""Shared machinery of the /verif checks: harness build, TLC invocation and output parsing,
scenario running with abort recovery, replay files, known findings, evidence files."""
import hashlib
import json
import os
import re
import subprocess
import sys
import time

ROOT = os.path.dirname(os.path.dirname(os.path.abspath(__file__)))
HARNESS = os.environ.get("VERIF_HARNESS_DIR", os.path.join(ROOT, "harness"))
WORK = os.path.join(ROOT, "work")
SPEC = os.path.join(ROOT, "spec")
REPLAYS = os.path.join(ROOT, "replays")
EVIDENCE = os.path.join(ROOT, "evidence")
TLA_CP = "/opt/veriftools/tla/tla2tools.jar:/opt/veriftools/tla/CommunityModules-deps.jar"


class ToolError(Exception):
    pass


def seed():
    try:
        return int(os.environ.get("VERIF_SEED", "1"))
    except ValueError:
        return 1


def log(*a):
    print(*a, flush=True)


# ---------------------------------------------------------------- harness

def cargo_env():
    env = dict(os.environ)
    env["CARGO_NET_OFFLINE"] = "true"
    env.pop("RUSTFLAGS", None)
    return env


def build_harness(packages, features=None, target_subdir=None):
    """Builds the given harness packages from /repo's current working tree. Returns dir of binaries."""
    cmd = ["cargo", "build", "--offline", "--quiet"]
    for p in packages:
        cmd += ["-p", p]
    if features:
        cmd += ["--features", features]
    env = cargo_env()
    tdir = os.path.join(HARNESS, "target")
    if target_subdir:
        tdir = os.path.join(HARNESS, "target", target_subdir)
        env["CARGO_TARGET_DIR"] = tdir
    t0 = time.time()
    r = subprocess.run(cmd, cwd=HARNESS, env=env, stdout=subprocess.PIPE, stderr=subprocess.STDOUT, text=True)
    if r.returncode != 0:
        log(r.stdout[-6000:])
        raise ToolError("harness build failed")
    log(f"[build] {' '.join(packages)} ok in {time.time() - t0:.1f}s")
    return os.path.join(tdir, "debug")


def run_lines(binary, scenarios, args=None, timeout_per_batch=1800, env_extra=None, key="id"):
    """Feeds scenarios (list of dicts with an 'id') to a line-oriented harness binary. If the process
    dies (abort, stack overflow, timeout), the scenario after the last answered one is recorded as
    {"id":..., "abort": "<how>"} and the run resumes with the rest. Returns dict id -> result."""
    os.makedirs(WORK, exist_ok=True)
    results = {}
    todo = list(scenarios)
    env = dict(os.environ)
    if env_extra:
        env.update(env_extra)
    rounds = 0
    while todo:
        rounds += 1
        inp = os.path.join(WORK, f"in-{os.getpid()}-{rounds}.ndjson")
        with open(inp, "w") as f:
            for s in todo:
                f.write(json.dumps(s) + "\n")
        cmd = [binary] + (args or []) + [inp]
        how = None
        try:
            p = subprocess.run(cmd, stdout=subprocess.PIPE, stderr=subprocess.PIPE, timeout=timeout_per_batch, env=env)
            out = p.stdout
            if p.returncode != 0:
                how = f"exit status {p.returncode}: {p.stderr.decode(errors='replace')[-300:]}"
        except subprocess.TimeoutExpired as e:
            out = e.stdout or b""
            how = "timeout"
        os.unlink(inp)
        n = 0
        for line in out.decode(errors="replace").splitlines():
            line = line.strip()
            if not line.startswith("{"):
                continue
            try:
                r = json.loads(line)
            except json.JSONDecodeError:
                continue
            results[_k(r.get(key))] = r
            n += 1
        if how is None:
            if n < len(todo):
                raise ToolError(f"{binary}: answered {n} of {len(todo)} scenarios but exited 0")
            break
        if n >= len(todo):
            break
        culprit = todo[n]
        results[_k(culprit.get(key))] = {key: culprit.get(key), "abort": how}
        todo = todo[n + 1:]
    return results


def _k(x):
    return json.dumps(x, sort_keys=True) if isinstance(x, (list, dict)) else x


# ---------------------------------------------------------------- TLC

def _unescape_tla(s):
    out = []
    i = 0
    while i < len(s):
        c = s[i]
        if c == "\\" and i + 1 < len(s):
            d = s[i + 1]
            out.append({"n": "\n", "t": "\t", "r": "\r", "f": "\f"}.get(d, d))
            i += 2
        else:
            out.append(c)
            i += 1
    return "".join(out)


TAG_RE = re.compile(r'^<<"([A-Z_]+)", "(.*)">>$')


def run_tlc(module_path, cfg=None, workers=8, simulate=None, depth=None, tseed=None, timeout=1800,
            xmx="8g", env_extra=None, coverage=False, deadlock=False, on_tagged=None, extra=None, dfs=False):
    """Runs TLC. Tagged PrintT lines <<"TAG", "json">> are decoded and passed to on_tagged(tag, obj)
    (or collected). Returns dict(states, distinct, tagged, ok, violation, raw_tail, wall)."""
    d = os.path.dirname(module_path)
    mod = os.path.basename(module_path)
    cfg = cfg or mod.replace(".tla", ".cfg")
    meta = os.path.join(WORK, "tlc-%d-%d" % (os.getpid(), int(time.time() * 1000) % 10**9))
    os.makedirs(meta, exist_ok=True)
    jopts = f"-Xss1g -Xmx{xmx} -XX:+UseParallelGC -XX:ParallelGCThreads=4"
    workers = min(int(workers), int(os.environ.get("VERIF_TLC_WORKERS", "8")))
    try:
        if os.getloadavg()[0] > 24:      # machine oversubscribed (other checks / builders running): do not add to it
            workers = min(workers, 3)
    except OSError:
        pass
    if dfs:
        jopts += " -Dtlc2.tool.queue.IStateQueue=StateDeque"
    # every directory under spec/ is on the module search path via TLA-Library
    libs = []
    for r_, ds, fs in os.walk(SPEC):
        if any(f.endswith(".tla") for f in fs):
            libs.append(r_)
    jopts += " -DTLA-Library=" + os.pathsep.join(libs)
    cmd = ["java"] + jopts.split() + ["-cp", TLA_CP, "tlc2.TLC", "-metadir", meta, "-cleanup",
                                      "-noGenerateSpecTE", "-workers", str(workers), "-config", cfg]
    if not deadlock:
        pass
    if simulate is not None:
        cmd += ["-simulate", f"num={simulate}"]
        if depth:
            cmd += ["-depth", str(depth)]
    if tseed is not None:
        cmd += ["-seed", str(tseed)]
    if coverage:
        cmd += ["-coverage", "1"]
    if extra:
        cmd += extra
    cmd += [mod]
    env = dict(os.environ)
    env.pop("JAVA_TOOL_OPTIONS", None)
    if env_extra:
        env.update(env_extra)
    t0 = time.time()
    tagged = []
    tail = []
    cov_lines = []
    states = distinct = 0
    violation = None
    proc = subprocess.Popen(["timeout", str(timeout)] + cmd, cwd=d, env=env, stdout=subprocess.PIPE,
                            stderr=subprocess.STDOUT, text=True, errors="replace")
    for line in proc.stdout:
        line = line.rstrip("\n")
        m = TAG_RE.match(line)
        if m:
            try:
                obj = json.loads(_unescape_tla(m.group(2)))
            except json.JSONDecodeError as e:
                raise ToolError(f"undecodable tagged line from TLC: {line[:200]} ({e})")
            if on_tagged:
                on_tagged(m.group(1), obj)
            else:
                tagged.append((m.group(1), obj))
            continue
        if coverage and line.startswith("<") and " of module " in line and re.search(r">: \d+:\d+$", line):
            cov_lines.append(line)          # action coverage lines are kept in full (the tail below is bounded)
        tail.append(line)
        if len(tail) > 400:
            del tail[:200]
        m = re.match(r"^(\d+) states generated, (\d+) distinct states found", line)
        if m:
            states, distinct = int(m.group(1)), int(m.group(2))
        m = re.match(r"^The number of states generated: (\d+)", line)
        if m:
            states = int(m.group(1))
            distinct = distinct or states
        if line.startswith("Error:") and violation is None:
            violation = line
    rc = proc.wait()
    subprocess.run(["rm", "-rf", meta])
    wall = time.time() - t0
    if rc == 124:
        raise ToolError(f"TLC timed out after {timeout}s on {mod}/{cfg}")
    ok = (rc == 0 and violation is None)
    return dict(states=states, distinct=distinct, tagged=tagged, ok=ok, violation=violation,
                raw_tail="\n".join(cov_lines + tail[-120:]), wall=wall, rc=rc,
                cmd="tlc -workers %s -config %s %s%s" % (workers, cfg, mod, (" -simulate num=%s" % simulate) if simulate else ""))


def tlc_must_pass(res, what):
    if not res["ok"]:
        log(res["raw_tail"])
        raise ToolError(f"model gate failed for {what}: {res['violation'] or ('rc=%s' % res['rc'])}")


def sany_all():
    bad = 0
    libs = []
    files = []
    for r_, ds, fs in os.walk(SPEC):
        for f in fs:
            if f.endswith(".tla"):
                files.append(os.path.join(r_, f))
                if r_ not in libs:
                    libs.append(r_)
    for f in sorted(files):
        r = subprocess.run(["java", "-DTLA-Library=" + os.pathsep.join(libs), "-cp", TLA_CP, "tla2sany.SANY", os.path.basename(f)],
                           cwd=os.path.dirname(f), stdout=subprocess.PIPE, stderr=subprocess.STDOUT, text=True)
        if r.returncode != 0 or "*** Errors" in r.stdout or "Fatal" in r.stdout:
            log(f"[sany] FAIL {f}\n{r.stdout[-1500:]}")
            bad += 1
    log(f"[sany] {len(files)} modules, {bad} failures")
    return bad == 0


# ---------------------------------------------------------------- findings / replays / evidence

def load_known():
    out = []
    p = os.path.join(ROOT, "known_findings.json")
    if os.path.exists(p):
        out += json.load(open(p))
    d = os.path.join(ROOT, "known_findings.d")
    if os.path.isdir(d):
        for f in sorted(os.listdir(d)):
            if f.endswith(".json"):
                out += json.load(open(os.path.join(d, f)))
    return out


def sig_hash(obj):
    return hashlib.sha1(json.dumps(obj, sort_keys=True).encode()).hexdigest()[:12]


def evidence_problems(level, cov):
    """The per-level requirements of EVIDENCE.schema.json, checked before the file is written."""
    bad = []
    ints = lambda k, lo: isinstance(cov.get(k), int) and cov[k] >= lo
    if not isinstance(cov.get("samples"), list) or not cov["samples"]:
        bad.append("coverage.samples is empty")
    own = {"model_checking": ["states", "transitions", "traces_validated_against_impl"],
           "translation_validation": ["programs", "disagreements_checked"]}.get(level)
    if own and all(k in cov for k in own):
        for k in own:
            if not ints(k, 0 if k in ("traces_validated_against_impl", "disagreements_checked") else 1):
                bad.append("coverage.%s missing or too small" % k)
    else:
        if not ints("evaluations", 1):
            bad.append("coverage.evaluations missing")
        if not ints("distinct_nontrivial", 2):
            bad.append("coverage.distinct_nontrivial missing or < 2")
        if level in ("exploration", "fault_enumeration") and not isinstance(cov.get("rule"), str):
            bad.append("coverage.rule missing")
    if "checker_cmd" in cov and not isinstance(cov["checker_cmd"], str):
        bad.append("coverage.checker_cmd is not a string")
    return bad


class Check:
    """Bookkeeping for one run of one property's check."""

    def __init__(self, pid, tier, level, replay=None):
        """replay: path of a replay file written by an earlier run; the run then re-executes the tier with
        the seed stored in the file and exits 1 iff the same signature fails again."""
        self.pid, self.tier, self.level = pid, tier, level
        self.replay_sig = None
        if replay:
            rf = json.load(open(replay))
            self.replay_sig = rf.get("signature")
            os.environ["VERIF_SEED"] = str(rf.get("seed", 1))
        self.t0 = time.time()
        self.cov = {"samples": []}
        self.assumptions = []
        self.violations = []     # (signature, replay path)
        self.known_hit = {}      # signature -> count
        self.known = [k for k in load_known() if k.get("property") == pid and k.get("status") == "open"]
        self.drift = 0
        os.makedirs(REPLAYS, exist_ok=True)
        os.makedirs(EVIDENCE, exist_ok=True)

    def add(self, key, n=1):
        self.cov[key] = self.cov.get(key, 0) + n

    def sample(self, s, cap=5):
        if len(self.cov["samples"]) < cap:
            self.cov["samples"].append(s)

    def failure(self, signature, detail):
        """Reports a property failure. `signature` is the canonical (shrunk) identification used for
        known findings; `detail` is the replay content."""
        for k in self.known:
            if k.get("signature") == signature:
                hk = _k(signature)
                self.known_hit[hk] = self.known_hit.get(hk, 0) + 1
                if self.known_hit[hk] == 1:
                    log(f"KNOWN-FINDING: property={self.pid} {k.get('what', signature)}")
                return False
        if any(v[0] == signature for v in self.violations):
            return True
        path = os.path.join(REPLAYS, f"{self.pid}-{sig_hash(signature)}.json")
        with open(path, "w") as f:
            json.dump({"property": self.pid, "signature": signature, "seed": seed(), "detail": detail}, f, indent=1)
        self.violations.append((signature, path))
        log(f"VIOLATION property={self.pid} replay={path}")
        return True

    def finish(self):
        cov = self.cov
        cov["known_findings_hit"] = sum(self.known_hit.values())
        cov["model_drift"] = self.drift
        if isinstance(cov.get("checker_cmd"), (list, tuple)):
            cov["checker_cmd"] = "; ".join(str(c) for c in cov["checker_cmd"])
        problems = evidence_problems(self.level, cov)
        if problems and self.replay_sig is None and not self.violations:
            raise ToolError("evidence would not validate: " + "; ".join(problems))
        ev = {"property_id": self.pid, "tier": self.tier, "seed": seed(), "level": self.level,
              "coverage": cov, "assumptions": self.assumptions, "wall_s": round(time.time() - self.t0, 2),
              "violations": len(self.violations)}
        with open(os.path.join(EVIDENCE, f"{self.pid}.json"), "w") as f:
            json.dump(ev, f, indent=1)
        log(f"[{self.pid}] tier={self.tier} wall={ev['wall_s']}s violations={len(self.violations)} "
            f"known={cov['known_findings_hit']} coverage=" + json.dumps({k: v for k, v in cov.items() if k != 'samples'}))
        if self.replay_sig is not None:
            again = any(v[0] == self.replay_sig for v in self.violations)
            log(f"[replay] signature {'FAILS AGAIN' if again else 'no longer fails'}")
            return 1 if again else 0
        return 1 if self.violations else 0


def setup():
    ok = sany_all()
    pk = []
    cr = os.path.join(HARNESS, "crates")
    for d in sorted(os.listdir(cr)):
        if os.path.exists(os.path.join(cr, d, "src", "main.rs")):
            pk.append(d)
    # one package at a time: feature unification must be the same as when a check builds only its own crate
    for p in pk:
        build_harness([p])
    # second artefact: the engine with the enum value representation (used by C12)
    build_harness(["hval", "hjs"], features="hval/jsvalue-enum hjs/jsvalue-enum", target_subdir="enum")
    return 0 if ok else 2


if __name__ == "__main__":
    if len(sys.argv) > 1 and sys.argv[1] == "setup":
        try:
            sys.exit(setup())
        except ToolError as e:
            log("TOOL-ERROR:", e)
            sys.exit(2)
