#!/usr/bin/env python3
"""Regenerates MANIFEST.json from the table below (single source of truth for the registered checks)."""
import json, os, subprocess
ROOT = os.path.dirname(os.path.dirname(os.path.abspath(__file__)))
props = [json.loads(l) for l in open(os.path.join(ROOT, "properties.jsonl"))]

CHECKS = {}
for f in sorted(os.listdir(os.path.join(ROOT, "tools", "checks"))):
    if f.endswith(".manifest.json"):
        CHECKS[f.split(".")[0]] = json.load(open(os.path.join(ROOT, "tools", "checks", f)))
NA_DEFAULT = "check not built yet (work in progress; see DESIGN.md section 9 for the build order)"
NA = json.load(open(os.path.join(ROOT, 'tools', 'not_applicable.json'))) if os.path.exists(os.path.join(ROOT, 'tools', 'not_applicable.json')) else {}

def main():
    hooks = subprocess.run(["git", "-C", "/repo", "log", "--format=%h %s"], stdout=subprocess.PIPE, text=True).stdout.splitlines()
    hook_commits = [l.split()[0] for l in hooks if l.split(" ", 1)[1].startswith("verif hooks")]
    m = {"version": 1, "setup_cmd": "./tools/setup.sh",
         "hooks": {"guard": "boa_verif",
                   "enable": "rustflags --cfg boa_verif --check-cfg cfg(boa_verif) in /verif/harness/.cargo/config.toml; the harness crates have path dependencies on /repo/core/*, so every check rebuilds /repo's working tree with the hooks on",
                   "baseline_off_cmd": "cd /repo && cargo nextest run --workspace --no-fail-fast --tool-config-file pb:/w/lib/nextest.toml --profile pb --test-threads 8 --offline",
                   "source_commits": hook_commits, "add_only": True},
         "engines": [{"name": "tlc+harness", "path": "/verif/check", "serves_properties": sorted(CHECKS),
                      "kind_free_text": "explicit TLA+ specifications under /verif/spec checked with TLC; behaviours emitted by TLC are replayed into the code built from /repo (and recorded traces validated against the spec) by the Rust harness under /verif/harness"}],
         "checks": [], "notes": "Model-based verification with explicit TLA+ specifications; see DESIGN.md. Exit codes: 0 held, 1 VIOLATION, 2 tool error.",
         "not_applicable": []}
    for p in props:
        pid = p["id"]
        if pid in CHECKS:
            c = CHECKS[pid]
            m["checks"].append({"property_id": pid, "quick_cmd": f"./check {pid} --tier quick", "thorough_cmd": f"./check {pid} --tier thorough",
                                "evidence_file": f"/verif/evidence/{pid}.json", "replay_cmd_template": f"./check {pid} --replay {{path}}",
                                "engine": "tlc+harness", "level_claimed": {"category": c["cat"], "text": c["text"], "design_ref": c["design"]},
                                "level_note": c["note"], "technique": c["technique"]})
        else:
            m["not_applicable"].append({"property_id": pid, "reason": NA.get(pid, NA_DEFAULT)})
    json.dump(m, open(os.path.join(ROOT, "MANIFEST.json"), "w"), indent=1)
    try:
        import jsonschema
        jsonschema.validate(m, json.load(open("/root/.vp/MANIFEST.schema.json")))
        print("MANIFEST.json valid;", len(m["checks"]), "checks")
    except ImportError:
        print("MANIFEST.json written (jsonschema not available)")

main()
