"""C15 - Typed arrays, buffers and DataViews match a byte model and stay in bounds.

Model: spec/buffers/Buffers.tla (buffers, typed-array views, DataViews; every API operation is a pure
operator transcribing ECMA-262, every byte access is guarded, TLC checks InBounds and the geometry
invariants).  Binding (A): for every scenario family of spec/buffers/MCBuffers.tla TLC enumerates every
reachable state x every operation of the family's alphabet and prints one EDGE line per transition with
the result / exception class of the step and the full observation of the new state (byte image and
getters of every buffer, length/byteLength/byteOffset and boundary element reads of every view, DataView
getters).  This driver renders each history to JavaScript, runs it in `hbuf` (fresh context, one eval per
step, native print) and compares line by line.  `-simulate` supplies long random histories."""
import concurrent.futures as cf
import json
import os
import threading
import time
from fractions import Fraction

import vlib

SPECDIR = os.path.join(vlib.SPEC, "buffers")
MC = os.path.join(SPECDIR, "MCBuffers.tla")
EVAL = os.path.join(SPECDIR, "MCBuffersEval.tla")
PID = "C15"

# ------------------------------------------------------------------ numbers

W = {"0": 0, "p32": 2**32, "p40": 2**40, "n32": -2**32, "n40": -2**40, "p53": 2**53, "n53": -2**53,
     "p63": 2**63, "n63": -2**63, "p64": 2**64, "n64": -2**64, "e38": int(3.5e38), "ne38": -int(3.5e38)}
for _w, _v in W.items():
    assert _v % 2**32 == 0 and float(_v) == _v, _w


def num_value(x):
    """Exact rational value of a model number record (k = fin)."""
    v = Fraction(x["i"]) + Fraction(x["f"], 4) + W[x["w"]]
    if float(v) != v:          # the literal must denote exactly this double
        raise vlib.ToolError(f"model number {x} is not an exact double")
    return v


def js_num(x):
    """JavaScript source text of a model number / undefined."""
    k = x["k"]
    if k == "undef":
        return "undefined"
    if k == "nan":
        return "NaN"
    if k == "pinf":
        return "Infinity"
    if k == "ninf":
        return "(-Infinity)"
    if k == "nz":
        return "(-0)"
    v = num_value(x)
    if v.denominator == 1:
        s = str(v.numerator)
    else:
        s = repr(float(v))
        if "e" in s or "E" in s:
            raise vlib.ToolError(f"unexpected exponent literal for {x}")
    return f"({s})" if v < 0 else s


def exp_enc(e):
    """Rendering (as the native print does) of an encoded model number / "undef"."""
    if isinstance(e, int):
        return f"n:{e}"
    if e == "undef":
        return "u"
    if e in ("nan", "pinf", "ninf", "nz"):
        return {"nan": "n:NaN", "pinf": "n:Infinity", "ninf": "n:-Infinity", "nz": "n:-0"}[e]
    if e == "poison":
        raise vlib.ToolError("model produced a poisoned value")
    w, i, f = e.split(":")
    v = Fraction(int(i)) + Fraction(int(f), 4) + W[w]
    if float(v) != v:
        raise vlib.ToolError(f"model result {e} is not an exact double")
    if v.denominator != 1 or abs(v) >= 2**53:        # the native print shows the bit pattern of such numbers
        import struct
        return "n:b:%016X" % struct.unpack(">Q", struct.pack(">d", float(v)))[0]
    return f"n:{v.numerator}"


def value_class(x, dst):
    """Class of a stored value relative to the destination element type (used in finding signatures)."""
    k = x["k"] if isinstance(x, dict) else None
    if k is None:                       # encoded (source element of a typed array)
        if isinstance(x, int):
            v = Fraction(x)
        else:
            w, i, f = x.split(":")
            v = Fraction(int(i)) + Fraction(int(f), 4) + W[w]
    elif k != "fin":
        return k
    else:
        v = num_value(x)
    lo, hi = {"Int8": (-128, 127), "Uint8": (0, 255), "Uint8C": (0, 255), "Int16": (-32768, 32767), "Uint16": (0, 65535),
              "Int32": (-2**31, 2**31 - 1), "Uint32": (0, 2**32 - 1)}[dst]
    frac = "" if v.denominator == 1 else "-frac"
    if v >= 2**63:
        return "ge-2^63"
    if v <= -2**63:
        return "le-minus-2^63"
    if v > hi:
        return "above-range" + frac
    if v < lo:
        return "below-range" + frac
    return "in-range" + frac


# ------------------------------------------------------------------ rendering

CTOR = {"Int8": "Int8Array", "Uint8": "Uint8Array", "Uint8C": "Uint8ClampedArray", "Int16": "Int16Array",
        "Uint16": "Uint16Array", "Int32": "Int32Array", "Uint32": "Uint32Array", "Float16": "Float16Array",
        "Float32": "Float32Array", "Float64": "Float64Array", "BigInt64": "BigInt64Array", "BigUint64": "BigUint64Array"}
INT_TYPES = {"Int8", "Uint8", "Uint8C", "Int16", "Uint16", "Int32", "Uint32"}
SIZE = {"Int8": 1, "Uint8": 1, "Uint8C": 1, "Int16": 2, "Uint16": 2, "Float16": 2, "Int32": 4, "Uint32": 4, "Float32": 4,
        "Float64": 8, "BigInt64": 8, "BigUint64": 8}

PRELUDE = r"""
var B=[],V=[],D=[];
function pbuf(tag,i,b){var a=[tag,i],sh=(b instanceof SharedArrayBuffer);
 a.push(sh,b.byteLength,b.maxByteLength,sh?b.growable:b.resizable,sh?false:b.detached);
 var u;try{u=new Uint8Array(b);}catch(e){a.push(e);print.apply(null,a);return;}
 for(var j=0;j<u.length;j++)a.push(u[j]);print.apply(null,a);}
function pdv(i){var d=D[i],x,y;try{x=d.byteLength;}catch(e){x=e;}try{y=d.byteOffset;}catch(e){y=e;}print("D",i,x,y);}
function parr(r,C,ints){var a=["R","arr",Object.getPrototypeOf(r)===C.prototype,r.length,r.byteOffset];
 if(ints)for(var j=0;j<r.length;j++)a.push(r[j]);
 a.push("|");var u=new Uint8Array(r.buffer,r.byteOffset,r.byteLength);for(var j=0;j<u.length;j++)a.push(u[j]);print.apply(null,a);}
function pv(i,L){var v=V[i];print("V",i,v.length,v.byteLength,v.byteOffset,v[-1],v[0],v[L-1],v[L],v[4294967296],v["-0"],v[0.5]);}
function pr(i){var v=V[i];print("V",i,v.length,v.byteLength,v.byteOffset);}
function pview(r,C,same){print("R","view",Object.getPrototypeOf(r)===C.prototype,same,r.length,r.byteLength,r.byteOffset);}
"""


def b_(v):
    return "b:true" if v else "b:false"


def idx_key(op, n):
    ic = op["ic"]
    if ic == "big":
        return "4294967296"
    if ic == "negz":
        return '"-0"'
    if ic == "frac":
        return "0.5"
    return str(n)


def args_js(*xs):
    """Argument list; trailing undefined arguments are dropped (same meaning for every API used here)."""
    xs = list(xs)
    while xs and xs[-1] == "undefined":
        xs.pop()
    return ", ".join(xs)


def probes(obs):
    """JS source and expected print lines of the observation after a step."""
    js, exp = [], []
    for i, b in enumerate(obs["b"]):
        js.append(f'pbuf("B",{i},B[{i}]);')
        line = ["s:B", f"n:{i}", b_(b["sh"]), f"n:{b['len']}", f"n:{b['max']}", b_(b["rs"]), b_(b["det"])]
        if b["det"]:
            line.append("o:Error:TypeError")
        else:
            line += [f"n:{x}" for x in b["bytes"]]
        exp.append(" ".join(line))
    for i, v in enumerate(obs["v"]):
        L = v["len"]
        if v["e"]:
            js.append(f"pv({i},{L});")
            exp.append(" ".join(["s:V", f"n:{i}", f"n:{L}", f"n:{v['blen']}", f"n:{v['boff']}"] + [exp_enc(e) for e in v["e"]]))
        else:
            js.append(f"pr({i});")
            exp.append(" ".join(["s:V", f"n:{i}", f"n:{L}", f"n:{v['blen']}", f"n:{v['boff']}"]))
    for i, d in enumerate(obs["d"]):
        js.append(f"pdv({i});")
        if d["blen"] < 0:
            exp.append(f"s:D n:{i} o:Error:TypeError o:Error:TypeError")
        else:
            exp.append(f"s:D n:{i} n:{d['blen']} n:{d['boff']}")
    return "".join(js), exp


def buf_result(r):
    line = ["s:R", "n:-1", b_(r["sh"]), f"n:{len(r['bytes'])}", f"n:{len(r['bytes']) if r['max'] < 0 else r['max']}",
            b_(r["max"] >= 0), "b:false"] + [f"n:{x}" for x in r["bytes"]]
    return " ".join(line)


def render_op(op, r):
    """(JS of the operation incl. printing its result, expected result lines)."""
    k = op["k"]
    post = ""
    ev = op.get("ev")

    def A(pos, j=0):
        """Source of the argument at `pos`; an object with a side-effecting valueOf if the operation says so."""
        x = op[pos] if j == 0 else op[pos][j - 1]
        lit = js_num(x)
        if ev and ev["pos"] == pos and ev.get("j", 0) == j:
            if x["k"] == "undef":
                raise vlib.ToolError("side effect on an undefined argument")
            eff = f"B[{ev['b'] - 1}].resize({ev['n']})" if ev["k"] == "resize" else f"detachBuffer(B[{ev['b'] - 1}])"
            return "{valueOf:function(){" + eff + ";return " + lit + ";}}"
        return lit

    def L(pos):
        return "[" + ",".join(A(pos, j + 1) for j in range(len(op[pos]))) + "]"

    if k == "resize":
        call = f"B[{op['b'] - 1}].resize({A('n')})"
    elif k == "grow":
        call = f"B[{op['b'] - 1}].grow({A('n')})"
    elif k == "transfer":
        call = f"B[{op['b'] - 1}].{'transferToFixedLength' if op['fx'] else 'transfer'}({args_js(A('n'))})"
    elif k == "detach":
        call = f"detachBuffer(B[{op['b'] - 1}])"
    elif k == "bslice":
        call = f"B[{op['b'] - 1}].slice({args_js(A('a1'), A('a2'))})"
    elif k == "newview":
        call = f"new {CTOR[op['t']]}({args_js('B[%d]' % (op['b'] - 1), A('off'), A('len'))})"
    elif k == "newdv":
        call = f"new DataView({args_js('B[%d]' % (op['b'] - 1), A('off'), A('len'))})"
    elif k == "get":
        call = f"V[{op['v'] - 1}][{idx_key(op, op['n'])}]"
    elif k == "set":
        call = f"(V[{op['v'] - 1}][{idx_key(op, op['n'])}]={A('val')},undefined)"
    elif k == "fcopy":
        call = f"(V[{op['v'] - 1}][{op['m']}]=V[{op['v'] - 1}][{op['n']}],undefined)"
    elif k == "fill":
        call = f"V[{op['v'] - 1}].fill({args_js(A('val'), A('a1'), A('a2'))})"
    elif k == "cw":
        call = f"V[{op['v'] - 1}].copyWithin({args_js(A('a1'), A('a2'), A('a3'))})"
    elif k == "setarr":
        call = f"V[{op['v'] - 1}].set({args_js(L('vals'), A('a1'))})"
    elif k == "setta":
        call = f"V[{op['v'] - 1}].set({args_js('V[%d]' % (op['src'] - 1), A('a1'))})"
    elif k == "sub":
        call = f"V[{op['v'] - 1}].subarray({args_js(A('a1'), A('a2'))})"
    elif k == "slice":
        call = f"V[{op['v'] - 1}].slice({args_js(A('a1'), A('a2'))})"
    elif k == "fromta":
        call = f"new {CTOR[op['t']]}(V[{op['v'] - 1}])"
    elif k == "fromlist":
        call = f"new {CTOR[op['t']]}({L('vals')})"
    elif k == "aload":
        call = f"Atomics.load(V[{op['v'] - 1}],{A('a1')})"
    elif k == "astore":
        call = f"Atomics.store(V[{op['v'] - 1}],{A('a1')},{A('val')})"
    elif k == "aadd":
        call = f"Atomics.add(V[{op['v'] - 1}],{A('a1')},{A('val')})"
    elif k == "dvget":
        call = f"D[{op['d'] - 1}].get{op['t']}({A('a1')},{'true' if op['le'] else 'false'})"
    elif k == "dvset":
        call = f"D[{op['d'] - 1}].set{op['t']}({A('a1')},{A('val')},{'true' if op['le'] else 'false'})"
    else:
        raise vlib.ToolError(f"unknown operation kind {k}")
    rk = r["k"]
    if rk == "t":
        show, exp = 'print("R","no exception");', [f"s:E o:Error:{r['c']}"]
    elif rk == "u":
        show, exp = 'print("R",r);', ["s:R u"]
    elif rk == "null":
        show, exp = 'print("R",r);', ["s:R null"]
    elif rk == "n":
        show, exp = 'print("R",r);', ["s:R " + exp_enc(r["x"])]
    elif rk == "self":
        show, exp = f'print("R",r===V[{op["v"] - 1}]);', ["s:R b:true"]
    elif rk == "b":
        show, exp = 'pbuf("R",-1,r);', [buf_result(r)]
        if r["slot"] > 0:
            post = "B.push(r);"
    elif rk == "v":
        bexpr = f"B[{op['b'] - 1}]" if k == "newview" else f"V[{op['v'] - 1}].buffer"
        show = f"pview(r,{CTOR[r['t']]},r.buffer==={bexpr});"
        exp = [f"s:R s:view b:true b:true n:{r['len']} n:{r['blen']} n:{r['off']}"]
        if r["slot"] > 0:
            post = "V.push(r);"
    elif rk == "d":
        show = f'print("R","dv",r.buffer===B[{op["b"] - 1}],r.byteLength,r.byteOffset);'
        exp = [f"s:R s:dv b:true n:{r['blen']} n:{r['off']}"]
        if r["slot"] > 0:
            post = "D.push(r);"
    elif rk == "a":
        ints = r["t"] in INT_TYPES
        show = f"parr(r,{CTOR[r['t']]},{'true' if ints else 'false'});"
        n = len(r["bytes"]) // SIZE[r["t"]]
        exp = [" ".join(["s:R", "s:arr", "b:true", f"n:{n}", "n:0"] + ([exp_enc(e) for e in r["e"]] if ints else []) + ["s:|"]
                        + [f"n:{x}" for x in r["bytes"]])]
    else:
        raise vlib.ToolError(f"unknown result kind {rk}")
    js = "var r;try{r=" + call + ";" + show + post + "}catch(e){print(\"E\",e);}"
    return js, exp


def render_setup(su):
    js = [PRELUDE]
    for i, b in enumerate(su["bufs"]):
        ctor = "SharedArrayBuffer" if b["sh"] else "ArrayBuffer"
        opt = f",{{maxByteLength:{b['max']}}}" if b["max"] >= 0 else ""
        js.append(f"B.push(new {ctor}({b['len']}{opt}));")
        js.append(f"(function(){{var u=new Uint8Array(B[{i}]);for(var j=0;j<u.length;j++)u[j]=({100 * (i + 1)}+j+1)%256;}})();")
    for op in su["mk"]:
        if op["k"] == "newview":
            js.append(f"V.push(new {CTOR[op['t']]}({args_js('B[%d]' % (op['b'] - 1), js_num(op['off']), js_num(op['len']))}));")
        else:
            js.append(f"D.push(new DataView({args_js('B[%d]' % (op['b'] - 1), js_num(op['off']), js_num(op['len']))}));")
    return "".join(js)


def render_step(rec):
    """JS source of one step and its expected output lines."""
    if rec["op"]["k"] == "setup":
        js, exp = render_setup(rec["op"]["su"]), []
    else:
        js, exp = render_op(rec["op"], rec["r"])
    pj, pe = probes(rec["obs"])
    return js + pj, exp + pe


# ------------------------------------------------------------------ non-triviality and signatures

NONTRIVIAL_TAGS = {"oob", "det", "rz", "ovl", "ev"}


def op_sig(op):
    """Canonical compact form of a resolved operation (part of behaviour signatures)."""
    def a(x):
        if isinstance(x, dict) and x.get("k") in ("fin", "nan", "pinf", "ninf", "nz", "undef"):
            return js_num(x)
        if isinstance(x, dict):
            return {k: a(v) for k, v in sorted(x.items())}
        if isinstance(x, list):
            return [a(y) for y in x]
        return x
    return {k: a(v) for k, v in sorted(op.items()) if k not in ("n", "m") or op["k"] in ("get", "set", "fcopy")}


CONV_KINDS = {"set", "fill", "setarr", "fromlist", "dvset", "fromta", "setta", "astore", "aadd"}


def conversion_signature(rec, views_types, exp_lines, act_lines):
    """If the first failing step is a store whose only wrong observation is the stored bytes / elements, the
    signature is the conversion class (operation kind, source type, destination type, class of the value)."""
    op = rec["op"]
    k = op["k"]
    if k not in CONV_KINDS:
        return None
    if len(exp_lines) != len(act_lines):
        return None
    for e, a in zip(exp_lines, act_lines):
        if e == a:
            continue
        et, at = e.split(" "), a.split(" ")
        if len(et) != len(at) or et[0] != at[0]:
            return None
        if et[0] == "s:B":
            if et[:7] != at[:7]:
                return None
        elif et[0] == "s:V":
            if et[:5] != at[:5]:
                return None
        elif et[0] == "s:R":
            if k == "astore":
                continue                   # Atomics.store returns the converted value itself
            if et[1:5] != at[1:5]:
                return None
        else:
            return None
    if k in ("fromta", "setta"):
        src = views_types[(op["v"] if k == "fromta" else op["src"]) - 1]
        dst = op["t"] if k == "fromta" else views_types[op["v"] - 1]
        aux = rec.get("aux") or []
        bad = set()
        for e, a in zip(exp_lines, act_lines):
            if e == a:
                continue
            et, at = e.split(" "), a.split(" ")
            if k == "fromta" and et[0] == "s:R":
                bad.update(j for j in range(len(aux)) if et[5 + j] != at[5 + j])
            elif k == "setta" and et[0] == "s:B":
                tv = rec["obs"]["v"][op["v"] - 1]
                toff = 0 if op["a1"]["k"] != "fin" else op["a1"]["i"]
                for p in range(len(et) - 7):
                    if et[7 + p] != at[7 + p]:
                        bad.add((p - tv["boff"]) // SIZE[dst] - toff)
        vals = [aux[j] for j in sorted(bad) if 0 <= j < len(aux)]
        if not vals:
            return None
    else:
        src = "number"
        dst = op["t"] if k in ("fromlist", "dvset") else views_types[op["v"] - 1]
        if k in ("astore", "aadd") and dst == "Uint8C":
            return None
        vals = op["vals"] if k in ("setarr", "fromlist") else [op["val"]]
    if dst not in INT_TYPES:
        return None
    order = ["ge-2^63", "le-minus-2^63", "above-range", "below-range", "above-range-frac", "below-range-frac", "pinf", "ninf",
             "nan", "nz", "undef", "in-range-frac", "in-range"]
    classes = sorted({value_class(x, dst) for x in vals}, key=lambda c: order.index(c) if c in order else 99)
    return {"class": "conversion", "op": k, "src": src, "dst": dst, "value": classes[0] if classes else "none"}


# ------------------------------------------------------------------ replay workers (separate processes)

def _run_batch(hbuf, batch, fresh=False):
    """batch: list of (id, [js...], [[expected lines]...]).  Returns list of (id, first bad step | -3, actual | how).
    fresh: one engine context per scenario (confirmation runs) instead of one per 64 scenarios."""
    scen = [{"id": sid, "steps": steps} for sid, steps, _ in batch]
    res = vlib.run_lines(hbuf, scen, env_extra={"HBUF_GROUP": "1" if fresh else "64"})
    out = []
    for sid, steps, exps in batch:
        r = res.get(sid)
        if r is None:
            out.append((sid, -2, "no result"))
            continue
        if "abort" in r or "panic" in r:
            out.append((sid, -3, r.get("abort") or r.get("panic")))
            continue
        bad = -1
        for i, (st, ex) in enumerate(zip(r["steps"], exps)):
            if st["out"] != ex or not st["c"].startswith("value:"):
                bad = i
                break
        if bad >= 0:
            out.append((sid, bad, r["steps"]))
    return out


class Replayer:
    """Collects scenarios, runs them in batches on a process pool, keeps only failures."""

    def __init__(self, hbuf, procs, batch=1500):
        self.hbuf, self.batch = hbuf, batch
        self.pool = cf.ProcessPoolExecutor(max_workers=procs)
        self.lock = threading.Lock()
        self.pending = []
        self.futs = []
        self.meta = {}          # id -> scenario meta of in-flight scenarios
        self.failures = []      # (meta, bad step, actual)
        self.count = 0
        self.sem = threading.Semaphore(procs * 3)

    def add(self, meta, steps, exps):
        with self.lock:
            sid = self.count
            self.count += 1
            self.meta[sid] = meta
            self.pending.append((sid, steps, exps))
            flush = len(self.pending) >= self.batch
            if flush:
                b, self.pending = self.pending, []
        if flush:
            self._submit(b)

    def _submit(self, b):
        self.sem.acquire()
        f = self.pool.submit(_run_batch, self.hbuf, b)
        f.add_done_callback(lambda fu, ids=[x[0] for x in b]: self._done(fu, ids))
        with self.lock:
            self.futs.append(f)

    def _done(self, fu, ids):
        self.sem.release()
        try:
            res = fu.result()
        except Exception as e:      # noqa: BLE001
            with self.lock:
                self.failures.append(({"tool_error": str(e)}, -9, None))
            return
        with self.lock:
            bad = {sid for sid, _, _ in res}
            for sid, step, actual in res:
                self.failures.append((self.meta[sid], step, actual))
            for sid in ids:
                if sid not in bad:
                    self.meta.pop(sid, None)

    def finish(self):
        with self.lock:
            b, self.pending = self.pending, []
        if b:
            self._submit(b)
        while True:
            with self.lock:
                fs = list(self.futs)
            cf.wait(fs)
            with self.lock:
                if len(self.futs) == len(fs):
                    break
        self.pool.shutdown()
        for m, step, _ in self.failures:
            if "tool_error" in m:
                raise vlib.ToolError("replay worker failed: " + m["tool_error"])
        return self.failures


# ------------------------------------------------------------------ TLC jobs

def merge_obs(prev, delta):
    """Full observation from the previous full observation and the delta the model printed."""
    out = {}
    for k in ("b", "v", "d"):
        out[k] = [prev[k][i] if x.get("same") else x for i, x in enumerate(delta[k])]
    return out


def full_rec(rec, prev_obs):
    """Copy of a step record whose observation is complete."""
    r = dict(rec)
    r["obs"] = rec["obs"] if prev_obs is None else merge_obs(prev_obs, rec["obs"])
    return r


MAX_REPORTED = 25     # VIOLATION lines per run (a broad regression fails thousands of histories)
CHAIN = 32      # state-preserving operations of one state replayed in one scenario


class Family:
    """One TLC run (configuration x set-up): decodes INIT / EDGE / REPLAY lines into scenarios.
    Operations that leave the model state unchanged (reads, rejected calls, dropped results) are self-loops of
    the model; up to CHAIN of them from the same state are replayed in one scenario, each followed by the
    complete observation."""

    def __init__(self, name, cfg, setup, rp, stats):
        self.name, self.cfg, self.setup, self.rp, self.stats = name, cfg, setup, rp, stats
        self.init = {}       # setup id -> (rec, js, exp)
        self.cache = {}      # key of op prefix -> (rec, js, exp)
        self.edges = 0
        self.loops = None    # (prefix key, su, chain, [steps])

    def on_tagged(self, tag, o):
        if tag == "INIT":
            rec = full_rec(o, None)
            self.init[o["op"]["su"]["id"]] = (rec,) + render_step(rec)
        elif tag == "EDGE":
            self.edges += 1
            su = o["su"]
            keys = [su]
            chain = [self.init[su]]
            for op in o["pre"]:
                keys.append(json.dumps(op, sort_keys=True))
                c = self.cache.get("\x00".join(keys))
                if c is None:
                    raise vlib.ToolError(f"{self.name}: EDGE whose prefix was never emitted")
                chain.append(c)
            rec = full_rec(o["rec"], chain[-1][0]["obs"])
            step = (rec,) + render_step(rec)
            if o["ext"]:
                self.cache["\x00".join(keys + [json.dumps(rec["op"], sort_keys=True)])] = step
            self.count(su, chain, step)
            if rec["loop"]:
                pk = "\x00".join(keys)
                if self.loops is not None and (self.loops[0] != pk or len(self.loops[3]) >= CHAIN):
                    self.flush()
                if self.loops is None:
                    self.loops = (pk, su, chain, [])
                self.loops[3].append(step)
            else:
                self.submit(su, chain + [step], len(chain))
        elif tag == "REPLAY":
            self.edges += 1
            chain, prev = [], None
            for r in o:
                rec = full_rec(r, prev)
                prev = rec["obs"]
                chain.append((rec,) + render_step(rec))
            su = o[0]["op"]["su"]["id"]
            self.count(su, chain[:-1], chain[-1], len(chain) - 1)
            with self.stats["lock"]:
                for c in chain[1:-1]:
                    k = c[0]["op"]["k"]
                    self.stats["kinds"][k] = self.stats["kinds"].get(k, 0) + 1
            self.submit(su, chain, len(chain))

    def flush(self):
        if self.loops is not None:
            _, su, chain, steps = self.loops
            self.loops = None
            self.submit(su, chain + steps, len(chain))

    def count(self, su, chain, step, nops=1):
        tags = set(step[0]["tags"])
        for rec, _, _ in chain:
            tags.update(rec["tags"])
        st = self.stats
        with st["lock"]:
            st["histories"] += 1
            st["ops"] += nops
            k = step[0]["op"]["k"]
            st["kinds"][k] = st["kinds"].get(k, 0) + 1
            rk = step[0]["r"]["k"]
            rk = step[0]["r"]["c"] if rk == "t" else ("ok")
            st["results"][rk] = st["results"].get(rk, 0) + 1
            if tags & NONTRIVIAL_TAGS:
                st["nontrivial"] += 1
            for t in tags:
                st["tags"][t] = st["tags"].get(t, 0) + 1
            if st["histories"] % 9973 == 1 and len(st["samples"]) < 5:
                st["samples"].append({"family": self.name, "setup": su, "ops": [op_sig(c[0]["op"]) for c in chain[1:]] + [op_sig(step[0]["op"])],
                                      "expected_result": step[2][0], "expected_first_buffer": step[2][1] if len(step[2]) > 1 else None})

    def submit(self, su, steps, chain_from):
        meta = {"family": self.name, "su": su, "recs": [c[0] for c in steps], "chain_from": chain_from}
        self.rp.add(meta, [c[1] for c in steps], [c[2] for c in steps])

    def run(self, workers=1, simulate=None, depth=None, tseed=None, coverage=False, timeout=2400):
        env = {"JAVA_TOOL_OPTIONS": "-XX:ParallelGCThreads=2", "C15_SETUP": self.setup or ""}
        r = vlib.run_tlc(MC, self.cfg, workers=workers, simulate=simulate, depth=depth, tseed=tseed, coverage=coverage,
                         timeout=timeout, xmx="4g", env_extra=env, on_tagged=self.on_tagged)
        self.flush()
        self.cache.clear()
        return r


def new_stats():
    return {"lock": threading.Lock(), "histories": 0, "ops": 0, "kinds": {}, "results": {}, "nontrivial": 0, "tags": {}, "samples": []}


# ------------------------------------------------------------------ model evaluation of given histories

def model_eval(hists, tag="eval"):
    """hists: list of {"id", "bufs", "mk", "ops"}.  Returns id -> list of complete step records (the last
    one has r.k == "disabled" if the script could not be applied)."""
    if not hists:
        return {}
    os.makedirs(vlib.WORK, exist_ok=True)
    path = os.path.join(vlib.WORK, f"c15-{tag}-{os.getpid()}.ndjson")
    with open(path, "w") as f:
        for h in hists:
            f.write(json.dumps(h) + "\n")
    r = vlib.run_tlc(EVAL, "MCBuffersEval.cfg", workers=2, timeout=900, xmx="3g", env_extra={"C15_HISTS": path,
                     "JAVA_TOOL_OPTIONS": "-XX:ParallelGCThreads=2"})
    os.unlink(path)
    vlib.tlc_must_pass(r, "Buffers (scripted)")
    out = {}
    for tg, o in r["tagged"]:
        if tg != "REPLAY":
            continue
        recs, prev = [], None
        for x in o:
            rec = full_rec(x, prev)
            prev = rec["obs"]
            recs.append(rec)
        out[o[0]["op"]["su"]["id"]] = recs
    if len(out) != len(hists):
        raise vlib.ToolError(f"scripted model run answered {len(out)} of {len(hists)} histories")
    return out


def hist_of(recs, upto=None):
    """Script {bufs, mk, ops} of a list of step records (first record = set-up)."""
    su = recs[0]["op"]["su"]
    ops = [r["op"] for r in recs[1:(upto + 1 if upto is not None else None)]]
    return {"bufs": su["bufs"], "mk": su["mk"], "ops": ops}


def replay_recs(hbuf, items):
    """items: list of (key, recs).  Runs each, returns key -> (first bad step | -1 | -3, actual)."""
    batch = []
    for key, recs in items:
        rs = [render_step(r) for r in recs]
        batch.append((key, [x[0] for x in rs], [x[1] for x in rs]))
    res = {}
    for i in range(0, len(batch), 400):
        for sid, step, actual in _run_batch(hbuf, batch[i:i + 400], fresh=True):
            res[sid] = (step, actual)
    return {k: res.get(k, (-1, None)) for k, _ in items}


def view_types(recs, upto):
    """Element types of the views V[0..] that exist before step `upto`."""
    ts = [op["t"] for op in recs[0]["op"]["su"]["mk"] if op["k"] == "newview"]
    for r in recs[1:upto]:
        if r["r"].get("k") == "v" and r["r"].get("slot", 0) > 0:
            ts.append(r["r"]["t"])
    return ts


def describe(recs, step, actual):
    rec = recs[step]
    js, exp = render_step(rec)
    act = actual[step]["out"] if isinstance(actual, list) and step < len(actual) else actual
    diff = []
    if isinstance(act, list):
        for i in range(max(len(exp), len(act))):
            e = exp[i] if i < len(exp) else None
            a = act[i] if i < len(act) else None
            if e != a:
                diff.append({"expected": e, "actual": a})
    return {"setup": recs[0]["op"]["su"], "ops": [op_sig(r["op"]) for r in recs[1:step + 1]], "raw_ops": [r["op"] for r in recs[1:step + 1]], "js": [render_step(r)[0] for r in recs[:step + 1]],
            "failing_step": step, "expected": exp, "actual": act, "diff": diff[:8]}


def shrink(hbuf, recs, step, budget=4):
    """Deletes path operations before the failing step while the (model-re-evaluated) history still fails at
    its last step.  Returns (recs, step, actual) of the smallest failing history found."""
    cur = recs[:step + 1]
    actual = None
    for _ in range(budget):
        if len(cur) <= 2:
            break
        cands = []
        for i in range(1, len(cur) - 1):
            h = hist_of(cur[:i] + cur[i + 1:])
            h["id"] = f"s{i}"
            cands.append(h)
        ev = model_eval(cands, "shrink")
        items = [(k, v) for k, v in ev.items() if v[-1]["r"].get("k") != "disabled" and len(v) == len(cur) - 1]
        rr = replay_recs(hbuf, items)
        nxt = None
        for k, v in items:
            st, act = rr[k]
            if st == len(v) - 1 or st == -3:
                nxt, actual = v, act
                break
        if nxt is None:
            break
        cur = nxt
    return cur, len(cur) - 1, actual


# ------------------------------------------------------------------ the check

QUICK = [  # (name, cfg, workers)
    ("G", "MCBuffers_G1.cfg", 2), ("E", "MCBuffers_E1.cfg", 2), ("C", "MCBuffers_C1.cfg", 2), ("O", "MCBuffers_O1.cfg", 1),
    ("X", "MCBuffers_X0.cfg", 1), ("F", "MCBuffers_F1.cfg", 1)]
THOROUGH = [
    ("G", "MCBuffers_G2.cfg", 4), ("E", "MCBuffers_E2.cfg", 3), ("C", "MCBuffers_C1.cfg", 2), ("O", "MCBuffers_O2.cfg", 2),
    ("X", "MCBuffers_X1.cfg", 2), ("F", "MCBuffers_F2.cfg", 2)]
SIMULATE = {"quick": (300, 1), "thorough": (1500, 3)}     # (number of random histories, TLC workers)
KIND_ACTION = {"resize": "Resize", "grow": "Grow", "transfer": "Transfer", "detach": "Detach", "bslice": "BufSlice", "newview": "NewView",
               "newdv": "NewDataView", "get": "GetElem", "set": "SetElem", "fcopy": "FloatCopy", "fill": "Fill", "cw": "CopyWithin",
               "setarr": "SetFromList", "setta": "SetFromTA", "sub": "Subarray", "slice": "Slice", "fromta": "FromTA",
               "fromlist": "FromList", "dvget": "DvGet", "dvset": "DvSet", "aload": "AtomicsLoad", "astore": "AtomicsStore",
               "aadd": "AtomicsAdd"}
FLOOR = {"quick": 5000, "thorough": 30000}


def sig_text(sig):
    """Signatures are strings (vlib keys them): class-specific compact text."""
    c = sig["class"]
    if c == "conversion":
        return f"conversion:{sig['op']}:{sig['src']}->{sig['dst']}:{sig['value']}"
    if c == "abort":
        return f"abort:{sig['op']}:side-effect={sig['side_effect']}:{sig['how']}"
    return f"{c}:{sig['su']}:" + json.dumps(sig["ops"], sort_keys=True)


def abort_class(how):
    """Panic / abort message without the numbers and without the checkout prefix and line of the location."""
    import re
    msg, _, loc = how.partition(" @ ")
    msg = re.sub(r"\d+", "N", msg)[:160]
    loc = re.sub(r":\d+$", "", loc)
    if "core/engine/" in loc:
        loc = loc[loc.index("core/engine/"):]
    return f"{msg} @ {loc}" if loc else msg


def analyse(ck, hbuf, failures):
    """Confirms, de-duplicates, classifies and reports the failures of the bulk replay."""
    # 1. minimal candidate histories: prefix + failing step; members of a failed chain are re-run one by one
    cands = {}
    for meta, step, actual in failures:
        recs, cf_ = meta["recs"], meta["chain_from"]
        if step == -2:
            raise vlib.ToolError("a scenario was not answered by hbuf")
        if step == -3:                      # abort / panic somewhere in the scenario: try every step
            idxs = list(range(1, len(recs)))
        elif step < cf_:
            idxs = [step]
        else:
            idxs = list(range(step, len(recs))) if len(recs) > cf_ + 1 else [step]
        for j in idxs:
            h = recs[:min(j, cf_)] + [recs[j]] if j >= cf_ else recs[:j + 1]
            key = json.dumps([recs[0]["op"]["su"]["id"]] + [op_sig(r["op"]) for r in h[1:]], sort_keys=True)
            if key not in cands:
                cands[key] = (h, meta, step, actual)
    items = [(k, v[0]) for k, v in cands.items()]
    rr = replay_recs(hbuf, items)
    confirmed = []
    aborting = {k for k in cands if rr[k][0] == -3}

    def hist_key(h):
        return json.dumps([h[0]["op"]["su"]["id"]] + [op_sig(r["op"]) for r in h[1:]], sort_keys=True)

    for k, (h, meta, step, actual) in cands.items():
        st, act = rr[k]
        if st == -1:
            continue                       # this member of a failed chain is fine on its own
        if st == -3:
            # the process died somewhere in this history: it belongs to its last operation only if no proper
            # prefix (a candidate of its own) dies already
            if any(hist_key(h[:m]) in aborting for m in range(2, len(h))):
                continue
            confirmed.append((h, len(h) - 1, act, True))
        elif st == len(h) - 1:
            confirmed.append((h, st, act, False))
        # a failure at an earlier step is reported by the candidate that ends there
    if failures and not confirmed:
        # nothing reproduces in isolation: the chained replay itself is the failing history
        for meta, step, actual in failures[:3]:
            recs = meta["recs"][:step + 1] if step >= 0 else meta["recs"]
            sig = {"class": "chain-dependent", "su": recs[0]["op"]["su"]["id"], "ops": [op_sig(r["op"]) for r in recs[1:]]}
            ck.failure(sig_text(sig), {"note": "fails only after the preceding state-preserving operations", "ops": sig["ops"], "actual": actual})
        return
    # 2. signatures
    shrunk = 0
    for h, st, act, aborted in confirmed:
        if len(ck.violations) >= MAX_REPORTED:
            vlib.log(f"[C15] {len(confirmed)} failing histories; only the first {MAX_REPORTED} distinct signatures are reported")
            break
        rec = h[st]
        if aborted:
            sig = {"class": "abort", "op": rec["op"]["k"], "side_effect": (rec["op"].get("ev") or {}).get("k", "none"),
                   "how": abort_class(str(act))}
            ck.failure(sig_text(sig), {"how": act, **describe(h, st, None)})
            continue
        js, exp = render_step(rec)
        sig = conversion_signature(rec, view_types(h, st), exp, act[st]["out"])
        if sig is None:
            if shrunk < 4 and st > 1:
                shrunk += 1
                h2, st2, act2 = shrink(hbuf, h, st)
                if act2 is not None:
                    h, st, act = h2, st2, act2
            sig = {"class": "behaviour", "su": h[0]["op"]["su"]["id"], "ops": [op_sig(r["op"]) for r in h[1:st + 1]]}
        ck.failure(sig_text(sig), describe(h, st, act))


def run(tier, replay=None):
    ck = vlib.Check(PID, tier, "model_checking", replay)
    bindir = vlib.build_harness(["hbuf"])
    hbuf = os.path.join(bindir, "hbuf")
    if replay:
        return run_replay(ck, hbuf, replay)
    fams = QUICK if tier == "quick" else THOROUGH
    only = os.environ.get("C15_ONLY")          # development only: restrict to some families, no vacuity floors
    if only:
        fams = [f for f in fams if f[0] in only.split(",")]
    rp = Replayer(hbuf, procs=6 if tier == "quick" else 8)
    stats = new_stats()
    results = {}
    errors = []

    def job(name, cfg, workers, **kw):
        f = Family(name, cfg, None, rp, stats)
        try:
            r = f.run(workers=workers, **kw)
            results[name] = (r, f.edges)
        except Exception as e:      # noqa: BLE001
            errors.append((name, e))

    t0 = time.time()
    threads = [threading.Thread(target=job, args=f) for f in fams]
    if not only or "R" in only.split(","):
        threads.append(threading.Thread(target=job, args=("R", "MCBuffers_R.cfg", SIMULATE[tier][1]),
                                        kwargs=dict(simulate=SIMULATE[tier][0], depth=13, tseed=vlib.seed())))
    for t in threads:
        t.start()
    for t in threads:
        t.join()
    for name, e in errors:
        if isinstance(e, vlib.ToolError):
            raise vlib.ToolError(f"family {name}: {e}")
        raise e
    states = trans = 0
    cmds = []
    for name, (r, edges) in sorted(results.items()):
        vlib.tlc_must_pass(r, f"Buffers/{name}")
        if name != "R":
            states += r["distinct"]
            trans += r["states"]
            if edges + r["distinct"] < r["states"] - 5 or edges > r["states"]:
                raise vlib.ToolError(f"family {name}: {edges} EDGE lines for {r['states']} generated states")
        cmds.append(r["cmd"])
        ck.cov.setdefault("families", {})[name] = {"distinct_states": r["distinct"], "transitions": r["states"], "histories": edges,
                                                    "tlc_wall_s": round(r["wall"], 1)}
    vlib.log(f"[C15] TLC done in {time.time() - t0:.0f}s, {stats['histories']} histories, waiting for replays")
    failures = rp.finish()
    vlib.log(f"[C15] {rp.count} scenarios replayed, {len(failures)} with a mismatch, {time.time() - t0:.0f}s")
    analyse(ck, hbuf, failures)
    # evidence
    ck.cov.update(states=states, transitions=trans, traces_validated_against_impl=stats["histories"], scenarios_run=rp.count,
                  evaluations=stats["ops"], distinct_nontrivial=stats["nontrivial"], by_operation=stats["kinds"], by_result=stats["results"],
                  by_tag=stats["tags"], checker_cmd=cmds,
                  rule="one history per transition of the scenario models (every reachable state x every operation of the family alphabet) "
                       "plus seeded -simulate histories of 12 operations; after every step the result / exception class and the complete "
                       "observation (byte image + getters of every buffer, length/byteLength/byteOffset and 7 boundary element reads of every "
                       "view, DataView getters) are compared; non-trivial = the history contains an access through a view or DataView that is "
                       "out of bounds, on a detached buffer or on a buffer resized under it, or an overlapping copy")
    for s in stats["samples"]:
        ck.sample(s)
    if only:
        return ck.finish()
    if stats["nontrivial"] < FLOOR[tier]:
        raise vlib.ToolError(f"vacuity guard: only {stats['nontrivial']} non-trivial histories")
    for t in ("oob", "det", "rz", "ovl"):
        if stats["tags"].get(t, 0) < 50:
            raise vlib.ToolError(f"vacuity guard: only {stats['tags'].get(t, 0)} histories tagged {t}")
    if stats["results"].get("TypeError", 0) < 100 or stats["results"].get("RangeError", 0) < 100:
        raise vlib.ToolError("vacuity guard: too few operations expected to throw")
    # every action of the specification must have been taken by TLC (one EDGE / REPLAY step = one action instance)
    ck.cov["tlc_coverage"] = {KIND_ACTION[k]: n for k, n in sorted(stats["kinds"].items())}
    missing = [a for k, a in KIND_ACTION.items() if stats["kinds"].get(k, 0) == 0]
    if missing:
        raise vlib.ToolError(f"actions of Buffers.tla never taken: {missing}")
    ck.assumptions += [
        "numbers: integers of 32 bits, quarters, symbolic multiples of 2^32 up to 3.5e38, NaN, +-Infinity, -0, undefined; float "
        "element types, Float16 and BigInt64 only at byte level (same-type copies, bit-pattern round trips of non-NaN patterns)",
        "single-threaded semantics of SharedArrayBuffer; Atomics not modelled",
        "argument conversions have no side effects (no valueOf that resizes or detaches during a call)",
        "ArrayBuffer.prototype.transfer/transferToFixedLength/detached are compiled with boa's `experimental` feature in hbuf",
        "memory safety is observed only as aborts, panics and debug assertions of the replay process"]
    return ck.finish()


def run_replay(ck, hbuf, path):
    """Re-evaluates the stored history with the model, replays it, fails iff the same signature fails again."""
    rf = json.load(open(path))
    d = rf["detail"]
    if "setup" not in d:
        raise vlib.ToolError("replay file without a history")
    ops = d.get("raw_ops")
    if ops is None:
        raise vlib.ToolError("replay file without raw operations")
    ev = model_eval([{"id": "r", "bufs": d["setup"]["bufs"], "mk": d["setup"]["mk"], "ops": ops}], "replay")["r"]
    rr = replay_recs(hbuf, [("r", ev)])["r"]
    ck.cov.update(states=len(ev), transitions=len(ev) - 1, traces_validated_against_impl=1, samples=[])
    st, act = rr
    if st == -1:
        vlib.log("[replay] the stored history now agrees with the model")
        ck.replay_sig = None
        ck.finish()
        return 0
    vlib.log(f"[replay] the stored history still fails at step {st}")
    ck.replay_sig = None
    ck.failure(rf["signature"], describe(ev, st if st >= 0 else len(ev) - 1, act))
    ck.finish()
    return 1
