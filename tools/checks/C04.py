"""C04 - Binding placement and operand shortcuts never change behaviour.

Model: spec/lang/JsCore.tla keeps every binding in an environment record and evaluates operands strictly left to
right: it IS the conservative semantics, and it referees every comparison (tools/cfgdiff.py).
Binding (A): every program runs under the default compiler, under the fully conservative compiler (hooks
force_escape = every binding lives in an environment, no_const_cache, no_hoist, no_fusion) and with each single
decision switched to its conservative choice (thorough: every subset of the four); the observation of each
configuration must equal the fully conservative one's.  Programs: the C01 interaction grids and the committed corpus
corpus/c04 (profile biased to closures in default parameters and loop heads, `x op (x = ...)`, update expressions on
string/boolean locals, switch cases sharing a scope, generators/finally around captured locals), each as a script and
as a function body entered through JsObject::call.

Development:  python3 tools/checks/C04.py build-corpus <seed> <n> | vet
"""
import itertools
import os
import sys

sys.path.insert(0, os.path.dirname(os.path.dirname(os.path.abspath(__file__))))
import vlib
import cfgdiff

SW = ["force_escape", "no_const_cache", "no_hoist", "no_fusion"]


def configs(tier):
    out = [("default", {}), ("conservative", {k: True for k in SW})]
    out += [("only:" + k, {k: True}) for k in SW]
    if tier == "thorough":
        for r in (2, 3):
            for c in itertools.combinations(SW, r):
                out.append(("set:" + "+".join(c), {k: True for k in c}))
    return out


def spec(tier):
    s = cfgdiff.Spec("C04", configs(tier), "conservative", "c04",
                     "all bindings in environments, no constant caching, no hoisting, no compare-and-branch fusion",
                     {"quick": 500, "thorough": 1500})
    s.sig_names = {n for n, _ in configs("quick")}
    return s


def run(tier, replay=None):
    return cfgdiff.run(spec(tier), tier, replay)


if __name__ == "__main__":
    if sys.argv[1] == "build-corpus":
        cfgdiff.build_corpus(spec("thorough"), "c04", int(sys.argv[2]), int(sys.argv[3]))
    elif sys.argv[1] == "vet":
        cfgdiff.vet(spec("quick"), sys.argv[2] if len(sys.argv) > 2 else "thorough")
