"""C04 - Binding placement and operand shortcuts never change behaviour.

Model: spec/lang/JsCore.tla keeps every binding in an environment record and evaluates operands strictly left to
right: it IS the conservative semantics, and it referees every comparison (tools/cfgdiff.py).
Binding (A): every program runs under the default compiler, under the fully conservative compiler (hooks
force_escape = every binding lives in an environment, no_const_cache, no_hoist, no_fusion) and with each single
decision switched to its conservative choice (thorough: every subset of the four); the observation of each
configuration must equal the fully conservative one's.  Programs: the C01 interaction grids and the committed corpus
corpus/c04 (profile biased to closures in default parameters and loop heads, `x op (x = ...)`, update expressions on
string/boolean locals, switch cases sharing a scope, generators/finally around captured locals), each as a script and
as a function body entered through JsObject::call.

Development:  python3 tools/checks/C04.py build-corpus <seed> <n> | vet
"""
import itertools
import os
import sys

sys.path.insert(0, os.path.dirname(os.path.dirname(os.path.abspath(__file__))))
import vlib
import cfgdiff

SW = ["force_escape", "no_const_cache", "no_hoist", "no_fusion"]


def configs(tier):
    out = [("default", {}), ("conservative", {k: True for k in SW})]
    out += [("only:" + k, {k: True}) for k in SW]
    if tier == "thorough":
        for r in (2, 3):
            for c in itertools.combinations(SW, r):
                out.append(("set:" + "+".join(c), {k: True for k in c}))
    return out


def with_programs():
    """`with` and direct eval are outside MiniJS: every binding they can reach by name must stay in its environment, also
    after a nested `with` / eval has ended and for bindings first mentioned late."""
    T = {
        "read": "function f(o){ let x = 'local'; with (o) { %s return x } } print(f({x: 'obj'}), f({}));",
        "write": "function f(o){ let y = 'local'; with (o) { %s y = 'written' } return y + '/' + o.y } print(f({y: 'obj'}), f({}));",
        "compound": "function f(o){ let n = 0, i = 0; with (o) { %s n += 10; n += 10 } return n + '/' + o.n + '/' + i } print(f({n: 100}), f({}));",
        "update": "function f(o){ let n = 1; with (o) { %s n++; ++n } return n + '/' + o.n } print(f({n: 5}), f({}));",
        "typeof": "function f(o){ let z = 1; with (o) { %s return typeof z + z } } print(f({z: 's'}), f({}));",
        "call": "function f(o){ function g(){ return 'local' } with (o) { %s return g() } } print(f({g: function(){ return 'obj' }}), f({}));",
        "const": "function f(o){ const c = 1; with (o) { %s return c + 1 } } print(f({c: 10}), f({}));",
        "param": "function f(o, p){ with (o) { %s p = p + 1 } return p + '/' + o.p } print(f({p: 10}, 1), f({}, 1));",
        "loop": "function f(o){ let s = 0; for (let i = 0; i < 3; i++) { with (o) { %s s += i } } return s + '/' + o.s } print(f({s: 100}), f({}));",
        "closure-late": "function f(o){ let v = 'local'; with (o) { %s v = 'w' } return (function(){ return v })() + '/' + o.v } print(f({v: 'obj'}), f({}));",
        "delete": "function f(o){ var d = 'local'; with (o) { %s delete o.d; return d } } print(f({d: 'obj'}), f({}));",
    }
    INNER = {"none": "", "with-empty": "with ({}) { }", "with-use": "with ({u: 1}) { u; }", "with-math": "with (Math) { max(1, 2); }",
             "eval-noop": "eval('1');", "eval-var": "eval('var q = 1');", "block-let": "{ let b = 1; b; }", "try": "try { null.x } catch (e) { }",
             "nested2": "with ({}) { with ({}) { } }", "arrow": "(() => 1)();", "label": "l: { break l; }", "switch": "switch (1) { case 1: break; }"}
    out = []
    for tn, t in T.items():
        for inn, code in INNER.items():
            out.append(("with/%s/%s" % (tn, inn), t % code))
    return out


def spec(tier):
    s = cfgdiff.Spec("C04", configs(tier), "conservative", "c04",
                     "all bindings in environments, no constant caching, no hoisting, no compare-and-branch fusion",
                     {"quick": 500, "thorough": 1500})
    s.sig_names = {n for n, _ in configs("quick")}
    s.raw_items = with_programs()
    return s


def run(tier, replay=None):
    return cfgdiff.run(spec(tier), tier, replay)


if __name__ == "__main__":
    if sys.argv[1] == "build-corpus":
        cfgdiff.build_corpus(spec("thorough"), "c04", int(sys.argv[2]), int(sys.argv[3]))
    elif sys.argv[1] == "vet":
        cfgdiff.vet(spec("quick"), sys.argv[2] if len(sys.argv) > 2 else "thorough")
