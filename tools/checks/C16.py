"""C16 - Promise jobs run in spec FIFO order; results do not depend on scheduling.

Model: spec/async/Promises.tla (promise records, resolving functions, reactions, thenable jobs, Await, async
function start/return/throw, the FIFO job queue) executed by TLC on every scenario of the bounded universes
of spec/async/MCPromises.tla.  The machine is deterministic; its observation stream is THE order ECMA-262
prescribes.  TLC checks JobsFifo, EachJobOnce, JobAfterSyncCode, SettleOnce, ReactionAfterSettle,
AwaitResumesOnce, StructureOK, SettledIsStable on every state (the model gate).

Binding (A): every scenario emitted by TLC is rendered to JavaScript (render()) and executed by
harness/crates/hasync against the engine built from /repo under several host schedules:
  sync   Script::evaluate + Context::run_jobs
  async  evaluate_async_with_budget(b) + SimpleJobExecutor::run_jobs_async, both polled by a hand-rolled
         executor with seeded noise between polls, b in {1,2,3,5,8,...,2^20}
  count  a strict FIFO executor of the harness that logs enqueue/run of every promise job and drains the
         queue in several run_jobs calls (seeded quotas), host hooks log HostPromiseRejectionTracker
Every print trace must equal the model's; in `count` mode the tracker events must match too; the job
enqueue/run events are compared as an implementation-shaped observation (MODEL-DRIFT, not a violation).
Scenarios with a `late` part additionally drain the queue, evaluate a second script that settles shared
promises, and drain again (jobs drained in several calls)."""
import json
import os
import random
import re
import sys
import time
from concurrent.futures import ProcessPoolExecutor

import vlib

SPEC_DIR = os.path.join(vlib.SPEC, "async")
MAX_REPORTED = 8          # distinct failures reported per run (smallest scenarios first)
# signature of the open known finding (known_findings.d/C16.json)
KNOWN_YS_RETURN = ("async generator yield*: the value of a done result of inner.return() is awaited before the "
                   "generator returns (observations equal Promises.tla with Quirks = {ysReturnAwait})")


def uses_yield_star(scn):
    return any(st.get("op") == "ys" for t in scn["tasks"] for st in t.get("steps", []))


# ---------------------------------------------------------------- rendering scenario -> JavaScript

def site_n(i, j, x):
    return i * 100 + j * 10 + x


def opnd_js(o, i, j, x):
    k = o["o"]
    n = site_n(i, j, x)
    l = f"o{i}.{j}.{x}"
    if k == "u":
        return "undefined"
    if k == "v":
        return str(n)
    if k == "F":
        return f"Promise.resolve({n})"
    if k == "R":
        return f"Promise.reject({n})"
    if k == "S":
        return f"S{o['s']}"
    if k == "T":
        return f"T{o['s']}"
    if k == "ThS":
        return f'({{then:function(r,j){{print("{l}");r({n})}}}})'
    if k == "ThR":
        return f'({{then:function(r,j){{print("{l}");j({n})}}}})'
    if k == "ThA":
        return f'({{then:function(r,j){{print("{l}");Promise.resolve().then(function(){{r({n})}})}}}})'
    if k == "ThX":
        return f'({{then:function(r,j){{print("{l}");r({n});throw {n + 1}}}}})'
    if k == "ThT":
        return f'({{then:function(r,j){{print("{l}");throw {n}}}}})'
    if k == "ThD":
        return f'({{then:function(r,j){{print("{l}");r({n});r({n + 1});j({n + 2})}}}})'
    if k == "Gn":
        return f'({{get then(){{print("{l}");return undefined}}}})'
    if k == "Gf":
        return f'({{get then(){{print("{l}");return function(r,j){{print("{l}m");r({n})}}}}}})'
    if k == "Gx":
        return f'({{get then(){{print("{l}");throw {n}}}}})'
    if k == "Pp":
        return (f'(function(){{var p=Promise.resolve({n});p.then=function(a,b){{print("{l}");'
                f'return Promise.prototype.then.call(this,a,b)}};return p}})()')
    if k == "Pc":
        return f'(function(){{var p=Promise.resolve({n});p.constructor=function(){{}};return p}})()'
    raise vlib.ToolError(f"renderer: unknown operand kind {k}")


def handler_js(spec, label, i, j, x, noarg):
    if spec["o"] == "none":
        return "undefined"
    head = f'function(){{print("{label}");' if noarg else f'function(v){{pr("{label}",v);'
    if spec["o"] == "throw":
        return head + f"throw {site_n(i, j, x)}}}"
    return head + f"return {opnd_js(spec, i, j, x)}}}"


def settle_js(step, i, j):
    if step["op"] == "res":
        return f"rS{step['s']}({opnd_js(step['x'], i, j, 0)});"
    if step["op"] == "rej":
        return f"jS{step['s']}({site_n(i, j, 0)});"
    raise vlib.ToolError(f"renderer: unknown settle step {step}")


# every print of a value goes through this helper of the scripts: it spreads arrays, the records of
# Promise.allSettled and iterator results into their components (Promises.tla: Flat)
PR_HELPER = ('function pr(l,v){var a=[l];function one(e){if(e!==null&&typeof e==="object"){if("status" in e){'
             'a.push(e.status);a.push(e.status==="fulfilled"?e.value:e.reason);return}if(("done" in e)&&("value" in e)){'
             'a.push(e.value);a.push(e.done);return}}a.push(e)}if(Array.isArray(v)){for(var k=0;k<v.length;k++)one(v[k])}'
             'else one(v);print.apply(null,a)}')


def body_js(t, i, gen):
    body = [f'print("{"gg" if gen else "go"}{i}.0");var r;']
    for pc, st in enumerate(t["steps"], start=1):
        op = st["op"]
        if op == "aw":
            body.append(f'r=await {opnd_js(st["x"], i, pc, 0)};pr("aw{i}.{pc}",r);')
        elif op == "awc":
            body.append(f'try{{r=await {opnd_js(st["x"], i, pc, 0)};pr("aw{i}.{pc}",r)}}'
                        f'catch(e){{pr("ca{i}.{pc}",e)}}')
        elif op == "yi" and gen:
            body.append(f'r=yield {opnd_js(st["x"], i, pc, 0)};pr("yi{i}.{pc}",r);')
        elif op == "ys" and gen:
            body.append(f'r=yield* G{st["s"]};pr("ys{i}.{pc}",r);')
        elif op == "gq" and not gen:
            body.append(f'G{st["s"]}.{st["g"]}({site_n(i, pc, 1)}).then(function(v){{pr("gq{i}.{pc}",v)}},'
                        f'function(v){{pr("ge{i}.{pc}",v)}});')
        elif op == "awq" and not gen:
            body.append(f'r=await G{st["s"]}.{st["g"]}({site_n(i, pc, 1)});pr("aw{i}.{pc}",r);')
        elif op in ("res", "rej"):
            body.append(settle_js(st, i, pc))
        else:
            raise vlib.ToolError(f"renderer: unknown step {st}")
    if t["ret"]["o"] == "throw":
        body.append(f"throw {site_n(i, 9, 0)};")
    else:
        body.append(f"return {opnd_js(t['ret'], i, 9, 0)};")
    return "".join(body)


def render(scn):
    """-> list of script sources (1 or 2)."""
    out = [PR_HELPER]
    for s in range(1, scn["ns"] + 1):
        out.append(f"var S{s},rS{s},jS{s};S{s}=new Promise(function(r,j){{rS{s}=r;jS{s}=j}});")
    for i, t in enumerate(scn["tasks"], start=1):
        if t["kind"] == "A":
            out.append(f"async function t{i}(){{" + body_js(t, i, False) + "}")
            out.append(f'var T{i}=t{i}();T{i}.then(function(v){{pr("ok{i}.0",v)}},function(e){{pr("err{i}.0",e)}});')
        elif t["kind"] == "G":
            out.append(f"async function* g{i}(){{" + body_js(t, i, True) + "}")
            out.append(f"var G{i}=g{i}();")
        elif t["kind"] == "M":
            xs = ",".join(opnd_js(x, i, k, 0) for k, x in enumerate(t["xs"], start=1))
            out.append(f"var T{i}=Promise.{t['comb']}([{xs}]);")
            out.append(f'T{i}.then(function(v){{pr("ok{i}.0",v)}},function(e){{pr("err{i}.0",e)}});')
        elif t["kind"] == "C":
            out.append(f"var T{i}=Promise.resolve({opnd_js(t['base'], i, 0, 0)});")
            for l, lk in enumerate(t["links"], start=1):
                if lk["lk"] == "then":
                    out.append(f"T{i}=T{i}.then({handler_js(lk['f'], f'f{i}.{l}', i, l, 1, False)},"
                               f"{handler_js(lk['r'], f'r{i}.{l}', i, l, 2, False)});")
                elif lk["lk"] == "catch":
                    out.append(f"T{i}=T{i}.catch({handler_js(lk['r'], f'r{i}.{l}', i, l, 2, False)});")
                elif lk["lk"] == "finally":
                    out.append(f"T{i}=T{i}.finally({handler_js(lk['f'], f'n{i}.{l}', i, l, 3, True)});")
                else:
                    raise vlib.ToolError(f"renderer: unknown link {lk}")
        else:
            raise vlib.ToolError(f"renderer: unknown task kind {t['kind']}")
    srcs = ["\n".join(out)]
    if scn["late"]:
        srcs.append("\n".join(settle_js(st, 9, j) for j, st in enumerate(scn["late"], start=1)))
    return srcs


# ---------------------------------------------------------------- expected observations from the model

def render_value(v):
    t = v["t"]
    if t == "u":
        return "u"
    if t == "n":
        return f"n:{v['n']}"
    if t in ("p", "th", "ent"):
        return "o:Object"
    if t == "s":
        return f"s:{v['s']}"
    if t == "b":
        return "b:true" if v["b"] else "b:false"
    if t == "iter":
        return "o:Object"
    if t == "arr":
        return f"o:Array({len(v['xs'])})"
    if t == "err":
        return f"o:Error:{v['c']}"
    if t == "f":
        return "o:Function"
    raise vlib.ToolError(f"unknown model value {v}")


def expected_streams(model_out, nsrc):
    """Splits the model's (compact) stream into the harness steps (script1, jobs1[, script2, jobs2]) and
    formats the events as the harness does.  Returns list of steps; each step = list of strings, the first
    character being the kind of the event (p print, j job enqueue/run, k tracker)."""
    steps = [[]]
    for ev in model_out:
        e = ev[0]
        if e == "P":
            if ev[1] != "done":
                steps.append([])
        elif e == "p":
            steps[-1].append("p" + " ".join([f"s:{ev[1]}"] + [render_value(v) for v in ev[2]]))
        elif e == "+":
            steps[-1].append(f"jJ+{ev[1]}")
        elif e == ">":
            steps[-1].append(f"jJ>{ev[1]}")
        elif e == "k":
            steps[-1].append(f"kK:{ev[1]}")
        else:
            raise vlib.ToolError(f"unknown model event {ev}")
    if len(steps) != 2 * nsrc:
        raise vlib.ToolError(f"model stream has {len(steps)} phases for {nsrc} scripts")
    return steps


def proj(step, kinds):
    return [t[1:] for t in step if t[0] in kinds]


def classify(line):
    if line.startswith("J+") or line.startswith("J>"):
        return "j"
    if line.startswith("K:"):
        return "k"
    return "p"     # prints, and anything unexpected (J!, J?) is compared in the print projection


LABEL_TASK = re.compile(r"^s:[a-z]+(\d+)\.")


def interleaves(model_out):
    """Non-triviality rule: among the jobs that print, owners (task index of the first label printed by
    the job) form a pattern a .. b .. a with a != b: jobs of different tasks interleave."""
    owners = []
    cur = None
    in_jobs = False
    for ev in model_out:
        if ev[0] == ">":
            in_jobs = True
            cur = None
        elif ev[0] == "P":
            in_jobs = False
        elif ev[0] == "p" and in_jobs and cur is None:
            m = LABEL_TASK.match("s:" + ev[1])
            if m:
                cur = int(m.group(1))
                owners.append(cur)
    comp = []
    for o in owners:
        if not comp or comp[-1] != o:
            comp.append(o)
    return len(comp) > len(set(comp))


# ---------------------------------------------------------------- schedules

def budgets():
    b = [1, 2]
    while b[-1] + b[-2] < (1 << 20):
        b.append(b[-1] + b[-2])
    b.append(1 << 20)
    return b


def modes_for(rng, tier, idx):
    """Schedules of one scenario.  The budget sweep is ascending and stops (inside hasync) after the first
    budget under which nothing yielded: larger budgets give that very execution; 2^20 always runs."""
    bs = budgets()
    if tier == "thorough":
        chosen = bs
    else:
        small = [1, 2, 3, 5, 8]
        rest = [b for b in bs if b not in small and b != (1 << 20)]
        chosen = small + sorted(rng.sample(rest, 3)) + [1 << 20]
    ms = [{"m": "sync"}, {"m": "sweep", "budgets": chosen, "seed": rng.randrange(1, 1 << 30)},
          {"m": "count", "seed": rng.randrange(1, 1 << 30)}]
    if idx % 7 == 0:
        ms.append({"m": "eval"})
    return ms


def flatten_modes(ms, got_res):
    """-> list of (mode, result) with the sweep expanded into its async runs."""
    out = []
    for mode, g in zip(ms, got_res):
        if mode["m"] == "sweep" and "sweep" in g:
            for e in g["sweep"]:
                out.append(({"m": "async", "budget": e.get("budget"), "seed": mode["seed"], "of": "sweep"}, e))
        else:
            out.append((mode, g))
    return out


# ---------------------------------------------------------------- running

def _run_chunk(args):
    binary, chunk = args
    return vlib.run_lines(binary, chunk)


def run_parallel(binary, items, procs):
    if not items:
        return {}
    procs = max(1, min(procs, len(items) // 50 + 1))
    chunks = [items[k::procs] for k in range(procs)]
    res = {}
    with ProcessPoolExecutor(max_workers=procs) as ex:
        for r in ex.map(_run_chunk, [(binary, c) for c in chunks]):
            res.update(r)
    return res


def compare(exp_steps, mode, got):
    """-> list of (projection, step index, expected, actual) mismatches; projection in p|k|j|c|panic."""
    bad = []
    if "panic" in got or "abort" in got:
        return [("panic", 0, None, got.get("panic") or got.get("abort"))]
    gsteps = got["steps"]
    if len(gsteps) != len(exp_steps):
        return [("c", 0, len(exp_steps), len(gsteps))]
    for k, (es, gs) in enumerate(zip(exp_steps, gsteps)):
        if gs["c"] not in ("value:u", "value:o:Object"):
            bad.append(("c", k, "value:*", gs["c"]))
        lines = [(classify(x), x) for x in gs["out"]]
        if proj(es, "p") != [t for (c, t) in lines if c == "p"]:
            bad.append(("p", k, proj(es, "p"), [t for (c, t) in lines if c == "p"]))
        if mode["m"] == "count":
            if proj(es, "pk") != [t for (c, t) in lines if c in "pk"]:
                bad.append(("k", k, proj(es, "pk"), [t for (c, t) in lines if c in "pk"]))
            if proj(es, "pj") != [t for (c, t) in lines if c in "pj"]:
                bad.append(("j", k, proj(es, "pj"), [t for (c, t) in lines if c in "pj"]))
    if got.get("jobs") is not None:
        # events recorded inside SimpleJobExecutor by the cfg(boa_verif) hook: implementation-shaped too
        want = [[t[1], int(t[2:])] for es in exp_steps for t in proj(es, "j")]
        have = [[{"e": "+", "r": ">"}[k], i] for k, i in got["jobs"]]
        if want != have:
            bad.append(("j", len(exp_steps), want, have))
    return bad


def scn_size(scn):
    n = len(scn["late"])
    for t in scn["tasks"]:
        n += 1 + len(t.get("steps", [])) + len(t.get("links", [])) + len(t.get("xs", []))
    return n


def generate_random(rng, count):
    """Seeded scenarios beyond the exhaustive bound (more tasks / steps, mixed alphabets).  They are INPUTS
    only: expectations come from TLC (MCPromisesFile)."""
    kinds = ["v", "F", "R", "ThS", "ThR", "ThA", "ThX", "ThT", "ThD", "Gn", "Gf", "Gx", "Pp", "Pc", "u"]

    tasks = []

    def opnd(i, ns):
        r = rng.random()
        if ns and r < 0.25:
            return {"o": "S", "s": rng.randint(1, ns)}
        prom = [k for k in range(1, min(i, len(tasks) + 1)) if tasks[k - 1]["kind"] != "G"]   # tasks that expose a promise T_k
        if prom and r < 0.40:
            return {"o": "T", "s": rng.choice(prom)}
        return {"o": rng.choice(kinds), "s": 0}

    def hspec(i, ns, allow_none=True):
        r = rng.random()
        if allow_none and r < 0.15:
            return {"o": "none", "s": 0}
        if r < 0.25:
            return {"o": "throw", "s": 0}
        return opnd(i, ns)

    out = []
    for _ in range(count):
        ns = rng.randint(0, 2)
        nt = rng.randint(2, 5)
        tasks.clear()
        gens = []          # indices of earlier async generator tasks
        for i in range(1, nt + 1):
            kind_r = rng.random()
            if kind_r < 0.12:
                tasks.append({"kind": "M", "comb": rng.choice(["all", "allSettled", "race", "any"]),
                              "xs": [opnd(i, ns) for _k in range(rng.randint(0, 3))]})
            elif kind_r < 0.30 and i < nt:
                steps = []
                for _k in range(rng.randint(0, 3)):
                    r = rng.random()
                    if gens and r < 0.45:
                        steps.append({"op": "ys", "x": {"o": "u", "s": 0}, "s": rng.choice(gens)})
                    elif r < 0.75:
                        steps.append({"op": "yi", "x": opnd(i, ns), "s": 0})
                    else:
                        steps.append({"op": "aw" if rng.random() < 0.7 else "awc", "x": opnd(i, ns), "s": 0})
                tasks.append({"kind": "G", "steps": steps, "ret": hspec(i, ns, allow_none=False)})
                gens.append(i)
            elif kind_r < 0.68:
                steps = []
                for _k in range(rng.randint(0, 4)):
                    r = rng.random()
                    if gens and r < 0.45:
                        steps.append({"op": rng.choice(["gq", "gq", "awq"]), "x": {"o": "u", "s": 0}, "s": rng.choice(gens),
                                      "g": rng.choice(["next", "next", "next", "return", "throw"])})
                    elif ns and r < 0.60:
                        steps.append({"op": "res", "x": opnd(i, ns), "s": rng.randint(1, ns)})
                    elif ns and r < 0.65:
                        steps.append({"op": "rej", "x": {"o": "u", "s": 0}, "s": rng.randint(1, ns)})
                    else:
                        steps.append({"op": "aw" if rng.random() < 0.7 else "awc", "x": opnd(i, ns), "s": 0})
                tasks.append({"kind": "A", "steps": steps, "ret": hspec(i, ns, allow_none=False)})
            else:
                links = []
                for _k in range(rng.randint(1, 4)):
                    r = rng.random()
                    if r < 0.55:
                        links.append({"lk": "then", "f": hspec(i, ns), "r": hspec(i, ns) if rng.random() < 0.4 else {"o": "none", "s": 0}})
                    elif r < 0.78:
                        links.append({"lk": "catch", "f": {"o": "none", "s": 0}, "r": hspec(i, ns, allow_none=False)})
                    else:
                        links.append({"lk": "finally", "f": hspec(i, ns, allow_none=False), "r": {"o": "none", "s": 0}})
                tasks.append({"kind": "C", "base": opnd(i, ns), "links": links})
        late = []
        if ns and rng.random() < 0.5:
            for _k in range(rng.randint(1, 2)):
                if rng.random() < 0.75:
                    late.append({"op": "res", "x": opnd(nt + 1, ns), "s": rng.randint(1, ns)})
                else:
                    late.append({"op": "rej", "x": {"o": "u", "s": 0}, "s": rng.randint(1, ns)})
        out.append({"ns": ns, "tasks": list(tasks), "late": late})
    return out


def tlc_scenarios(module, workers, coverage, env_extra=None, timeout=1700, cfg=None, on_replay=None):
    def on_tagged(tag, obj):
        if tag == "REPLAY":
            on_replay(obj)

    r = vlib.run_tlc(os.path.join(SPEC_DIR, module + ".tla"), cfg or (module + ".cfg"), workers=workers, coverage=coverage,
                     on_tagged=on_tagged, env_extra=env_extra, timeout=timeout)
    vlib.tlc_must_pass(r, "Promises/" + module)
    return r


def validate_job_traces(traces, max_report):
    """Mode (B): `traces` = list of (key, events) recorded by the hook inside SimpleJobExecutor.  All of them
    are concatenated (reset events in between) and validated against spec/async/JobQueue.tla by TLC.
    Returns (states, [key of each rejected trace, with the index of the unmatched event])."""
    rejected = []
    states = 0
    todo = list(traces)
    while todo and len(rejected) < max_report:
        path = os.path.join(vlib.WORK, f"c16-trace-{os.getpid()}.ndjson")
        starts = []
        n = 0
        with open(path, "w") as f:
            for key, evs in todo:
                starts.append(n)
                for k, i in evs:
                    f.write('{"e":"%s","id":%d}\n' % (k, i))
                f.write('{"e":"reset","id":0}\n')
                n += len(evs) + 1
        try:
            r = vlib.run_tlc(os.path.join(SPEC_DIR, "JobQueueTrace.tla"), "JobQueueTrace.cfg", workers=1, dfs=True,
                             env_extra={"TRACE": path}, timeout=1500)
        finally:
            os.unlink(path)
        states += r["distinct"]
        if r["ok"]:
            break
        um = [o for t, o in r["tagged"] if t == "UNMATCHED"]
        if not um:
            vlib.log(r["raw_tail"])
            raise vlib.ToolError("trace validation failed without an UNMATCHED report")
        at = um[0]["at"] - 1          # 0-based index of the first unmatched event
        k = max(j for j, st in enumerate(starts) if st <= at)
        rejected.append((todo[k][0], at - starts[k], todo[k][1]))
        todo = todo[:k] + todo[k + 1:]
    return states, rejected


# What the behaviours emitted by TLC must contain for the run to count (vacuity control on the model side):
# every action of Promises.tla (ScriptStep: any print of script 1; TaskStep: a "go"/"gg" label; RunJob: a ">"
# event; Quiesce: the "done" phase and, for scenarios with a late part, "script2") and every kind of program
# point of the scenario language (label prefixes).
REQUIRED_LABELS = {"go", "aw", "ca", "ok", "err", "f", "r", "n", "o", "gg", "yi", "ys", "gq", "ge"}
REQUIRED_EVENTS = {"p", "+", ">", "k", "P:jobs1", "P:script2", "P:jobs2", "P:done"}
LABEL_KIND = re.compile(r"^([a-z]+)\d")


def coverage_of(model_out, acc):
    for ev in model_out:
        if ev[0] == "p":
            m = LABEL_KIND.match(ev[1])
            acc["L:" + (m.group(1) if m else "?")] = acc.get("L:" + (m.group(1) if m else "?"), 0) + 1
            acc["p"] = acc.get("p", 0) + 1
        elif ev[0] == "P":
            acc["P:" + ev[1]] = acc.get("P:" + ev[1], 0) + 1
        else:
            acc[ev[0]] = acc.get(ev[0], 0) + 1


def check_coverage(acc):
    return sorted([l for l in REQUIRED_LABELS if not acc.get("L:" + l)] + [e for e in REQUIRED_EVENTS if not acc.get(e)])


def jobs_in(exp_steps):
    return sum(1 for st in exp_steps for t in st if t.startswith("jJ>"))


CHUNK = 3000


def run(tier, replay=None):
    ck = vlib.Check("C16", tier, "model_checking", replay)
    rng = random.Random(vlib.seed() * 7919 + 16)
    bindir = vlib.build_harness(["hasync"])
    binary = os.path.join(bindir, "hasync")
    ncpu = os.cpu_count() or 4
    workers = min(8, max(2, ncpu // 2))
    procs = max(2, min(14, ncpu - 2))

    # 1. seeded scenarios beyond the exhaustive bound: INPUTS only, their expectations come from TLC too
    n_rand = 150 if tier == "quick" else 3000
    rnd = generate_random(rng, n_rand)
    rnd_keys = {json.dumps(x, sort_keys=True) for x in rnd}
    path = os.path.join(vlib.WORK, f"c16-scn-{os.getpid()}.ndjson")
    os.makedirs(vlib.WORK, exist_ok=True)
    with open(path, "w") as f:
        for x in rnd:
            f.write(json.dumps(x) + "\n")

    # 2. model gate + scenario enumeration (one TLC run: exhaustive universes + the sampled scenarios);
    #    every emitted behaviour is reduced at once to (scenario, expected observation per harness step)
    module = "MCPromisesQuick" if tier == "quick" else "MCPromisesThorough"
    exp = []            # (scn, exp_steps)
    nontrivial = [0]

    cover = {}

    def on_replay(rec):
        scn = rec["scn"]
        coverage_of(rec["out"], cover)
        exp.append((scn, expected_streams(rec["out"], 2 if scn["late"] else 1)))
        if interleaves(rec["out"]):
            nontrivial[0] += 1

    try:
        r = tlc_scenarios(module, workers, coverage=False, env_extra={"SCN": path}, on_replay=on_replay)
    finally:
        os.unlink(path)
    vlib.log(f"[tlc] {module}: {r['distinct']} states, {len(exp)} scenarios in {r['wall']:.0f}s")
    states, trans = r["distinct"], r["states"]
    ck.cov["checker_cmd"] = r["cmd"]
    if r["states"] != r["distinct"]:
        raise vlib.ToolError(f"the model is not deterministic: {r['states']} states generated, {r['distinct']} distinct")
    missing = check_coverage(cover)
    if missing:
        raise vlib.ToolError(f"model coverage: never observed in any emitted behaviour: {missing}")
    ck.cov["model_coverage"] = {k: cover[k] for k in sorted(cover)}
    exp.sort(key=lambda e: json.dumps(e[0], sort_keys=True))
    n_sampled = sum(1 for scn, _ in exp if json.dumps(scn, sort_keys=True) in rnd_keys)
    n_exh = len(exp) - n_sampled
    if n_sampled < n_rand * 0.9:
        raise vlib.ToolError(f"only {n_sampled} of {n_rand} sampled scenarios came back from TLC")
    modes = [modes_for(rng, tier, idx) for idx in range(len(exp))]

    def item(idx):
        return {"id": idx, "src": render(exp[idx][0]), "modes": modes[idx], "reuse": True}

    # 3. + 4. render, run under every schedule, compare (in chunks: results are large)
    evals = 0
    yields = 0
    jobs_total = sum(jobs_in(es) for _, es in exp)
    failures = []       # (size, idx, mode, mismatches)
    drifts = []         # (idx, mode, mismatches)
    kept = {}           # idx -> full result of scenarios that disagree somewhere (for classification)
    traces = []         # ((idx, label), events) recorded inside SimpleJobExecutor by the hook
    have_hook = False
    t1 = time.time()
    for lo in range(0, len(exp), CHUNK):
        idxs = range(lo, min(lo + CHUNK, len(exp)))
        res = run_parallel(binary, [item(i) for i in idxs], procs)
        for idx in idxs:
            scn, exp_steps = exp[idx]
            got = res.get(idx)
            if got is None:
                raise vlib.ToolError(f"no result for scenario {idx}")
            if "res" not in got:
                failures.append((scn_size(scn), idx, {"m": "process"}, [("panic", 0, None, got.get("panic") or got.get("abort"))]))
                continue
            have_hook = have_hook or bool(got.get("hook"))
            flat = flatten_modes(modes[idx], got["res"])
            asy = [k for k, (m, g) in enumerate(flat) if m["m"] == "async"]
            pick = set(asy[:1] + asy[-1:] + ([asy[idx % len(asy)]] if asy else []))
            disagrees = False
            for k, (mode, g) in enumerate(flat):
                evals += 1
                bad = compare(exp_steps, mode, g)
                if mode["m"] == "async" and "steps" in g:
                    yields += sum(max(0, s.get("polls", 1) - 1) for s in g["steps"][0::2])
                if g.get("jobs") is not None and (mode["m"] != "async" or k in pick):
                    traces.append(((idx, k), g["jobs"]))
                hard = [b for b in bad if b[0] != "j"]
                if hard:
                    failures.append((scn_size(scn), idx, mode, hard))
                elif bad:
                    drifts.append((idx, mode, bad))
                disagrees = disagrees or bool(bad)
            if disagrees:
                kept[idx] = got
        del res
    vlib.log(f"[replay] {len(exp)} scenarios, {evals} executions in {time.time() - t1:.0f}s")
    for idx in (0, len(exp) // 2, len(exp) - 1):
        scn, exp_steps = exp[idx]
        ck.sample({"scenario": scn, "script": render(scn), "expected_prints": [proj(s, "p") for s in exp_steps]}, cap=3)

    # 4a. mode (B): events recorded inside SimpleJobExecutor (cfg(boa_verif) hook, if the tree has it)
    #     validated against JobQueue.tla: FIFO, each job once, queue empty when run_jobs returns
    hook_states = 0
    if have_hook:
        t2 = time.time()
        hook_states, rejected = validate_job_traces(traces, MAX_REPORTED)
        vlib.log(f"[trace] {len(traces)} SimpleJobExecutor traces validated against JobQueue.tla in {time.time() - t2:.0f}s, "
                 f"{len(rejected)} rejected")
        for (idx, k), at, evs in rejected:
            scn, exp_steps = exp[idx]
            mode = flatten_modes(modes[idx], kept[idx]["res"])[k][0] if idx in kept else {"m": "sync"}
            failures.append((scn_size(scn), idx, mode, [("q", at, "a behaviour of JobQueue.tla", evs)]))
    else:
        vlib.log("[trace] the engine has no promise job event hook (work/proposals/C16-hook): SimpleJobExecutor is "
                 "checked through print traces only")
    ck.cov["job_hook_present"] = have_hook
    hook_traces = len(traces) if have_hook else 0
    del traces

    # 4b. classify disagreements against the named deviations of the model (open known findings): a
    #     scenario is explained iff EVERY schedule's observation equals, in every projection, what the
    #     model prescribes with the deviation switched on (expectations again from TLC)
    explained = set()
    suspects = sorted({f[1] for f in failures} | {d[0] for d in drifts})
    cand = [idx for idx in suspects if uses_yield_star(exp[idx][0]) and idx in kept]
    if cand:
        qpath = os.path.join(vlib.WORK, f"c16-quirk-{os.getpid()}.ndjson")
        with open(qpath, "w") as f:
            for idx in cand:
                f.write(json.dumps(exp[idx][0]) + "\n")
        qexp = {}

        def on_q(rec):
            scn = rec["scn"]
            qexp[json.dumps(scn, sort_keys=True)] = expected_streams(rec["out"], 2 if scn["late"] else 1)

        try:
            tlc_scenarios("MCPromisesFile", workers, coverage=False, env_extra={"SCN": qpath},
                          cfg="MCPromisesFileQuirk.cfg", on_replay=on_q)
        finally:
            os.unlink(qpath)
        for idx in cand:
            q_steps = qexp.get(json.dumps(exp[idx][0], sort_keys=True))
            if q_steps is None:
                continue
            flat = flatten_modes(modes[idx], kept[idx]["res"])
            if all(not compare(q_steps, mode, g) for mode, g in flat):
                explained.add(idx)
        vlib.log(f"[classify] {len(explained)} of {len(cand)} disagreeing yield* scenarios match the model with "
                 f"deviation ysReturnAwait exactly")
    for idx in sorted(explained):
        ck.failure(KNOWN_YS_RETURN, {"scenario": exp[idx][0], "script": render(exp[idx][0])})
    failures = [f for f in failures if f[1] not in explained]
    drifts = [d for d in drifts if d[0] not in explained]

    # 5. report (smallest scenarios first; each failure re-run once for reproducibility)
    failures.sort(key=lambda f: (f[0], f[1]))
    reported = 0
    seen_sig = set()
    for size, idx, mode, bad in failures:
        if reported >= MAX_REPORTED:
            break
        scn, exp_steps = exp[idx]
        if mode["m"] == "process":
            bad2 = bad
        else:
            # same schedule sequence on a fresh process (the sync/async modes of a scenario share one context)
            again = vlib.run_lines(binary, [item(idx)]).get(idx, {})
            flat2 = flatten_modes(modes[idx], again["res"]) if "res" in again else []
            g2 = next((g for m, g in flat2 if m["m"] == mode["m"] and m.get("budget") == mode.get("budget")), again)
            bad2 = [b for b in compare(exp_steps, mode, g2) if b[0] != "j"]
            if bad[0][0] == "q" and isinstance(g2, dict) and g2.get("jobs") is not None:
                _st, rej = validate_job_traces([((idx, 0), g2["jobs"])], 1)
                bad2 = [("q", rej[0][1], "a behaviour of JobQueue.tla", rej[0][2])] if rej else bad2
        if not bad2:
            raise vlib.ToolError(f"non-reproducible disagreement on scenario {idx} mode {mode}")
        kind = bad2[0][0]
        sig = {"scn": scn, "mode": mode["m"], "what": kind}
        key = json.dumps(sig, sort_keys=True)
        if key in seen_sig:
            continue
        seen_sig.add(key)
        detail = {"scenario": scn, "script": render(scn), "mode": mode, "projection": kind, "step": bad2[0][1],
                  "expected": bad2[0][2], "actual": bad2[0][3], "failing_scenarios_total": len({f[1] for f in failures})}
        if ck.failure(sig, detail):
            reported += 1
    if failures and reported == 0:
        raise vlib.ToolError("failures found but none reported")
    for idx, mode, bad in drifts[:3]:
        vlib.log(f"MODEL-DRIFT: job enqueue/run events differ from the model although prints agree: scenario {idx} "
                 f"{json.dumps(exp[idx][0])[:300]} mode {mode} expected {bad[0][2]} actual {bad[0][3]}")
    ck.drift += len(drifts)

    ck.cov.update(states=states + hook_states, transitions=trans + hook_states,
                  traces_validated_against_impl=evals, executor_traces_validated_against_jobqueue=hook_traces,
                  scenarios=len(exp), scenarios_exhaustive=n_exh, scenarios_sampled=n_sampled, evaluations=evals,
                  distinct_nontrivial=nontrivial[0], jobs_in_model=jobs_total, async_yields_observed=yields,
                  failing_scenarios=len({f[1] for f in failures}), explained_by_known_deviation=len(explained),
                  budgets=budgets(),
                  rule="one replay per (scenario, schedule); a scenario is non-trivial when jobs of at least two "
                       "different tasks interleave in the model's order (owner of a job = task of the first label "
                       "it prints; pattern a..b..a)")
    floor = 1500 if tier == "quick" else 15000
    if nontrivial[0] < floor:
        raise vlib.ToolError(f"vacuity guard: only {nontrivial[0]} non-trivial scenarios (< {floor})")
    if yields < len(exp):
        raise vlib.ToolError(f"vacuity guard: budgeted evaluation almost never yielded ({yields} yields)")
    if jobs_total < 5 * len(exp):
        raise vlib.ToolError("vacuity guard: scenarios enqueue almost no jobs")
    ck.assumptions += [
        "expected orders come from Promises.tla, a transcription of ECMA-262 27.2 / 27.6.3 / 27.7 for the scenario language",
        "job enqueue/run events (harness FIFO executor, SimpleJobExecutor hook) are compared with the model's as MODEL-DRIFT only",
        "seeded scenarios beyond the exhaustive universes are inputs only; their expectations are computed by TLC",
        "a budget sweep stops after the first budget under which no evaluation yielded (larger budgets give the same execution); 2^20 always runs",
    ]
    return ck.finish()
