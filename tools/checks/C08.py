"""C08 - Runtime limits stop runaway scripts and cannot be intercepted.

Model: spec/vm/Limits.tla (abstract scenario machine: activations, entry routes, loops, try wrappers,
loop-head counter window, recursion-depth window, nondeterministic stack-size limit, jobs).
Binding (A): TLC (spec/vm/MCLimits*.cfg) enumerates scenarios x limit triples and emits every outcome the
model allows (print trace and completion of each host step, with the outcome that follows boa's exact
counting marked); this driver renders each scenario to JavaScript for hjs, runs it under the limits and
requires the observed (trace, completion) of every step to be one of the allowed outcomes.  A mismatch
with the exact outcome that is still allowed is MODEL-DRIFT, not a violation."""
import json
import os
import sys
import time

import vlib

SPECDIR = os.path.join(vlib.SPEC, "vm")
MC = os.path.join(SPECDIR, "MCLimits.tla")

# ------------------------------------------------------------------------------------------------
# Renderer: scenario record (as emitted by TLC) -> JavaScript
# ------------------------------------------------------------------------------------------------

ASYNC_ROUTES = {"asyncsync", "asynccont", "asyncgen"}
GEN_ROUTES = {"genresume", "genspread"}
EVAL_ROUTES = {"evaldirect", "evalindirect", "newfunction"}

# value returned by the activation (what the route needs to go on without an ordinary error)
RET = {
    "tostring": 'return "s";', "valueof": "return 1;", "toprimitive": "return 1;", "tojson": "return 1;",
    "replacecb": 'return "y";', "sort": "return 0;", "hasinstance": "return true;",
    "iterfactory": "return [][Symbol.iterator]();",
}


def itr(k):
    """iterable: one element, then done; its return() prints aK:ret"""
    return ("{[Symbol.iterator]: function(){ var c = 0; return {next: function(){ return c++ ? {done: true} : {done: false, value: 1}; }, "
            "return: function(){ print(\"a%d:ret\"); return {}; }}; }}" % k)


def itc(k):
    """iterable: never done; its return() is activation k"""
    return "{[Symbol.iterator]: function(){ return {next: function(){ return {done: false, value: 1}; }, return: a%d}; }}" % k


def js_str(s):
    return json.dumps(s)


def pr(tag):
    return "print(%s);" % js_str(tag)


def call_expr(route, k, site_in_async):
    """JS statement(s) in the parent that enter activation k through `route`."""
    f = "a%d" % k
    t = {
        "call": f"{f}();",
        "new": f"new {f}();",
        "getter": f'Object.defineProperty({{}}, "x", {{get: {f}}}).x;',
        "setter": f'Object.defineProperty({{}}, "x", {{set: {f}}}).x = 1;',
        "proxyget": f"new Proxy({{}}, {{get: {f}}}).x;",
        "proxyhas": f'"x" in new Proxy({{}}, {{has: {f}}});',
        "proxyapply": f"new Proxy(function(){{}}, {{apply: {f}}})();",
        "proxyconstruct": f"new (new Proxy(function(){{}}, {{construct: {f}}}))();",
        "iterforof": f"for (var _v{k} of {{[Symbol.iterator]: function(){{ return {{next: {f}}}; }}}}) {{}}",
        "iterspread": f"[...{{[Symbol.iterator]: function(){{ return {{next: {f}}}; }}}}];",
        "iterdestr": f"var [_d{k}] = {{[Symbol.iterator]: function(){{ return {{next: {f}}}; }}}};",
        "iterfactory": f"[...{{[Symbol.iterator]: {f}}}];",
        "iterreturn": (f"for (var _v{k} of {{[Symbol.iterator]: function(){{ return {{next: function(){{ return {{done: false, value: 1}}; }}, "
                       f"return: {f}}}; }}}}) {{ break; }}"),
        "destrclose": (f"var [_d{k}] = {{[Symbol.iterator]: function(){{ return {{next: function(){{ return {{done: false, value: 1}}; }}, "
                       f"return: {f}}}; }}}};"),
        "fromcb": f"Array.from({itr(k)}, {f});",
        "iterevery": f"Iterator.from({itr(k)}[Symbol.iterator]()).every({f});",
        "closethrow": f"Array.from({itc(k)}, function(){{ throw 7; }});",
        "forofclosethrow": f"for (var _v{k} of {itc(k)}) {{ throw 7; }}",
        "map": f"[1].map({f});",
        "foreach": f"[1].forEach({f});",
        "sort": f"[2, 1].sort({f});",
        "reduce": f"[1].reduce({f}, 0);",
        "replacecb": f'"x".replace("x", {f});',
        "tostring": f"String({{toString: {f}}});",
        "valueof": f"+{{valueOf: {f}}};",
        "toprimitive": f"`${{{{[Symbol.toPrimitive]: {f}}}}}`;",
        "tojson": f"JSON.stringify({{toJSON: {f}}});",
        "hasinstance": f"({{}}) instanceof {{[Symbol.hasInstance]: {f}}};",
        "tagged": f"{f}`x`;",
        "evaldirect": f"eval(src{k});",
        "evalindirect": f"(0, eval)(src{k});",
        "newfunction": f"new Function(src{k})();",
        "fcall": f"{f}.call(null);",
        "fapply": f"{f}.apply(null, []);",
        "fbind": f"{f}.bind(null)();",
        "rapply": f"Reflect.apply({f}, null, []);",
        "rconstruct": f"Reflect.construct({f}, []);",
        "superctor": f"new (class extends {f} {{ constructor(){{ super(); }} }})();",
        "classfield": f"new (class {{ x = {f}(); }})();",
        "thenjob": f"Promise.resolve().then({f});",
        "catchjob": f"Promise.reject(0).catch({f});",
        "thenable": f"Promise.resolve({{then: {f}}});",
        "asyncsync": f"{f}();",
        "asynccont": f"{f}();",
        "asyncgen": f"{f}().next();",
        "genresume": f"{f}().next();",
        "genspread": f"[...{f}()];",
    }
    return t[route]


def wrap_try(inner, kind, prefix):
    """kind: n | c | f | cf"""
    if kind == "n":
        return inner
    s = "try { " + inner + " }"
    if "c" in kind:
        s += " catch (e) { " + pr(prefix + "catch") + " }"
    if "f" in kind:
        s += " finally { " + pr(prefix + "fin") + " }"
    return s


def loop_stmt(form, n, k, lb, in_gen):
    i = "i%d" % k
    lab = "lb%d" % k
    if form == "while":
        return f"var {i} = 0; while ({i} < {n}) {{ {i}++; {lb} }}"
    if form == "dowhile":
        return f"var {i} = 0; do {{ {i}++; {lb} }} while ({i} < {n});"
    if form == "for":
        return f"for (var {i} = 0; {i} < {n}; {i}++) {{ {lb} }}"
    if form == "forlet":
        return f"for (let {i} = 0; {i} < {n}; {i}++) {{ (function(){{ return {i}; }}); {lb} }}"
    if form == "forin":
        keys = ", ".join("k%d: 1" % j for j in range(n))
        return f"for (var {i} in {{{keys}}}) {{ {lb} }}"
    if form == "forof":
        els = ", ".join(str(j) for j in range(n))
        return f"for (var {i} of [{els}]) {{ {lb} }}"
    if form == "forawait":
        els = ", ".join(str(j) for j in range(n))
        return f"for await (var {i} of [{els}]) {{ {lb} }}"
    if form == "lwhile":
        return f"var {i} = 0; {lab}: while ({i} < {n}) {{ {i}++; {lb} continue {lab}; }}"
    if form == "ldo":
        return f"var {i} = 0; {lab}: do {{ {i}++; {lb} continue {lab}; }} while ({i} < {n});"
    if form == "lfor":
        return f"{lab}: for (var {i} = 0; {i} < {n}; {i}++) {{ {lb} continue {lab}; }}"
    if form == "lnest":
        return f"{lab}: for (var {i} = 0; {i} < {n}; {i}++) {{ {lb} for (;;) {{ continue {lab}; }} }}"
    if form == "nest2":
        return f"for (var {i} = 0; {i} < {n}; {i}++) {{ {lb} for (var q{k} = 0; q{k} < 2; q{k}++) {{}} }}"
    if form == "wyield":
        assert in_gen
        return f"var {i} = 0; while ({i} < {n}) {{ {i}++; {lb} yield {i}; }}"
    raise vlib.ToolError("unknown loop form " + form)


def act_code(sc, k):
    """statements of activation k (1-based)"""
    acts = sc["acts"]
    a = acts[k - 1]
    name = "a%d" % k
    kids = [j + 1 for j, c in enumerate(acts) if c["par"] == k]
    is_async = a["route"] in ASYNC_ROUTES

    def calls(site):
        out = []
        for c in kids:
            ca = acts[c - 1]
            if ca["site"] != site:
                continue
            out.append(wrap_try(call_expr(ca["route"], c, is_async), ca["wrap"], "%s:c%d:" % (name, c)))
        return " ".join(out)

    parts = [pr(name + ":enter")]
    if a["route"] == "asynccont":
        parts.append("await 0;")
    if a["form"] != "none":
        lb = pr(name + ":b") + " "
        inner = calls("b")
        bw = a["bwrap"]
        if bw != "n":
            lb += wrap_try(inner, bw, name + ":b") + " "
        else:
            lb += inner + " "
        loop = loop_stmt(a["form"], a["n"], k, lb, a["route"] in GEN_ROUTES or a["route"] == "asyncgen")
        lw = a["lwrap"]
        if lw == "infin":
            parts.append("try { " + pr(name + ":t") + " } finally { " + loop + " }")
        elif lw == "incatch":
            parts.append("try { " + pr(name + ":t") + " throw 0; } catch (e) { " + loop + " }")
        else:
            parts.append(wrap_try(loop, lw, name + ":l"))
    post = calls("p")
    if post:
        parts.append(post)
    parts.append(pr(name + ":after"))
    if a["end"] == "throw":
        parts.append("throw 7;")
    elif k == 1:
        parts.append("7;")
    elif a["route"] not in EVAL_ROUTES or a["route"] == "newfunction":
        parts.append(RET.get(a["route"], "return {done: true};"))
    return " ".join(parts)


def render(sc):
    """-> list of hjs steps"""
    acts = sc["acts"]
    decls = []
    for k in range(len(acts), 1, -1):
        a = acts[k - 1]
        code = act_code(sc, k)
        r = a["route"]
        if r in EVAL_ROUTES:
            decls.append("var src%d = %s;" % (k, js_str(code)))
        elif r in ("asyncsync", "asynccont"):
            decls.append("async function a%d() { %s }" % (k, code))
        elif r == "asyncgen":
            decls.append("async function* a%d() { %s }" % (k, code))
        elif r in GEN_ROUTES:
            decls.append("function* a%d() { %s }" % (k, code))
        else:
            decls.append("function a%d() { %s }" % (k, code))
    decls.append('function epi() { print("end"); return 9; }')
    src = "\n".join(decls + [act_code(sc, 1)])
    return [{"kind": "eval", "src": src}, {"kind": "jobs"}, {"kind": "call", "fn": "epi", "args": []}]


def hjs_cfg(sc):
    cfg = {}
    if sc["L"] >= 0:
        cfg["loop"] = sc["L"]
    if sc["R"] >= 0:
        cfg["rec"] = sc["R"]
    if sc["S"] >= 0:
        cfg["stack"] = sc["S"]
    return cfg


EVK = {1: "enter", 2: "t", 3: "b", 4: "bcatch", 5: "bfin", 6: "lcatch", 7: "lfin", 8: "after", 9: "catch", 10: "fin", 11: "ret", 12: "end"}


def fmt_event(code):
    """model event code (kind*100 + act*10 + child) -> print line as hjs renders it"""
    kind, a, c = code // 100, (code // 10) % 10, code % 10
    if kind == 12:
        return "s:end"
    if kind in (9, 10):
        return "s:a%d:c%d:%s" % (a, c, EVK[kind])
    return "s:a%d:%s" % (a, EVK[kind])


# ------------------------------------------------------------------------------------------------
# Driver
# ------------------------------------------------------------------------------------------------

FAMILIES = {
    "quick": ["all"],
    "thorough": ["route", "loop", "routeloop", "chain3", "tree3", "stack"],
}
SPECIAL = {"script", "asyncsync", "asynccont", "asyncgen", "thenjob", "catchjob", "thenable", "fromcb", "iterevery",
           "closethrow", "forofclosethrow", "genresume", "genspread"}
TRY_KINDS = ("catch", "fin", "bcatch", "bfin", "lcatch", "lfin")


def _run_chunk(args):
    return vlib.run_lines(args[0], args[1])


def run_parallel(hjs, jobs, nproc=3):
    """vlib.run_lines over nproc processes (scenarios are independent: one fresh context each)"""
    if len(jobs) < 200:
        return vlib.run_lines(hjs, jobs)
    import concurrent.futures
    chunks = [jobs[i::nproc] for i in range(nproc)]
    out = {}
    with concurrent.futures.ProcessPoolExecutor(max_workers=nproc) as ex:
        for r in ex.map(_run_chunk, [(hjs, c) for c in chunks]):
            out.update(r)
    return out


def sc_key(sc):
    return json.dumps(sc, sort_keys=True, separators=(",", ":"))


def model_outcomes(tier, fam, ck, workers=3):
    """runs TLC on one family; returns {sc_key: {"sc": sc, "outs": [outcome...]}} and TLC stats"""
    cfg = "MCLimits_%s_%s.cfg" % (fam, tier)
    for attempt in (workers, 1):
        r = vlib.run_tlc(MC, cfg, workers=attempt, timeout=1500, coverage=False)
        vlib.tlc_must_pass(r, "Limits/" + cfg)
        groups = {}
        for tag, o in r["tagged"]:
            if tag != "OUT":
                continue
            k = sc_key(o["sc"])
            g = groups.setdefault(k, {"sc": o["sc"], "outs": []})
            g["outs"].append(o)
        ninit = None
        for line in r["raw_tail"].splitlines():
            if "Finished computing initial states:" in line:
                ninit = int(line.split("states:")[1].split("distinct")[0].strip().replace(",", ""))
        bad = [g for g in groups.values()
               if g["sc"]["S"] < 0 and sum(1 for o in g["outs"] if o["exact"]) != 1]
        if (ninit is None or ninit == len(groups)) and not bad:
            return groups, r
        vlib.log(f"[C08] {cfg}: emitted outcomes inconsistent (init={ninit}, scenarios={len(groups)}, "
                 f"without unique exact outcome={len(bad)}) with {attempt} workers; retrying single-threaded")
    raise vlib.ToolError(f"TLC output for {cfg} is inconsistent: init states {ninit}, scenarios {len(groups)}, bad {len(bad)}")


def outcome_tuple(o):
    return tuple((tuple(fmt_event(e) for e in o["out"][s]), o["comp"][s]) for s in range(3))


def observed_tuple(res):
    return tuple((tuple(st["out"]), st["c"]) for st in res["steps"][:3])


def collapse(chain):
    out = []
    for r in chain:
        x = r if r in SPECIAL else "*"
        if x == "*" and out and out[-1] == "*":
            continue
        out.append(x)
    return ">".join(out) if out else "-"


def tagkind(line):
    return line.split(":")[-1]


ASYNC_FN = ("asyncsync", "asynccont")
NATIVE_CLOSERS = ("fromcb", "iterevery")


def via_of(f0, cls, raw):
    """the place that has to pass the limit on to the host and, judging by the symptom, did not: an async generator
    resume (process abort), the promise-capability creation of an async function (engine panic), a native iterator
    close (return() printed / catch entered), the await continuation that owns the chain, else the plain owner"""
    if f0 is None:
        return "-"
    ch = f0["chain"]
    top_down = list(reversed(ch))
    cont = f0["s"] == 2 and f0["cont"]
    if cls == "rust-panic" and "asyncgen" in ch:
        return "asyncgen"
    if cls == "enginepanic":
        for r in top_down:
            if r in ASYNC_FN:
                return r
    if cls == "chain-continues" and raw.startswith("extra:ret"):
        for r in top_down:
            if r in NATIVE_CLOSERS:
                return r
    if cls == "chain-continues" and "closethrow" in ch:
        return "closethrow"
    if cls in ("chain-continues", "not-reported") and cont:
        return "await-continuation"
    if cls == "not-reported" and "closethrow" in ch:
        return "closethrow"
    return owner_of(f0)


def classify(g, ref, res):
    """-> (signature string, raw symptom) for an observation that no allowed outcome matches.
    signature = via (see via_of) + limit kind + symptom class; the raw symptom and the collapsed chain go to the detail."""
    fire = ref["fire"]
    f0 = fire[0] if fire else None
    raw = "?"
    if "steps" not in res or len(res["steps"]) < 3:
        msg = res.get("panic") or res.get("abort") or "?"
        raw = "panic:" + (msg.split("@")[-1].strip() if "@" in msg else msg[:60]).replace("/repo/", "")
        cls = "rust-panic"
    else:
        want = outcome_tuple(ref)
        got = observed_tuple(res)
        cls = "unclassified"
        for s in range(3):
            if want[s] == got[s]:
                continue
            fs = [f for f in fire if f["s"] == s + 1]
            f0 = fs[0] if fs else (fire[-1] if fire else None)
            wo, wc = want[s]
            go, gc = got[s]
            if wo == go:
                raw = "completion:%s,want:%s" % (gc.split(":o:")[0] if gc.startswith("throw") else gc, wc)
                cls = ("enginepanic" if gc.startswith("enginepanic") else
                       "not-reported" if wc.startswith("limit:") and not gc.startswith("limit:") else
                       "wrong-limit-kind" if wc.startswith("limit:") and gc.startswith("limit:") else
                       "spurious-limit" if gc.startswith("limit:") else "wrong-completion")
            elif go[:len(wo)] == wo:
                raw = "extra:%s" % tagkind(go[len(wo)])
                cls = "chain-continues" if wc.startswith("limit:") else "extra-output"
            elif wo[:len(go)] == go:
                raw = "missing:%s" % tagkind(wo[len(go)])
                cls = "enginepanic" if gc.startswith("enginepanic") else "stopped-early" if gc.startswith("limit:") else "missing-output"
            else:
                i = next(j for j in range(min(len(wo), len(go))) if wo[j] != go[j])
                raw = "differs:%s,want:%s" % (tagkind(go[i]), tagkind(wo[i]))
                cls = "different-output"
            break
    sig = "via=%s limit=%s symptom=%s" % (via_of(f0, cls, raw), f0["kind"].split(":")[1] if f0 else "none", cls)
    return sig, "%s chain=%s owner=%s" % (raw, collapse(f0["chain"]) if f0 else "-", owner_of(f0))


def best_ref(outs, res):
    """stack-size scenarios have no exact outcome: take the allowed outcome that shares the longest prefix of prints"""
    if "steps" not in res:
        return max(outs, key=lambda o: (len(o["fire"]) > 0, -len(o["out"][0])))
    got = [x for st in res["steps"][:3] for x in st["out"] + ["|"]]

    def score(o):
        want = [x for s in range(3) for x in [fmt_event(e) for e in o["out"][s]] + ["|"]]
        n = 0
        while n < min(len(want), len(got)) and want[n] == got[n]:
            n += 1
        return (n, len(o["fire"]) > 0)
    return max(outs, key=score)


def owner_of(f0):
    if f0 is None:
        return "-"
    if f0["s"] == 1:
        return "script"
    if f0["s"] == 3:
        return "call"
    return "continuation" if f0["cont"] else "job"


def open_wrappers(acts, f):
    """try/catch/finally constructs of the dead chain that are open at the limit point"""
    ids = f["ids"]
    n = 0
    for x in range(len(ids) - 1):
        par, ch = acts[ids[x] - 1], acts[ids[x + 1] - 1]
        if ch["wrap"] != "n":
            n += 1
        if ch["site"] == "b" and par["bwrap"] != "n":
            n += 1
        if ch["site"] == "b" and par["lwrap"] != "n":
            n += 1
    if ids and f["kind"] == "limit:LoopIteration" and acts[ids[-1] - 1]["lwrap"] != "n" and f["forms"][-1] != "none":
        n += 1                                   # the loop itself sits in a try block / finally block / catch block
    return n


def nontrivial(g):
    """in the exact outcome (any allowed outcome for stack-size scenarios) a limit fires while a try construct is open on
    the dead chain, or the dead chain crosses a native re-entry / job / continuation route"""
    acts = g["sc"]["acts"]
    for o in g["outs"]:
        if not o["exact"] and g["sc"]["S"] < 0:
            continue
        for f in o["fire"]:
            if any(r not in ("script", "call", "new") for r in f["chain"]) or (f["s"] == 2):
                return True
            if open_wrappers(acts, f) > 0:
                return True
    return False


def size_of(sc):
    return (len(sc["acts"]), sum(1 for a in sc["acts"] if a["form"] != "none"), len(sc_key(sc)))


# ---------------------------------------------------------------------------------- clause "under the limits: unaffected"
# A loop whose every iteration abandons an expression by a caught exception does the same work in iteration k as in
# iteration 1, so with a stack-size limit that one iteration respects, N iterations respect it too.  JsCore.tla gives
# the meaning of the 3-iteration instance (TLC evaluates it); the N-iteration instance must print the same totals
# scaled by N/3 and complete normally under a small stack-size limit.
HYG_N = 3000
HYG_STACK = 2000


def hygiene_programs(tier):
    import jscore as J
    I, S, num = J.ident, J.string, J.num
    h = lambda: J.call(I("h"))
    shapes = {
        "arg": lambda: J.call(I("g"), num(5), num(6), h()),
        "method": lambda: J.call(J.member(I("o"), "m"), num(5), h()),
        "new": lambda: J.new(I("G"), num(5), h()),
        "noncallable": lambda: J.call(num(0), num(5), num(6)),
        "nested": lambda: J.call(I("g"), J.call(I("g"), num(5), h())),
        "spread": lambda: J.call(I("g"), num(5), J.spread(h())),
        "binop": lambda: J.binary("+", J.call(I("g")), h()),
        "member-assign": lambda: J.assign(J.member(I("o"), "p"), h()),
        "array": lambda: J.array(num(1), num(2), h()),
    }
    bump = lambda v: J.expr(J.update("++", False, I(v)))
    handlers = {
        "catch": lambda x: [J.try_(J.block(J.expr(x)), "e", J.block(bump("n")))],
        "finally": lambda x: [J.try_(J.block(J.try_(J.block(J.expr(x)), 0, 0, J.block(bump("m")))), "e", J.block(bump("n")))],
        "catch-in-finally": lambda x: [J.expr(J.assign(I("r"), J.call(I("f")), "+="))],
    }
    loops = ["for", "while", "dowhile", "forof"] if tier != "quick" else ["for", "forof"]
    out = []
    for (sn, mk), (hn, mh), lp in [(a, b, c) for a in shapes.items() for b in handlers.items() for c in loops]:
        def build(n, mk=mk, mh=mh, lp=lp, hn=hn):
            body = J.block(*mh(mk()))
            if lp == "for":
                loop = J.for_(J.var("i", num(0)), J.binary("<", I("i"), num(n)), J.update("++", False, I("i")), body)
            elif lp == "while":
                loop = J.while_(J.binary("<", J.update("++", False, I("i")), num(n)), body)
            elif lp == "dowhile":
                loop = J.dowhile(body, J.binary("<", J.update("++", True, I("i")), num(n)))
            else:
                loop = J.forof("const", "q", J.call(I("R"), num(n)), body)
            pre = [J.function("g", [], []), J.function("G", [], []), J.function("h", [], [J.throw(num(1))]),
                   J.let("o", J.obj(J.prop("m", J.fn([], [])))),
                   J.generator("R", J.params("k"), [J.for_(J.var("j", num(0)), J.binary("<", I("j"), I("k")), J.update("++", False, I("j")), J.block(J.expr(J.yield_(I("j")))))]),
                   J.function("f", [], [J.try_(J.block(J.return_(num(1))), 0, 0, J.block(J.try_(J.block(J.expr(mk())), "e", J.block(bump("n")))))]),
                   J.var("i", num(0)), J.let("n", num(0)), J.let("m", num(0)), J.let("r", num(0))]
            return J.program(pre + [loop, J.print_(S("totals"), I("n"), I("m"), I("r"))])
        out.append(("hygiene/%s/%s/%s" % (lp, sn, hn), build))
    return out


def stack_hygiene(ck, hjs, tier):
    import jscore as J
    progs = hygiene_programs(tier)
    small = [b(3) for _, b in progs]
    exp, st = J.expect(small)
    jobs = []
    for k, ((name, b), e) in enumerate(zip(progs, exp)):
        if not e["c"].startswith("value") or len(e["out"]) != 1:
            raise vlib.ToolError("hygiene program %s has no normal expectation in JsCore: %s" % (name, e["c"]))
        for tag, n in (("small", 3), ("large", HYG_N)):
            jobs.append({"id": "%s#%s" % (name, tag), "cfg": {"loop": 10 * HYG_N, "stack": HYG_STACK}, "timeout_ms": 60000,
                         "steps": [{"kind": "eval", "src": J.render(b(n))}]})
    res_all = run_parallel(hjs, jobs)
    n_fail = 0
    for k, ((name, b), e) in enumerate(zip(progs, exp)):
        small_res, large_res = res_all.get(name + "#small"), res_all.get(name + "#large")
        want_small = e["out"]
        want_large = [" ".join(("n:%d" % (int(t[2:]) // 3 * HYG_N) if t.startswith("n:") else t) for t in e["out"][0].split(" "))]
        for tag, res, want in (("small", small_res, want_small), ("large", large_res, want_large)):
            got = (res.get("steps") or [{}])[0] if res else {}
            if got.get("c", "").split(":")[0] != "value" or got.get("out") != want:
                n_fail += 1
                ck.failure("hygiene/%s/%s" % (name.split("/", 1)[1], tag),
                           {"program": name, "iterations": 3 if tag == "small" else HYG_N, "js": J.render(b(3 if tag == "small" else HYG_N)),
                            "cfg": {"stack": HYG_STACK}, "expected": {"c": "value", "out": want}, "observed": res})
                break
    vlib.log("[C08] hygiene clause: %d programs x {3, %d} iterations, %d failing; TLC %d states" % (len(progs), HYG_N, n_fail, st.get("states", 0)))
    return len(progs), st.get("states", 0)


def run(tier, replay=None):
    ck = vlib.Check("C08", tier, "model_checking", replay)
    if os.environ.get("C08_NOBUILD"):                # development only
        bindir = os.path.join(vlib.HARNESS, "target", "debug")
    else:
        bindir = vlib.build_harness(["hlim"])
    hjs = os.path.join(bindir, "hlim")      # hjs with batched worker threads (same protocol)
    corrupt = os.environ.get("C08_CORRUPT")          # binding demonstration: corrupt one expectation
    states = trans = 0
    n_sc = n_out = n_nontriv = n_fired = n_unlimited = n_async = 0
    fails = {}                                        # signature -> (size, detail)
    drift = {}
    routes_seen, forms_seen, kinds_seen = set(), set(), set()
    events_seen, owners_seen = set(), set()
    fams = FAMILIES[tier]
    if os.environ.get("C08_FAMILIES"):               # development only: restrict the families (vacuity floors then fail)
        fams = os.environ["C08_FAMILIES"].split(",")
    for fam in fams:
        t0 = time.time()
        groups, r = model_outcomes(tier, fam, ck)
        states += r["distinct"]
        trans += r["states"]
        ck.cov.setdefault("checker_cmd", r["cmd"])
        keys = sorted(groups)
        if corrupt and fam == corrupt.split(":")[0]:
            # drop the first event after which a limit fires from one scenario's allowed outcomes
            for k in keys:
                g = groups[k]
                if any(o["fire"] for o in g["outs"]) and all(len(o["out"][0]) > 1 for o in g["outs"]):
                    for o in g["outs"]:
                        o["out"][0] = o["out"][0][:-1]
                    vlib.log("[C08] C08_CORRUPT: removed the last expected print of step 1 in one scenario of family " + fam)
                    break
        jobs = []
        for i, k in enumerate(keys):
            sc = groups[k]["sc"]
            steps = render(sc)
            if i % 5 == 4:       # engine-configuration dimension: the same script through Script::evaluate_async_with_budget
                steps[0]["via"] = "async"
                steps[0]["budget"] = 7
                n_async += 1
            jobs.append({"id": "%s/%d" % (fam, i), "cfg": hjs_cfg(sc), "steps": steps})
        results = run_parallel(hjs, jobs)
        suspects = []
        for i, k in enumerate(keys):
            res = results.get("%s/%d" % (fam, i))
            if res is None or "steps" not in res or len(res["steps"]) < 3 or \
                    observed_tuple(res) not in {outcome_tuple(o) for o in groups[k]["outs"]}:
                suspects.append(jobs[i])
        again_all = vlib.run_lines(hjs, suspects) if suspects else {}
        for i, k in enumerate(keys):
            g = groups[k]
            sc = g["sc"]
            res = results.get("%s/%d" % (fam, i))
            if res is None:
                raise vlib.ToolError("missing hjs result")
            n_sc += 1
            n_out += len(g["outs"])
            allowed = {outcome_tuple(o) for o in g["outs"]}
            exact = [o for o in g["outs"] if o["exact"]]
            for a in sc["acts"]:
                routes_seen.add(a["route"])
                forms_seen.add(a["form"])
            if any(o["fire"] for o in g["outs"]):
                n_fired += 1
                for o in g["outs"]:
                    for f in o["fire"]:
                        kinds_seen.add(f["kind"])
                        owners_seen.add(owner_of(f))
            else:
                n_unlimited += 1
            if nontrivial(g):
                n_nontriv += 1
            if i in (0, len(keys) // 2) and exact:
                ck.sample({"family": fam, "limits": [sc["L"], sc["R"], sc["S"]], "js": jobs[i]["steps"][0]["src"],
                           "expected": [list(x) for x in outcome_tuple(exact[0])]}, cap=6)
            ok = "steps" in res and len(res["steps"]) >= 3 and observed_tuple(res) in allowed
            if ok:
                for st in res["steps"][:3]:
                    for line in st["out"]:
                        events_seen.add(tagkind(line))
                if sc["S"] < 0 and exact and observed_tuple(res) != outcome_tuple(exact[0]):
                    d = "family=%s routes=%s forms=%s L=%s R=%s" % (fam, [a["route"] for a in sc["acts"]],
                                                                     [a["form"] for a in sc["acts"]], sc["L"], sc["R"])
                    drift.setdefault(d, (outcome_tuple(exact[0]), observed_tuple(res)))
                continue
            # not allowed: reproduce on a fresh process, then classify
            again = again_all.get(jobs[i]["id"])
            if ("steps" in res) != ("steps" in again) or ("steps" in res and observed_tuple(res) != observed_tuple(again)):
                raise vlib.ToolError("non-reproducible result for " + jobs[i]["id"])
            if exact and sc["S"] < 0:
                ref = exact[0]
            else:
                ref = best_ref(g["outs"], res)
            sig, sym = classify(g, ref, res)
            detail = {"family": fam, "symptom": sym, "scenario": sc, "js": jobs[i]["steps"][0]["src"], "cfg": jobs[i]["cfg"],
                      "allowed": [[list(x[0]) + [x[1]] for x in t] for t in sorted(allowed)],
                      "observed": res.get("steps") or res, "model_fire": ref["fire"]}
            cur = fails.get(sig)
            if cur is None or size_of(sc) < cur[0]:
                fails[sig] = (size_of(sc), detail, (cur[2] + 1) if cur else 1)
            else:
                fails[sig] = (cur[0], cur[1], cur[2] + 1)
        vlib.log(f"[C08] family {fam}: {len(keys)} scenarios, {sum(len(groups[k]['outs']) for k in keys)} allowed outcomes, "
                 f"TLC {r['distinct']} states in {r['wall']:.0f}s, total {time.time() - t0:.0f}s")
    for sig in sorted(fails):
        size, detail, count = fails[sig]
        detail["scenarios_with_this_signature"] = count
        ck.failure(sig, detail)
    n_hyg = 0
    if not os.environ.get("C08_FAMILIES"):
        n_hyg, hyg_states = stack_hygiene(ck, hjs, tier)
        states += hyg_states
    for d, (want, got) in sorted(drift.items())[:20]:
        ck.drift += 1
        vlib.log(f"MODEL-DRIFT: {d}: boa's exact boundary differs from the model's exact path (still inside the window)")
    ck.drift = len(drift)
    ck.cov.update(states=states, transitions=trans, traces_validated_against_impl=n_sc, evaluations=n_sc * 3,
                  distinct_nontrivial=n_nontriv, scenarios_with_limit_hit=n_fired, scenarios_under_all_limits=n_unlimited,
                  allowed_outcomes=n_out, routes=len(routes_seen), loop_forms=len(forms_seen - {"none"}),
                  limit_kinds=sorted(kinds_seen), chain_owners=sorted(owners_seen), print_kinds_observed=len(events_seen),
                  scenarios_via_evaluate_async=n_async, hygiene_programs=n_hyg, hygiene_iterations=HYG_N, hygiene_stack_limit=HYG_STACK, failing_signatures=len(fails), known_signatures_hit=sorted(set(fails) & {k.get("signature") for k in ck.known}),
                  rule="one replay per TLC-enumerated scenario x limit triple (three host steps each: eval, run_jobs, call); "
                       "non-trivial = in the model's exact outcome a limit fires while a try/catch/finally wrapper is open on the "
                       "dead chain or the chain crosses a native re-entry / job / continuation route")
    floor = 800 if tier == "quick" else 10000
    if n_nontriv < floor:
        raise vlib.ToolError(f"vacuity guard: only {n_nontriv} non-trivial scenarios (< {floor})")
    if not os.environ.get("C08_FAMILIES"):
        want_events = set(EVK.values())
        if events_seen != want_events:
            raise vlib.ToolError(f"vacuity guard: print kinds never observed in a conforming run: {sorted(want_events - events_seen)}")
        if owners_seen != {"script", "job", "continuation", "call"}:
            raise vlib.ToolError(f"vacuity guard: limit never fired in a chain owned by {sorted({'script', 'job', 'continuation', 'epilogue'} - owners_seen)}")
        if len(kinds_seen) != 3:
            raise vlib.ToolError("vacuity guard: not all three limit kinds fired in the model")
    if n_unlimited < 50:
        raise vlib.ToolError("vacuity guard: too few scenarios that stay under all limits")
    ck.assumptions += ["exact iteration boundary and recursion boundary are compared as membership in the model's window "
                       "(differences from boa's own counting inside the window are MODEL-DRIFT)",
                       "stack-size limit: membership only (any call point may or may not hit it)",
                       "print is a native function: an activation at depth d needs R > d to print at all"]
    return ck.finish()
