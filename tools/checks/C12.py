"""C12 - Value tagging is lossless, unambiguous and configuration-independent.
Model: spec/text/NanBox.tla (one-cell store/load state machine transcribing value/inner/nan_boxed.rs `bits`).
Binding (A): TLC enumerates the structured word set, checks the invariants on the model and emits each word with
its expected read-back class; hval feeds every word (and int32 values, heap values) to JsValue in the default
build and in the `jsvalue-enum` build; hjs runs scripts that manufacture the same bit patterns through DataView /
typed arrays and pass them through every storage site; both builds must match the model and each other."""
import json, os, random, subprocess, time
import vlib

SPEC = os.path.join(vlib.SPEC, "text", "MCNanBox.tla")

JS_PRELUDE = r"""
var LE = new Uint8Array(new Uint16Array([1]).buffer)[0] === 1;
var ab = new ArrayBuffer(8), dv = new DataView(ab), f64 = new Float64Array(ab);
var ab2 = new ArrayBuffer(8), dv2 = new DataView(ab2), g64 = new Float64Array(ab2);
var holder = {p: 0}, arr = [0], m = new Map();
function id(a) { return a; }
function mk(a) { return function () { return a; }; }
function back(y, how) {
  if (how === 0) { dv2.setFloat64(0, y, LE); } else { g64[0] = y; }
  return [dv2.getUint32(LE ? 4 : 0, LE), dv2.getUint32(LE ? 0 : 4, LE)];
}
function probe(hi, lo) {
  dv.setUint32(LE ? 4 : 0, hi, LE); dv.setUint32(LE ? 0 : 4, lo, LE);
  var x = dv.getFloat64(0, LE);
  arr[0] = x; holder.p = x; m.set(1, x); var c = mk(x); var q = [x, x]; var o2 = {a: x, b: [x]};
  var ys = [x, arr[0], holder.p, m.get(1), c(), id(x), f64[0], q[1], o2.b[0], [x].pop(), (function () { return arguments[0]; })(x)];
  for (var i = 0; i < ys.length; i++) {
    var y = ys[i];
    var b = back(y, i % 2);
    print(hi, lo, i, typeof y, y !== y, y === 0 && 1 / y < 0, b[0], b[1], m.has(1), Object.is(y, x));
  }
}
"""


def hi_lo(w):
    s, e, nib, h2, h1, h0 = w
    return ((s << 31) | (e << 20) | (nib << 16) | h2) & 0xFFFFFFFF, ((h1 << 16) | h0) & 0xFFFFFFFF


def expected_lines(w, d, nsites=11):
    """What the model prescribes for probe(hi, lo): the class and, for non-NaN words, the exact bits."""
    hi, lo = hi_lo(w)
    out = []
    for i in range(nsites):
        out.append({"hi": hi, "lo": lo, "site": i, "typeof": "number", "isnan": d == "nan",
                    "negzero": w == [1, 0, 0, 0, 0, 0], "same_bits": d == "num"})
    return out


def parse_line(line):
    p = line.split(" ")
    if len(p) != 10:
        return None
    try:
        return {"hi": int(p[0][2:]) & 0xFFFFFFFF, "lo": int(p[1][2:]) & 0xFFFFFFFF, "site": int(p[2][2:]), "typeof": p[3][2:],
                "isnan": p[4] == "b:true", "negzero": p[5] == "b:true", "bhi": int(p[6][2:]) & 0xFFFFFFFF, "blo": int(p[7][2:]) & 0xFFFFFFFF,
                "maphas": p[8] == "b:true", "objis": p[9] == "b:true"}
    except ValueError:
        return None


def is_nan_bits(hi, lo):
    return (hi >> 20) & 0x7FF == 0x7FF and ((hi & 0xFFFFF) != 0 or lo != 0)


def run(tier, replay=None):
    ck = vlib.Check("C12", tier, "model_checking", replay)
    bin_def = vlib.build_harness(["hval", "hjs"])
    bin_enum = vlib.build_harness(["hval", "hjs"], features="hval/jsvalue-enum hjs/jsvalue-enum", target_subdir="enum")
    cfg = "MCNanBox_quick.cfg" if tier == "quick" else "MCNanBox_thorough.cfg"
    words = []
    r = vlib.run_tlc(SPEC, cfg, workers=8, timeout=2400,
                     on_tagged=lambda t, o: words.append(o) if t == "W" else None)
    vlib.tlc_must_pass(r, "NanBox/" + cfg)
    ck.cov.update(states=r["distinct"], transitions=r["states"], checker_cmd=r["cmd"])
    if len(words) < 1000:
        raise vlib.ToolError("vacuity guard: TLC emitted too few words")
    for i, w in enumerate(words):
        w["id"] = i
    os.makedirs(vlib.WORK, exist_ok=True)
    wf = os.path.join(vlib.WORK, f"c12-words-{os.getpid()}.ndjson")
    with open(wf, "w") as f:
        for w in words:
            f.write(json.dumps(w) + "\n")
    evals = 0
    # ---- Rust-level conformance, both builds
    stride = "65537" if tier == "quick" else "1"
    procs = []
    for name, b in (("nan-boxed", bin_def), ("jsvalue-enum", bin_enum)):
        for mode in (["words", wf], ["ints", stride], ["ptrs", "5000"]):
            procs.append((name, mode, subprocess.Popen([os.path.join(b, "hval")] + mode, stdout=subprocess.PIPE, stderr=subprocess.PIPE, text=True)))
    for name, mode, p in procs:
        out, err = p.communicate(timeout=3000)
        if p.returncode != 0:
            ck.failure({"class": "internal-failure", "build": name, "mode": mode[0]}, {"stderr": err[-2000:], "rc": p.returncode})
            continue
        res = json.loads(out.strip().splitlines()[-1])
        evals += res.get("evals", 0) + res.get("ints", 0) + res.get("values", 0)
        ck.cov[f"{name}:{mode[0]}"] = res.get("evals") or res.get("ints") or res.get("values")
        for fl in res["fails"]:
            key = "word" if "w" in fl else ("int" if "int" in fl else "ptr")
            ck.failure({"class": "rust-" + key, "build": name, "expected": fl.get("expected"), "actual": fl.get("actual")}, fl)
    os.unlink(wf)
    # ---- JS-level conformance: a deterministic spread of the word set (+ seeded extra), in both builds
    rnd = random.Random(vlib.seed())
    njs = 600 if tier == "quick" else 6000
    step = max(1, len(words) // njs)
    chosen = words[::step]
    chosen += [words[rnd.randrange(len(words))] for _ in range(njs // 10)]
    extra = [[rnd.getrandbits(1), rnd.getrandbits(11), rnd.getrandbits(4), rnd.getrandbits(16), rnd.getrandbits(16), rnd.getrandbits(16)] for _ in range(njs // 4)]
    scen = []
    batch = 40
    allw = [(w["w"], w["d"]) for w in chosen] + [(w, "nan" if (w[1] == 2047 and (w[2] or w[3] or w[4] or w[5])) else "num") for w in extra]
    for k in range(0, len(allw), batch):
        part = allw[k:k + batch]
        src = JS_PRELUDE + "".join("probe(%d, %d);\n" % hi_lo(w) for w, _ in part)
        scen.append({"id": k, "cfg": {}, "steps": [{"kind": "eval", "src": src}], "_part": part})
    send = [{k: v for k, v in s.items() if k != "_part"} for s in scen]
    res_def = vlib.run_lines(os.path.join(bin_def, "hjs"), send)
    res_enum = vlib.run_lines(os.path.join(bin_enum, "hjs"), send)
    js_words = 0
    nan_words = 0
    for s in scen:
        for name, res in (("nan-boxed", res_def), ("jsvalue-enum", res_enum)):
            r_ = res.get(s["id"])
            if r_ is None or "panic" in r_ or "abort" in r_:
                ck.failure({"class": "internal-failure", "build": name}, {"result": r_, "words": [w for w, _ in s["_part"]]})
                continue
            step0 = r_["steps"][0]
            if not step0["c"].startswith("value:"):
                ck.failure({"class": "script-error", "build": name, "c": step0["c"]}, {"words": [w for w, _ in s["_part"]]})
                continue
            lines = [parse_line(l) for l in step0["out"]]
            idx = 0
            for w, d in s["_part"]:
                exp = expected_lines(w, d)
                got = lines[idx: idx + len(exp)]
                idx += len(exp)
                if name == "nan-boxed":
                    js_words += 1
                    nan_words += d == "nan"
                for e, g in zip(exp, got):
                    evals += 1
                    bad = None
                    if g is None or g["hi"] != e["hi"] or g["lo"] != e["lo"] or g["site"] != e["site"]:
                        bad = "garbled"
                    elif g["typeof"] != "number":
                        bad = "typeof"
                    elif g["isnan"] != e["isnan"]:
                        bad = "nan-ness"
                    elif g["negzero"] != e["negzero"]:
                        bad = "negative-zero"
                    elif e["same_bits"] and (g["bhi"], g["blo"]) != (e["hi"], e["lo"]):
                        bad = "bits-changed"
                    elif not e["same_bits"] and not is_nan_bits(g["bhi"], g["blo"]):
                        bad = "nan-written-back-as-non-nan"
                    elif not g["maphas"] or not g["objis"]:
                        bad = "identity"
                    if bad:
                        ck.failure({"class": "js-" + bad, "build": name, "site": e["site"], "kind": d},
                                   {"word": w, "expected": e, "got": g})
                        break
                if len(got) != len(exp):
                    ck.failure({"class": "js-missing-output", "build": name}, {"word": w})
        a, b = res_def.get(s["id"]), res_enum.get(s["id"])
        if a and b and "steps" in a and "steps" in b and a["steps"][0]["out"] != b["steps"][0]["out"]:
            # NaN payloads written back may legitimately differ between builds; compare after masking them
            la = [parse_line(l) for l in a["steps"][0]["out"]]
            lb = [parse_line(l) for l in b["steps"][0]["out"]]
            for x, y in zip(la, lb):
                if x and y and x["isnan"] and y["isnan"]:
                    x["bhi"] = y["bhi"] = x["blo"] = y["blo"] = 0
            if la != lb:
                ck.failure({"class": "builds-differ"}, {"words": [w for w, _ in s["_part"]]})
    ck.sample({"word_fields[s,e,nib,h2,h1,h0]": words[7]["w"], "reads_back_as": words[7]["d"]})
    ck.sample({"word_fields": [0, 2047, 9, 0, 0, 1], "note": "NaN pattern that collides with the Integer32 tag: must read back as the number NaN"})
    ck.sample({"js_probe": "probe(%d, %d)" % hi_lo([1, 2047, 12, 1, 0, 8])})
    ck.cov.update(traces_validated_against_impl=len(words) * 2 + js_words * 2, evaluations=evals,
                  distinct_nontrivial=sum(1 for w in words if w["w"][1] == 2047 and w["w"][2] >= 9) + nan_words,
                  js_words=js_words, exhaustive=True,
                  rule="every word of the structured set (sign x exponent set x 16 tag nibbles x 9 payload patterns) stored through 3 constructors x 3 Rust sites in both builds; "
                       "int32 sweep (stride 65537 quick, all 2^32 thorough); 5000 heap values per pointer kind; JS probes through 11 storage sites in both builds. "
                       "non-trivial = words whose exponent is 2047 with a tag nibble >= 9 (NaN patterns that collide with a non-float tag) plus NaN words probed from JS")
    ck.assumptions += ["little/big endian handled explicitly through DataView", "NaN payload after a round trip is unspecified: only the class is compared",
                       "pointer addresses are whatever the allocator returns (model covers boundary 48-bit addresses)"]
    return ck.finish()
