"""C06 - Inline caches are semantically transparent.

Model: spec/objects/Shapes.tla (reference OrdinaryGet/Set/DefineOwnProperty/Delete/SetPrototypeOf/... over objects
with ordered properties) + spec/objects/InlineCache.tla (implementation-shaped and predictive: shape identity,
storage layout, access sites with <= 4 entries, hit/miss paths, boa's object graph with and without caches next to
the reference graph; invariants Transparent, ShapeDenotes, Refines) + spec/objects/MCInlineCache.tla (catalogue of
set-ups, free suffixes, emission).

Binding (A): TLC enumerates every history (set-up prefix x free suffix in canonical form) and emits, per operation,
the REFERENCE observation, the observations the implementation-shaped model predicts for the pinned tree with and
without caches, the predicted hit/miss and the design flaw that fires; plus the final object graphs.  Each history
is rendered to one JS scenario (one eval step per operation on one context; the access sites are functions that
are called again and again, so the same inline cache is reused) and executed by harness/crates/hic with caches on,
with caches off (cfg.ic_off) and - for a slice - with caches on under GC stress.  Every trace must equal the
reference trace.  A history that fails is a KNOWN finding only if both traces are exactly the ones the pinned-tree
model predicts (then the flaw that fires first is its signature); anything else is a VIOLATION (shrunk).
Hit/miss counters per access are compared with the model's prediction as MODEL-DRIFT only.
"""
import concurrent.futures
import json
import os
import random
import time

import vlib

SPECDIR = os.path.join(vlib.SPEC, "objects")
MC = os.path.join(SPECDIR, "MCInlineCache.tla")
NOBJ = 3
KEYS = ["a", "b", "c"]
DESC_ORDER = ["dw", "dr", "dn", "dW", "ag", "as", "ao", "an"]
UNIQUE_JS = {1: "Math", 2: "JSON", 3: "Reflect"}

# ----------------------------------------------------------------------------- Python mirror of Shapes.tla
# Used ONLY to recompute expectations of shrunk histories (TLC is the oracle of every emitted history, and the
# mirror is cross-validated against TLC on every emitted history of every run).


def desc_of(d, k, t):
    if d == "dw":
        return dict(k=k, acc=False, w=True, c=True, v=20 + t, g=0, s=0)
    if d == "dr":
        return dict(k=k, acc=False, w=False, c=True, v=20 + t, g=0, s=0)
    if d == "dn":
        return dict(k=k, acc=False, w=False, c=False, v=20 + t, g=0, s=0)
    if d == "dW":
        return dict(k=k, acc=False, w=True, c=False, v=20 + t, g=0, s=0)
    if d == "as":
        return dict(k=k, acc=True, w=False, c=True, v=0, g=t, s=t)
    if d == "ag":
        return dict(k=k, acc=True, w=False, c=True, v=0, g=t, s=0)
    if d == "ao":
        return dict(k=k, acc=True, w=False, c=True, v=0, g=0, s=t)
    if d == "an":
        return dict(k=k, acc=True, w=False, c=False, v=0, g=t, s=t)
    raise vlib.ToolError("descriptor kind " + d)


def own(O, o, k):
    for p in O[o]["props"]:
        if p["k"] == k:
            return p
    return None


def ref_get(O, o, k, recv):
    while o != 0:
        p = own(O, o, k)
        if p is not None:
            if p["acc"]:
                return 0 if p["g"] == 0 else 100 * p["g"] + recv
            return p["v"]
        o = O[o]["proto"]
    return 0


def ref_set(O, o, k, v, recv):
    """returns (ok, calls); mutates O"""
    while own(O, o, k) is None and O[o]["proto"] != 0:
        o = O[o]["proto"]
    p = own(O, o, k)
    if p is None:
        p = dict(k=k, acc=False, w=True, c=True, v=0, g=0, s=0)
    if not p["acc"]:
        if not p["w"]:
            return False, []
        e = own(O, recv, k)
        if e is not None:
            if e["acc"] or not e["w"]:
                return False, []
            e["v"] = v
            return True, []
        if not O[recv]["ext"]:
            return False, []
        O[recv]["props"].append(dict(k=k, acc=False, w=True, c=True, v=v, g=0, s=0))
        return True, []
    if p["s"] == 0:
        return False, []
    return True, [dict(n=p["s"], r=recv, v=v)]


def ref_define(O, o, D):
    cur = own(O, o, D["k"])
    if cur is None:
        if O[o]["ext"]:
            O[o]["props"].append(dict(D))
            return True
        return False
    if not cur["c"]:
        if D["c"]:
            return False
        if cur["acc"] != D["acc"]:
            return False
        if not cur["acc"]:
            if not cur["w"]:
                return not (D["w"] or D["v"] != cur["v"])
        else:
            return not (D["g"] != cur["g"] or D["s"] != cur["s"])
    cur.update(D)
    return True


def ref_delete(O, o, k):
    p = own(O, o, k)
    if p is None:
        return True
    if p["c"]:
        O[o]["props"].remove(p)
        return True
    return False


def ref_setproto(O, o, p):
    if O[o]["proto"] == p:
        return True
    if not O[o]["ext"]:
        return False
    x = p
    while x != 0:
        if x == o:
            return False
        x = O[x]["proto"]
    O[o]["proto"] = p
    return True


def ref_freeze(O, o):
    O[o]["ext"] = False
    for p in O[o]["props"]:
        p["c"] = False
        if not p["acc"]:
            p["w"] = False


def pyref(ops):
    """ops: list of dicts op,o,k,d,p,t.  Returns (list of expectation dicts r/ok/calls, final graph)."""
    O = {o: dict(proto=0, props=[], ext=True) for o in range(1, NOBJ + 1)}
    exp = []
    for op in ops:
        kind, o, k, t = op["op"], op["o"], op["k"], op["t"]
        e = dict(r=0, ok=True, calls=[])
        if kind == "G":
            e["r"] = ref_get(O, o, k, o)
        elif kind == "N":
            # global name lookup: ReferenceError (ok = False) when the binding does not exist
            found, x = False, o
            while x != 0:
                if own(O, x, k) is not None:
                    found = True
                    break
                x = O[x]["proto"]
            e["ok"] = found
            e["r"] = ref_get(O, o, k, o)
        elif kind == "S":
            e["ok"], e["calls"] = ref_set(O, o, k, 10 + t, o)
        elif kind == "D":
            e["ok"] = ref_define(O, o, desc_of(op["d"], k, t))
        elif kind == "X":
            e["ok"] = ref_delete(O, o, k)
        elif kind == "P":
            e["ok"] = ref_setproto(O, o, op["p"])
        elif kind == "E":
            O[o]["ext"] = False
        elif kind == "F":
            ref_freeze(O, o)
        elif kind == "W":
            pass
        else:
            raise vlib.ToolError("op kind " + kind)
        exp.append(e)
    final = [O[o] for o in range(1, NOBJ + 1)]
    return exp, final


# ----------------------------------------------------------------------------- rendering to JS

def js_obj(o):
    return f"O{o}"


def prelude(uq, glob):
    """uq[o-1]: object o has a unique shape (a builtin namespace object); glob: object id played by the global
    object (0 = none)."""
    lines = ["const P = print;",
             "const RDP = Reflect.defineProperty, RDEL = Reflect.deleteProperty, RSP = Reflect.setPrototypeOf, "
             "RPE = Reflect.preventExtensions, OFZ = Object.freeze, RGOPD = Reflect.getOwnPropertyDescriptor, "
             "RGP = Reflect.getPrototypeOf, RIE = Reflect.isExtensible, ROK = Reflect.ownKeys;"]
    for o in range(1, NOBJ + 1):
        if o == glob:
            lines.append(f"const O{o} = globalThis; RSP(O{o}, null);")
        elif uq[o - 1]:
            lines.append(f"const O{o} = {UNIQUE_JS[o]}; RSP(O{o}, null);")
        else:
            lines.append(f"const O{o} = Object.create(null);")
    lines += [
        "const idOf = function (x) { return x === O1 ? 1 : x === O2 ? 2 : x === O3 ? 3 : 0; };",
        "const GT = [0], ST = [0];",
        "const mkG = function (n) { return GT[n] || (GT[n] = function () { return 100 * n + idOf(this); }); };",
        "const mkS = function (n) { return ST[n] || (ST[n] = function (v) { P('set', n, idOf(this), v); }); };",
    ]
    for k in KEYS:
        lines.append(f"const g{k} = function (o) {{ return o.{k}; }};")
        lines.append(f"const s{k} = function (o, v) {{ 'use strict'; o.{k} = v; }};")
        lines.append(f"const n{k} = function () {{ return {k}; }};")
    lines.append(
        "const dump = function () { for (let i = 1; i <= 3; i++) { const o = i === 1 ? O1 : i === 2 ? O2 : O3; "
        "P('obj', i, idOf(RGP(o)), RIE(o)); const ks = ROK(o); for (let j = 0; j < ks.length; j++) { const k = ks[j]; "
        "if (k !== 'a' && k !== 'b' && k !== 'c') continue; const d = RGOPD(o, k); "
        "if ('value' in d) P('data', k, d.value, d.writable, d.configurable); "
        "else P('acc', k, d.get === undefined ? 0 : GT.indexOf(d.get), d.set === undefined ? 0 : ST.indexOf(d.set), "
        "d.configurable); } } };")
    lines.append("void 0;")
    return "\n".join(lines)


def js_desc(d, t):
    D = desc_of(d, "x", t)
    if D["acc"]:
        g = f"mkG({D['g']})" if D["g"] else "undefined"
        s = f"mkS({D['s']})" if D["s"] else "undefined"
        return f"{{get: {g}, set: {s}, enumerable: true, configurable: {str(D['c']).lower()}}}"
    return (f"{{value: {D['v']}, writable: {str(D['w']).lower()}, enumerable: true, "
            f"configurable: {str(D['c']).lower()}}}")


def js_op(op):
    kind, o, k, t = op["op"], op["o"], op["k"], op["t"]
    if kind == "G":
        return f"P(g{k}({js_obj(o)}))"
    if kind == "N":
        return f"P(n{k}())"
    if kind == "S":
        return f"s{k}({js_obj(o)}, {10 + t})"
    if kind == "D":
        return f"P(RDP({js_obj(o)}, '{k}', {js_desc(op['d'], t)}))"
    if kind == "X":
        return f"P(RDEL({js_obj(o)}, '{k}'))"
    if kind == "P":
        return f"P(RSP({js_obj(o)}, {js_obj(op['p']) if op['p'] else 'null'}))"
    if kind == "E":
        return f"P(RPE({js_obj(o)}))"
    if kind == "F":
        return f"OFZ({js_obj(o)}); P(true)"
    if kind == "W":
        # o receivers with o unrelated shapes, each with an own writable data property k
        objs = ["{" + "".join(f"z{j}: 0, " for j in range(i)) + f"{k}: 0}}" for i in range(o)]
        call = (lambda x: f"g{k}({x})") if op["d"] == "G" else (lambda x: f"s{k}({x}, 0)")
        return "; ".join(call(x) for x in objs) + "; P(true)"
    raise vlib.ToolError("op kind " + kind)


FN_MARK = 9999
PANIC = ("PANIC",)


def val(x):
    return "u" if x == 0 else "o:Function" if x == FN_MARK else f"n:{x}"


def b(x):
    return "b:true" if x else "b:false"


def dump_lines(final):
    lines = []
    for i, ob in enumerate(final):
        lines.append(f"s:obj n:{i + 1} n:{ob['proto']} {b(ob['ext'])}")
        for p in ob["props"]:
            if p["acc"]:
                lines.append(f"s:acc s:{p['k']} n:{p['g']} n:{p['s']} {b(p['c'])}")
            else:
                lines.append(f"s:data s:{p['k']} {val(p['v'])} {b(p['w'])} {b(p['c'])}")
    return lines


def expected_steps(ops, exp, final):
    """The observable trace (one (print lines, completion) per eval step: prelude, operations, dump) that a list
    of observations prescribes; ends with PANIC at the first observation with pan."""
    out = [([], "value:u")]
    for op, e in zip(ops, exp):
        kind = op["op"]
        if e.get("pan"):
            out.append(PANIC)
            return out
        calls = [f"s:set n:{c['n']} n:{c['r']} {val(c['v'])}" for c in e["calls"]]
        if kind == "G":
            out.append((calls + [val(e["r"])], "value:u"))
        elif kind == "N":
            out.append((calls + [val(e["r"])], "value:u") if e["ok"] else ([], "throw:o:Error:ReferenceError"))
        elif kind == "S":
            out.append((calls, "value:u" if e["ok"] else "throw:o:Error:TypeError"))
        elif kind in ("D", "X", "P"):
            out.append(([b(e["ok"])], "value:u"))
        else:
            out.append((["b:true"], "value:u"))
    out.append((dump_lines(final), "value:u"))
    return out


def scenario(sid, ops, uq, glob, cfgs):
    return {"id": sid, "steps": [prelude(uq, glob)] + [js_op(op) for op in ops] + ["dump()"], "cfgs": cfgs}


# ----------------------------------------------------------------------------- running

def _run_chunk(args):
    binary, chunk = args
    return vlib.run_lines(binary, chunk)


def run_parallel(binary, scenarios, jobs=8):
    if not scenarios:
        return {}
    n = max(1, min(jobs, len(scenarios) // 50 + 1))
    chunks = [scenarios[i::n] for i in range(n)]
    res = {}
    if n == 1:
        return vlib.run_lines(binary, scenarios)
    with concurrent.futures.ProcessPoolExecutor(max_workers=n) as ex:
        for r in ex.map(_run_chunk, [(binary, c) for c in chunks]):
            res.update(r)
    return res


def trace_of(run):
    """observable trace of one run: (print lines, completion) per step; PANIC after the last completed step"""
    t = [(s.get("out", []), s.get("c")) for s in run.get("steps", [])]
    if "panic" in run:
        t.append(PANIC)
    return t


def norm(t):
    return [x if x == PANIC else (list(x[0]), x[1]) for x in t]


def classify(on, off, exp):
    """None if the property held, else the failure kind."""
    on, off, exp = norm(on), norm(off), norm(exp)
    if on == exp and off == exp:
        return None
    if PANIC in off:
        return "panic-uncached"
    if PANIC in on:
        return "panic"
    if on != off:
        return "cached-differs" if off == exp else "cached-and-uncached-differ"
    return "both-differ-from-reference"


class Runner:
    def __init__(self, bindir):
        self.binary = os.path.join(bindir, "hic")
        self.replays = 0

    def judge(self, items, gc_slice=None):
        """items: list of (key, ops, uq, glob, expected_steps).  Returns key -> (kind, on, off, counters)."""
        scs = []
        for key, ops, uq, glob, exp in items:
            cfgs = [{}, {"ic_off": True}]
            if gc_slice and key in gc_slice:
                cfgs.append({"gc": 1})
            scs.append(scenario(key, ops, uq, glob, cfgs))
            self.replays += len(cfgs)
        res = run_parallel(self.binary, scs)
        out = {}
        for key, ops, uq, glob, exp in items:
            r = res.get(key)
            if r is None:
                raise vlib.ToolError("missing hic result")
            if "abort" in r:
                runs = [{"steps": [], "panic": "process abort: " + str(r["abort"])}, {"steps": []}]
            else:
                runs = r["runs"]
            on = trace_of(runs[0])
            off = trace_of(runs[1])
            kind = classify(on, off, exp)
            if kind is None and len(runs) > 2:
                g = trace_of(runs[2])
                k2 = classify(g, off, exp)
                if k2 is not None:
                    kind = "gc-" + k2
                    on = g
            counters = [s.get("ic") for s in runs[0].get("steps", [])]
            out[key] = (kind, on, off, counters)
        return out


# ----------------------------------------------------------------------------- shrinking and canonical form

def canon(ops, uq, glob):
    """Canonical renaming: objects by first use (as operand, then as prototype argument), keys by first use,
    time stamps by position.  Returns (ops, uq, glob)."""
    omap, kmap = {}, {}

    def oo(x):
        if x == 0:
            return 0
        if x not in omap:
            omap[x] = len(omap) + 1
        return omap[x]

    def kk(x):
        if x == "-":
            return "-"
        if x not in kmap:
            kmap[x] = KEYS[len(kmap)]
        return kmap[x]
    out = []
    for i, op in enumerate(ops):
        if op["op"] == "W":
            out.append(dict(op="W", o=op["o"], k=kk(op["k"]), d=op["d"], p=0, t=i + 1))
            continue
        out.append(dict(op=op["op"], o=oo(op["o"]), k=kk(op["k"]), d=op["d"], p=oo(op["p"]), t=i + 1))
    nuq = [False] * NOBJ
    for old, new in omap.items():
        nuq[new - 1] = bool(uq[old - 1])
    nglob = omap.get(glob, 0) if glob else 0
    return out, nuq, nglob


def sig_text(ops, uq, glob):
    parts = []
    for op in ops:
        kind = op["op"]
        if kind in ("G", "S", "X", "N"):
            parts.append(f"{kind}{op['o']}{op['k']}")
        elif kind == "D":
            parts.append(f"D{op['o']}{op['k']}:{op['d']}")
        elif kind == "P":
            parts.append(f"P{op['o']}>{op['p']}")
        elif kind == "W":
            parts.append(f"W{op['d']}{op['k']}x{op['o']}")
        else:
            parts.append(f"{kind}{op['o']}")
    shapes = "".join(("g" if glob == i + 1 else "u" if uq[i] else "s") for i in range(NOBJ))
    return shapes + " " + " ".join(parts)


def expect_for(ops):
    exp, final = pyref(ops)
    return expected_steps(ops, exp, final)


def candidates(ops, uq, glob):
    """Smaller / simpler variants of a history, in a fixed order."""
    out = []
    for i in range(len(ops)):
        out.append((ops[:i] + ops[i + 1:], uq, glob))
    for i in range(NOBJ):
        if uq[i] and glob != i + 1:
            u2 = list(uq)
            u2[i] = False
            out.append((ops, u2, glob))
    for i, op in enumerate(ops):
        if op["op"] == "D":
            for d in DESC_ORDER[:DESC_ORDER.index(op["d"])]:
                o2 = [dict(x) for x in ops]
                o2[i]["d"] = d
                out.append((o2, uq, glob))
    return out


def shrink_all(runner, fails):
    """fails: list of (ops, uq, glob, kind).  Greedy and deterministic: in every round each history moves to its
    first candidate (delete one operation / make a unique-shape object ordinary / use a simpler descriptor) that
    still fails in the same way; candidates are executed in canonical form and verdicts are shared between
    histories.  Returns the list of canonical shrunk (ops, uq, glob)."""
    cur = [canon(ops, uq, glob) for ops, uq, glob, kind in fails]
    kinds = [f[3] for f in fails]
    verdict = {}
    active = set(range(len(cur)))
    while active:
        cand = {}
        todo = {}
        for i in sorted(active):
            cs = [canon(*c) for c in candidates(*cur[i])]
            cand[i] = cs
            for c in cs:
                t = sig_text(*c)
                if t not in verdict and t not in todo:
                    todo[t] = c
        if todo:
            items = [(t, c[0], c[1], c[2], expect_for(c[0])) for t, c in todo.items()]
            res = runner.judge(items)
            for t in todo:
                verdict[t] = res[t][0]
        nxt = set()
        for i in sorted(active):
            for c in cand[i]:
                if verdict[sig_text(*c)] == kinds[i]:
                    cur[i] = c
                    nxt.add(i)
                    break
        active = nxt
    return cur


# ----------------------------------------------------------------------------- the check

TIERS = {
    "quick": dict(H=3, wide=[], sim=None, floor=300, gc_every=10, design=False),
    "thorough": dict(H=4, wide=[1, 5, 14], sim=(1200, 9, 20), floor=5000, gc_every=10, design=True),
}
BASE_ACTIONS = ["GetHit", "GetMiss", "SetHit", "SetMiss", "NameHit", "NameMiss", "Define", "Delete", "SetProto", "PreventExt",
                "Freeze", "Warm"]
NCAT = 15

CFG_TEMPLATE = """SPECIFICATION Spec
CONSTANTS
  N = 3
  Keys = {{"a", "b"}}
  FixProto = {F1}
  FixUnique = {F2}
  FixSetter = {F3}
  FixRollback = {F4}
  H = {H}
  CatSel = {{{cats}}}
  WideCats = {{{wide}}}
{invs}
CHECK_DEADLOCK FALSE
"""
GATE_INVS = ["TypeOK", "NoClobber", "EsInv"]
DESIGN_INVS = ["TypeOK", "NoClobber", "Transparent", "ShapeDenotes", "Refines", "TraceEqual"]


def write_cfg(name, fixes, H, wide, invs, cats=None):
    """Configs are generated (the committed MCInlineCache_*.cfg are the same for the pinned tree): the repair
    switches of the implementation-shaped model follow what the probes find in the tree under test."""
    tf = lambda x: "TRUE" if x else "FALSE"
    text = CFG_TEMPLATE.format(F1=tf(fixes["F1"]), F2=tf(fixes["F2"]), F3=tf(fixes["F3"]), F4=tf(fixes["F4"]), H=H,
                               cats=", ".join(str(c) for c in (cats or range(1, NCAT + 1))),
                               wide=", ".join(str(c) for c in wide),
                               invs="\n".join("INVARIANT " + i for i in invs))
    os.makedirs(os.path.join(vlib.WORK, "c06"), exist_ok=True)
    path = os.path.join(vlib.WORK, "c06", f"{name}-{os.getpid()}.cfg")
    with open(path, "w") as f:
        f.write(text)
    return path


# one minimal witness per design flaw of the pinned tree: (uq, ops in sig_text syntax)
PROBES = {
    "F1": ([False, False, False], "P1>2 D2a:dw G1a X2a G1a"),
    "F2": ([True, False, False], "S1a S1a D1a:dr S1a"),
    "F3": ([False, False, False], "D1a:as S1a D1a:ag S1a"),
    "F4": ([False, False, False], "D1a:dw S1b D1a:dr X1b"),
}


def parse_ops(text):
    ops = []
    for t, w in enumerate(text.split(), 1):
        kind = w[0]
        if kind == "D":
            head, d = w.split(":")
            ops.append(dict(op="D", o=int(head[1]), k=head[2], d=d, p=0, t=t))
        elif kind == "P":
            o, p_ = w[1:].split(">")
            ops.append(dict(op="P", o=int(o), k="-", d="-", p=int(p_), t=t))
        elif kind in "GSXN":
            ops.append(dict(op=kind, o=int(w[1]), k=w[2], d="-", p=0, t=t))
        else:
            ops.append(dict(op=kind, o=int(w[1]), k="-", d="-", p=0, t=t))
    return ops


def detect_repairs(runner):
    """Which of the known design flaws does the tree under test still have?  (The answer only selects the
    variant of the implementation-shaped model that explains known findings and predicts hit/miss; the pass
    criterion is always equality with the reference trace.)"""
    items = []
    for f, (uq, text) in PROBES.items():
        ops = parse_ops(text)
        items.append((f, ops, uq, 0, expect_for(ops)))
    res = runner.judge(items)
    return {f: res[f][0] is None for f in PROBES}


# signatures of the known findings = the design flaw of the pinned tree (InlineCache.tla) that fires first in a
# history whose cached and uncached traces are exactly the ones the model of the pinned tree predicts
FLAWS = {
    "F1": "F1 prototype-slot cache entry validated by the receiver's shape only",
    "F2": "F2 unique shape keeps its identity on insert / attribute change",
    "F3": "F3 cached store through an accessor without setter succeeds silently",
    "F4": "F4 shared-shape rollback forgets attribute changes of other properties",
}


def ops_of(rec):
    return [dict(op=e["op"], o=e["o"], k=e["k"], d=e["d"], p=e["p"], t=i + 1) for i, e in enumerate(rec["log"])]


class Tally:
    """Aggregated outcome of all replayed histories (records are processed in chunks and dropped)."""

    def __init__(self, ck, runner, conf):
        self.ck, self.runner, self.conf = ck, runner, conf
        self.total = self.nontrivial = self.hits = self.accesses = self.gc_runs = 0
        self.flaw_not_observed = 0
        self.drift_examples = []
        self.known = {}           # flaw tag -> [count, smallest example]
        self.unexplained = []     # (ops, uq, glob, exp, kind, on, off, predicted traces)
        self.n_unexplained = 0
        self.actions = {}
        self.seen_sim = set()

    def count_actions(self, rec):
        names = {"G": "Get", "N": "Name", "S": "Set"}
        other = {"D": "Define", "X": "Delete", "P": "SetProto", "E": "PreventExt", "F": "Freeze", "W": "Warm"}
        for e in rec["log"]:
            a = names[e["op"]] + ("Hit" if e["hit"] else "Miss") if e["op"] in names else other[e["op"]]
            self.actions[a] = self.actions.get(a, 0) + 1

    def chunk(self, recs):
        ck = self.ck
        items, pred = [], {}
        for i, rec in enumerate(recs):
            self.count_actions(rec)
            ops = ops_of(rec)
            exp = expected_steps(ops, [e["e"] for e in rec["log"]], rec["final"])
            # the Python mirror of the reference must agree with TLC on every history (it is only used by the shrinker)
            if norm(exp) != norm(expect_for(ops)):
                raise vlib.ToolError(f"Python mirror of Shapes.tla disagrees with TLC on {sig_text(ops, rec['uq'], rec['glob'])}")
            key = str(self.total + i)
            items.append((key, ops, rec["uq"], rec["glob"], exp))
            pred[key] = (norm(expected_steps(ops, [e["ce"] for e in rec["log"]], rec["cfinal"])),
                         norm(expected_steps(ops, [e["ue"] for e in rec["log"]], rec["ufinal"])),
                         next((e["tag"] for e in rec["log"] if e["tag"]), ""))
        flawless = {it[0] for it in items if pred[it[0]][0] == norm(it[4]) and pred[it[0]][1] == norm(it[4])}
        every = self.conf["gc_every"]
        gc_slice = {k for k in flawless if int(k) % every == vlib.seed() % every}
        self.gc_runs += len(gc_slice)
        verdicts = self.runner.judge(items, gc_slice)
        for (key, ops, uq, glob, exp), rec in zip(items, recs):
            kind, on, off, counters = verdicts[key]
            p_on, p_off, tag = pred[key]
            if kind is not None:
                if kind.startswith("gc-") or not tag or norm(on) != p_on or norm(off) != p_off:
                    self.n_unexplained += 1
                    if len(self.unexplained) < 200:
                        self.unexplained.append((ops, uq, glob, exp, kind, on, off, (p_on, p_off)))
                else:
                    k = self.known.setdefault(tag, [0, None])
                    k[0] += 1
                    cand = (len(ops), sig_text(ops, uq, glob), ops, uq, glob, exp, kind, on, off)
                    if k[1] is None or cand[:2] < k[1][:2]:
                        k[1] = cand
                continue
            if key not in flawless:
                self.flaw_not_observed += 1   # the selected model variant predicts a failure the code does not show
                ck.drift += 1
                if len(self.drift_examples) < 5:
                    self.drift_examples.append(f"{sig_text(ops, uq, glob)}: model predicts flaw {tag or '?'}, the engine agrees with the reference")
                continue
            # counters: step 0 is the prelude, step i the i-th operation
            mutated = nt = False
            for i, e in enumerate(rec["log"]):
                c = counters[i + 1] if len(counters) > i + 1 else None
                if e["op"] in ("G", "S", "N") and c is not None:
                    self.accesses += 1
                    self.hits += c[0]
                    if c[0] >= 1 and mutated:
                        nt = True
                    # (a megamorphic site reports neither a hit nor a miss)
                    if c[:2] != [1, 0] if e["hit"] else c[0] != 0:
                        ck.drift += 1
                        if len(self.drift_examples) < 5:
                            self.drift_examples.append(f"{sig_text(ops, uq, glob)} @op{i + 1}: model {'hit' if e['hit'] else 'miss'}, "
                                                       f"counters hit/miss/store={c}")
                if i >= rec["npre"] and e["op"] not in ("G", "N", "W"):
                    mutated = True
            if nt:
                self.nontrivial += 1
            if int(key) % 9973 == 3:
                ck.sample({"history": sig_text(ops, uq, glob), "reference_trace": exp[1:], "ic_counters": counters[1:]})
        self.total += len(recs)
        if self.total // 20000 != (self.total - len(recs)) // 20000:
            vlib.log(f"[C06] ... {self.total} histories replayed ({self.runner.replays} runs), "
                     f"{sum(k[0] for k in self.known.values())} known, {self.n_unexplained} unexplained")


def stream_tlc(cfg, tally, what, chunk_size=4000, **kw):
    """Runs TLC and feeds its REPLAY records to the tally in chunks while TLC keeps enumerating."""
    import queue
    import threading
    q = queue.Queue(maxsize=4)
    err = []

    def consumer():
        while True:
            recs = q.get()
            if recs is None:
                return
            if not err:
                try:
                    tally.chunk(recs)
                except BaseException as e:   # re-raised in the main thread
                    err.append(e)

    th = threading.Thread(target=consumer)
    th.start()
    buf = []
    n = [0]

    def on_tagged(tag, o):
        if tag != "REPLAY":
            return
        if kw.get("simulate"):
            key = json.dumps([o["log"], o["uq"], o["glob"]], sort_keys=True)
            if key in tally.seen_sim:
                return
            tally.seen_sim.add(key)
        buf.append(o)
        n[0] += 1
        if len(buf) >= chunk_size:
            q.put(list(buf))
            buf.clear()
    try:
        r = vlib.run_tlc(MC, cfg, on_tagged=on_tagged, **kw)
    finally:
        if buf:
            q.put(list(buf))
        q.put(None)
        th.join()
    if err:
        raise err[0]
    vlib.tlc_must_pass(r, "MCInlineCache/" + what)
    return r, n[0]


def run(tier, replay=None):
    ck = vlib.Check("C06", tier, "model_checking", replay)
    conf = TIERS[tier]
    bindir = vlib.build_harness(["hic"])
    runner = Runner(bindir)
    fixes = detect_repairs(runner)
    ck.cov["repairs_present_in_tree"] = fixes
    vlib.log(f"[C06] design flaws still present in the tree: {[f for f in sorted(fixes) if not fixes[f]] or 'none'}")
    states = trans = 0
    cmds = []
    if conf["design"]:
        # the mechanism model itself: repaired design verified, pinned design refuted (documentation of the flaws)
        rf = vlib.run_tlc(MC, "MCInlineCache_fixed.cfg", workers=3, timeout=1500)
        vlib.tlc_must_pass(rf, "MCInlineCache/fixed design (Transparent, ShapeDenotes, Refines, TraceEqual)")
        rp = vlib.run_tlc(MC, "MCInlineCache_pinned.cfg", workers=3, timeout=1500)
        if rp["ok"] or not rp["violation"] or "Invariant" not in rp["violation"]:
            vlib.log(rp["raw_tail"][-1500:])
            raise vlib.ToolError("TLC no longer refutes Transparent/ShapeDenotes on the model of the pinned design")
        ck.cov["design"] = {"repaired_design_states": rf["distinct"], "repaired_design_invariants":
                            " ".join(DESIGN_INVS) + " hold", "pinned_design": rp["violation"]}
        cmds += [rf["cmd"], rp["cmd"]]
        vlib.log(f"[C06] design: repaired design verified ({rf['distinct']} states), pinned design refuted: {rp['violation']}")
    tally = Tally(ck, runner, conf)
    # emission + model gate in one run: TypeOK (well-formedness of the three graphs and of the sites), NoClobber
    # and EsInv (ECMA-262 6.1.7.3 along every step of the reference graph) are checked in every state
    cfg = write_cfg(tier, fixes, conf["H"], conf["wide"], GATE_INVS + ["Emit"])
    t0 = time.time()
    r, n_exh = stream_tlc(cfg, tally, tier, workers=3, timeout=7000)
    states += r["distinct"]
    trans += r["states"]
    cmds.append(r["cmd"])
    vlib.log(f"[C06] TLC {tier}: {r['distinct']} distinct states, {n_exh} histories enumerated and replayed "
             f"({runner.replays} runs) in {time.time() - t0:.0f}s (TLC {r['wall']:.0f}s)")
    if conf["sim"]:
        num, hsim, depth = conf["sim"]
        cfg = write_cfg(tier + "-sim", fixes, hsim, range(1, NCAT + 1), ["Emit"])
        r, n_sim = stream_tlc(cfg, tally, "simulate", workers=1, simulate=num, depth=depth, tseed=vlib.seed(), timeout=3000)
        cmds.append(r["cmd"])
        ck.cov["simulated_histories"] = n_sim
        vlib.log(f"[C06] TLC -simulate: {n_sim} distinct histories of {hsim} free operations")
    if tally.total == 0:
        raise vlib.ToolError("TLC emitted no histories")
    ck.cov["checker_cmd"] = "; ".join(cmds)
    ck.cov["action_counts"] = tally.actions
    never = [a for a in BASE_ACTIONS if tally.actions.get(a, 0) == 0]
    if never:
        raise vlib.ToolError(f"actions of the mechanism model never taken: {never}")
    for d in tally.drift_examples:
        vlib.log("MODEL-DRIFT: " + d)

    # known findings: explained step by step by the model of the pinned tree
    for tag in sorted(tally.known):
        count, (_, text, ops, uq, glob, exp, kind, on, off) = tally.known[tag]
        for _ in range(count):
            ck.failure(FLAWS[tag], {"example": text, "kind": kind, "count": count,
                                    "program": [prelude(uq, glob)] + [js_op(o) for o in ops] + ["dump()"],
                                    "reference": exp, "caches_on": on, "caches_off": off})
    ck.cov["known_flaw_histories"] = {FLAWS[t]: tally.known[t][0] for t in sorted(tally.known)}

    # anything else: confirm, shrink, report
    unexplained = tally.unexplained
    if unexplained:
        again = runner.judge([(str(i), f[0], f[1], f[2], f[3]) for i, f in enumerate(unexplained)])
        for i, f in enumerate(unexplained):
            if again[str(i)][0] != f[4] and not f[4].startswith("gc-"):
                raise vlib.ToolError(f"non-reproducible result on {sig_text(f[0], f[1], f[2])}: {f[4]} then {again[str(i)][0]}")
        t0 = time.time()
        shrunk = shrink_all(runner, [(f[0], f[1], f[2], f[4][3:] if f[4].startswith("gc-") else f[4]) for f in unexplained])
        vlib.log(f"[C06] {tally.n_unexplained} unexplained failing histories, {len(unexplained)} shrunk in {time.time() - t0:.1f}s")
        by_sig = {}
        for f, (s_ops, s_uq, s_glob) in zip(unexplained, shrunk):
            sig = f"{f[4]}: {sig_text(s_ops, s_uq, s_glob)}"
            by_sig.setdefault(sig, (f, s_ops, s_uq, s_glob))
        res = runner.judge([(sig, d[1], d[2], d[3], expect_for(d[1])) for sig, d in by_sig.items()])
        for sig in sorted(by_sig):
            f, s_ops, s_uq, s_glob = by_sig[sig]
            ck.failure(sig, {"history": sig_text(f[0], f[1], f[2]), "shrunk": sig_text(s_ops, s_uq, s_glob),
                             "program": [prelude(s_uq, s_glob)] + [js_op(o) for o in s_ops] + ["dump()"],
                             "reference": expect_for(s_ops), "caches_on": res[sig][1], "caches_off": res[sig][2],
                             "model_prediction_for_original": {"caches_on": f[7][0], "caches_off": f[7][1]}})
    ck.cov.update(states=states, transitions=trans, traces_validated_against_impl=tally.total,
                  histories_exhaustive=n_exh, evaluations=runner.replays, distinct_nontrivial=tally.nontrivial,
                  accesses_compared_with_model=tally.accesses, cache_hits_observed=tally.hits,
                  histories_gc_stress=tally.gc_runs, unexplained_failures=tally.n_unexplained,
                  predicted_flaw_not_observed=tally.flaw_not_observed,
                  rule="one replay per canonical history (set-up prefix x free suffix); each run with caches on, caches "
                       "off and (one tenth of the flawless ones) caches on under GC stress; all traces must equal TLC's "
                       "reference trace operation by operation incl. the final object graph; non-trivial = a cache hit "
                       "was observed (hook counter) at an access that follows a mutation of the free suffix")
    if tally.nontrivial < conf["floor"]:
        raise vlib.ToolError(f"vacuity guard: only {tally.nontrivial} histories with a cache hit after a mutation (floor {conf['floor']})")
    ck.assumptions += ["[[Enumerable]] is not modelled; accessor functions have no side effects besides reporting the call",
                       "hit/miss prediction of InlineCache.tla is compared as MODEL-DRIFT only",
                       "ic_off makes InlineCache::get miss and InlineCache::set a no-op (hook in vm/inline_cache/mod.rs)",
                       "a failing history is a known finding only when caches-on and caches-off traces both equal the "
                       "traces InlineCache.tla predicts for the tree's remaining design flaws (F1-F4, selected by probes)"]
    return ck.finish()


