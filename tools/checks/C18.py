"""C18 - JSON.parse/stringify implement exactly the JSON grammar and value mapping.

Model: spec/text/JsonGrammar.tla (pushdown recogniser over token classes + value mapping, checked against a
relational transcription of the ECMA-404 productions), spec/text/JsonStringify.tla (SerializeJSONProperty with
toJSON, replacers, gap, QuoteJSONString).
Binding (A):
  pass 1  TLC enumerates every live class string up to the bound (MCJsonGrammar): accept / reject at end of
          text, value, the classes that kill it, its shortest completion.  Seeded/deterministic simulation
          supplies longer viable prefixes.  Every string is rendered with several representatives per class;
          JSON.parse must throw SyntaxError exactly on the rejected ones.
  pass S  TLC builds value trees and configurations (MCJsonStringify) and emits the reference text of
          JSON.stringify; the implementation's text must be equal.
  pass 2  (JsonGrammarRun) the recogniser run over concrete token sequences cut by this file: other
          representatives of accepted class strings, completed simulation prefixes, a curated edge list,
          seeded mutations of valid texts, and the implementation's own stringify output.  Acceptance and the
          value always come from the TLA+ machine; JSON.parse's result is dumped structurally inside the
          engine (Reflect.ownKeys / getOwnPropertyDescriptor / getPrototypeOf + native print) and compared.
"""
import concurrent.futures as cf
import json, os, random, struct, time
import vlib

SPECDIR = os.environ.get("C18_SPECDIR") or os.path.join(vlib.SPEC, "text")   # override: binding demonstrations only
WORKDIR = os.path.join(vlib.WORK, "c18")

# ------------------------------------------------------------------------------------------------ helpers

def esc_units(units):
    """Same rendering as hcommon::esc_units (the native print of the harness)."""
    out = []
    for u in units:
        if 0x20 <= u < 0x7F and u != 0x5C:
            out.append(chr(u))
        elif u == 0x5C:
            out.append("\\\\")
        else:
            out.append("\\u%04X" % u)
    return "".join(out)


def js_string_literal(units):
    out = ['"']
    for u in units:
        if 0x20 <= u < 0x7F and u not in (0x22, 0x5C):
            out.append(chr(u))
        else:
            out.append("\\u%04X" % u)
    out.append('"')
    return "".join(out)


HEX = set(b"0123456789abcdefABCDEF")
WORDS = [[116, 114, 117, 101], [102, 97, 108, 115, 101], [110, 117, 108, 108]]


def segments(u):
    """Cuts a text (code units) into tokens: longest match, mirrors JsonStringify!Segments (pass 2 re-checks it)."""
    out = []
    i = 0
    n = len(u)
    while i < n:
        c = u[i]
        if c == 92:
            if i + 5 < n and u[i + 1] == 117 and all(x in HEX for x in u[i + 2:i + 6]):
                out.append(u[i:i + 6]); i += 6
            elif i + 1 < n:
                out.append(u[i:i + 2]); i += 2
            else:
                out.append([92]); i += 1
            continue
        for w in WORDS:
            if u[i:i + len(w)] == w:
                out.append(w); i += len(w)
                break
        else:
            out.append([c]); i += 1
    return out


def num_line(n):
    """Expected native rendering of a model number; None = not prescribed by this model (C13)."""
    k = n["k"]
    if k == "zero":
        return "n:-0" if n["neg"] else "n:0"
    if k == "inf":
        return "n:-Infinity" if n["neg"] else "n:Infinity"
    if k == "rat":
        sign = -1 if n["neg"] else 1
        if n["den"] == 1:
            return "n:%d" % (sign * n["num"])
        x = sign * n["num"] / n["den"]
        return "n:b:%016X" % struct.unpack(">Q", struct.pack(">d", x))[0]
    if k == "nan":
        return "n:NaN"
    return None


def dump_lines(v, out):
    """Expected output of the JS dumper D for a model JSON value."""
    t = v["t"]
    if t == "null":
        out.append("null")
    elif t == "bool":
        out.append("b:true" if v["b"] else "b:false")
    elif t == "num":
        out.append(num_line(v["n"]))
    elif t == "str":
        out.append("s:" + esc_units(v["s"]))
    elif t == "arr":
        n = len(v["items"])
        out += ["o:Array(%d)" % n, "s:P:A", "n:%d" % (n + 1)]
        for i, x in enumerate(v["items"]):
            out += ["s:%d" % i, "n:15"]
            dump_lines(x, out)
        out += ["s:length", "n:9", "n:%d" % n]
    elif t == "obj":
        out += ["o:Object", "s:P:O", "n:%d" % len(v["props"])]
        for p in v["props"]:
            out += ["s:" + esc_units(p["k"]), "n:15"]
            dump_lines(p["v"], out)
    else:
        raise vlib.ToolError("unexpected model value " + json.dumps(v)[:100])
    return out


def lines_match(expected, actual):
    if len(expected) != len(actual):
        return False
    for e, a in zip(expected, actual):
        if e is None:
            if not a.startswith("n:"):
                return False
        elif e != a:
            return False
    return True


def value_features(v, acc):
    t = v["t"]
    if t == "num":
        if v["n"]["k"] == "inf":
            acc.add("inf")
    elif t == "str":
        if not well_formed(v["s"]):
            acc.add("lone")
    elif t == "arr":
        for x in v["items"]:
            value_features(x, acc)
    elif t == "obj":
        for p in v["props"]:
            if not well_formed(p["k"]):
                acc.add("lone")
            value_features(p["v"], acc)
    return acc


def well_formed(u):
    i = 0
    while i < len(u):
        c = u[i]
        if 0xD800 <= c <= 0xDBFF:
            if i + 1 < len(u) and 0xDC00 <= u[i + 1] <= 0xDFFF:
                i += 2
                continue
            return False
        if 0xDC00 <= c <= 0xDFFF:
            return False
        i += 1
    return True


JS_PRELUDE = r"""
var OP = Object.prototype, AP = Array.prototype, gp = Reflect.getPrototypeOf, ok = Reflect.ownKeys,
    gd = Reflect.getOwnPropertyDescriptor, P = JSON.parse, SF = JSON.stringify;
function D(v) {
  print(v);
  if (typeof v === "object" && v !== null) {
    var p = gp(v); print(p === OP ? "P:O" : p === AP ? "P:A" : "P:?");
    var ks = ok(v); print(ks.length);
    for (var i = 0; i < ks.length; i++) {
      var k = ks[i], d = gd(v, k);
      print(k); print((d.writable ? 1 : 0) + (d.enumerable ? 2 : 0) + (d.configurable ? 4 : 0) + ("value" in d ? 8 : 0));
      D(d.value);
    }
  }
}
function T(i, s) { print("@@", i); var v; try { v = P(s); } catch (e) { print("E", e); return; } D(v); }
function TR(i, s) { print("@@", i); var v; try { v = P(s, function (k, x) { print("K", k); return x; }); } catch (e) { print("E", e); return; } D(v); }
function S(i, mk, r, sp) {
  print("@@", i); var t;
  try { t = SF(mk(), r, sp); } catch (e) { print("E", e); return; }
  print(t);
  if (typeof t === "string") { var w; try { w = P(t); } catch (e) { print("PE", e); return; } D(w); }
}
"""

# ------------------------------------------------------------------------------------------------ rendering of model ECMAScript values

TOJ = {"key": "function(k){return k}", "undef": "function(){}", "num": "function(){return 7}",
       "x": "function(){return this.x}"}
REPFN = {"id": "function(k,v){return v}", "dropb": 'function(k,v){return k==="b"?undefined:v}',
         "numN": 'function(k,v){return typeof v==="number"?"N":v}', "wrap": 'function(k,v){return k===""?{w:v}:v}'}


def js_value(v):
    t = v["t"]
    if t == "undef":
        return "undefined"
    if t == "null":
        return "null"
    if t == "bool":
        return "true" if v["b"] else "false"
    if t == "num":
        n = v["n"]
        if n["k"] == "zero":
            return "-0" if n["neg"] else "0"
        if n["k"] == "nan":
            return "NaN"
        if n["k"] == "inf":
            return "-Infinity" if n["neg"] else "Infinity"
        s = "%d/%d" % (n["num"], n["den"]) if n["den"] != 1 else "%d" % n["num"]
        return "(-%s)" % s if n["neg"] else "(%s)" % s
    if t == "str":
        return js_string_literal(v["s"])
    if t == "fn":
        return "function(){}"
    if t == "sym":
        return 'Symbol("s")'
    if t == "big":
        return "10n"
    if t == "box":
        return "Object(%s)" % js_value(v["v"])
    if t == "arr":
        return "[" + ",".join(js_value(x) for x in v["items"]) + "]"
    if t == "obj":
        body = "({" + ",".join("[%s]:%s" % (js_string_literal(p["k"]), js_value(p["v"])) for p in v["props"]) + "})"
        if v["toj"] != "none":
            return 'Object.defineProperty(%s,"toJSON",{value:%s})' % (body, TOJ[v["toj"]])
        return body
    raise vlib.ToolError("unrenderable value " + json.dumps(v)[:100])


def js_replacer(r):
    if r["k"] == "none":
        return "undefined"
    if r["k"] == "list":
        return "[" + ",".join(js_value(x) for x in r["items"]) + "]"
    return REPFN[r["f"]]


# ------------------------------------------------------------------------------------------------ engine runs

def _run_chunk(args):
    binary, scen = args
    return vlib.run_lines(binary, scen)


def run_cases(bindir, calls, chunk=400, procs=6):
    """calls: list of (id, js call text).  Returns id -> list of printed lines | {"panic": ...}.
    Each chunk is one fresh context; a chunk that dies is re-run call by call so that a panic or abort is
    attributed to the one input that causes it."""
    binary = os.path.join(bindir, "hjs")
    scen = []
    for ci in range(0, len(calls), chunk):
        part = calls[ci:ci + chunk]
        src = JS_PRELUDE + "\n".join(c[1] for c in part)
        scen.append({"id": len(scen), "steps": [{"kind": "eval", "src": src}], "_ids": [c[0] for c in part]})
    groups = [scen[i::procs] for i in range(procs)]
    results = {}
    with cf.ProcessPoolExecutor(max_workers=procs) as ex:
        for res in ex.map(_run_chunk, [(binary, [{k: v for k, v in s.items() if k != "_ids"} for s in g]) for g in groups if g]):
            results.update(res)
    out = {}
    redo = []
    for s in scen:
        r = results.get(s["id"])
        lines = None
        if r and "steps" in r and r["steps"] and r["steps"][0].get("c", "").startswith("value:"):
            lines = r["steps"][0]["out"]
        if lines is None:
            redo.append(s)
            continue
        split_cases(lines, out)
        for i in s["_ids"]:
            if i not in out:
                redo.append(s)
                break
    if redo:
        byid = dict(calls)
        single = []
        for s in redo:
            for i in s["_ids"]:
                out.pop(i, None)
                single.append({"id": i, "steps": [{"kind": "eval", "src": JS_PRELUDE + byid[i]}]})
        res = vlib.run_lines(binary, single)
        for sc in single:
            r = res.get(sc["id"]) or {}
            if "steps" in r and r["steps"] and r["steps"][0].get("c", "").startswith("value:"):
                tmp = {}
                split_cases(r["steps"][0]["out"], tmp)
                out[sc["id"]] = tmp.get(sc["id"], ["<no output>"])
            else:
                out[sc["id"]] = {"panic": r.get("panic") or r.get("abort") or (r.get("steps") or [{}])[0].get("c", "?")}
    return out


def split_cases(lines, out):
    cur = None
    for ln in lines:
        if ln.startswith("s:@@ n:"):
            cur = int(ln[7:])
            out[cur] = []
        elif cur is not None:
            out[cur].append(ln)


# ------------------------------------------------------------------------------------------------ the check

CURATED = [
    # numbers
    "1e400", "-1e400", "1E+400", "[1e400]", "1.7976931348623159e308", "1.7976931348623157e308", "1e-400", "-1e-400",
    "-0", "-0.0", "0e0", "0E-0", "-0e1", "0.5", "1.5", "0.25", "25e-2", "15e-1", "100", "1e2", "1E2", "1e+2", "1e002",
    "01", "-01", "00", "1.", ".5", "-.5", "1.e1", "1e", "1e+", "+1", "--1", "- 1", "0x1", "0X1F", "0b1", "0o7", "1_0", "1n",
    "0.", "Infinity", "-Infinity", "NaN", "1e1.5", "1ee1", "1 2", "12 ", " 12", "1,2", "123456789", "0.000001", "1e0000000400",
    "0e999", "0.0e-999", "1e-0", "2e0", "9007199254740993", "1.0000000000000002", "0.1", "4.9e-324", "2.4e-324",
    # literals
    "true", "false", "null", "True", "NULL", "nul", "tru", "truee", "nulll", "undefined", "[undefined]", "truefalse", "true false",
    # strings
    '""', '"a"', '"\\n"', '"\\u0041"', '"\\u00e9"', '"\\ud800"', '"\\udc00"', '"\\ud83d\\ude00"', '"\\ude00\\ud83d"',
    '"\\ud800a"', '"\\uD800\\u0041"', '"\\u2028"', '"\\u0000"', '"\\u001f"', '"\\x41"', '"\\a"', "\"\\'\"", '"\\0"', '"\\v"',
    '"\\u{41}"', '"\\u004"', '"\\u00G1"', '"\\U0041"', '"\\', '"\\"', '"abc', "'a'", '"a" "b"', '"\\/"', '"/"', '"\\\\"',
    '"\t"', '"\n"', '"\r"', '"\x00"', '"\x1f"', '"\x7f"', '"\u2028"', '"\u2029"', '"\u00a0"', '"\ufeff"', '"\\\n"', '"\\\u2028"',
    '"\\u00e9\u00e9"', '"\\b\\f\\n\\r\\t\\"\\\\\\/"', '"\\1"', '"\\8"', '"\\ "',
    # whitespace
    " 1", "\t1", "\n1\r", "\u00a01", "1\u00a0", "\ufeff1", "1\ufeff", "\u20281", "1\u2029", "\x0b1", "\x0c1", "1\x0b", "\u30001",
    "", " ", "\n", "[\u00a0]", "[\ufeff1]", "{\u2028}", "[1,\u00a02]",
    # structure
    "[]", "{}", "[ ]", "{ }", "[1,]", "[,1]", "[,]", "[1,,2]", "[1 2]", "{,}", '{"a":1,}', '{"a"}', '{"a":}', '{"a" 1}',
    '{a:1}', "{'a':1}", '{1:1}', '{"a":1 "b":2}', '{"a":1,,"b":2}', "[", "]", "{", "}", "[}", "{]", "[1}", '{"a":1]', "[[]", "[]]",
    "[[[[[[[[1]]]]]]]]", '{"a":{"a":{"a":{"a":[]}}}}', "[1]x", "x[1]", "[1];", "(1)", "1;", "[1]//c", "/*c*/1", "[1/*c*/]", "1//",
    "[1]\n", '{"a":1}{"b":2}', "[][]", '"a":1', ":", ",", "[:]", '["a":1]',
    # keys: order, duplicates, __proto__
    '{"b":1,"a":2}', '{"b":1,"a":2,"b":3}', '{"a":1,"a":2,"a":3}', '{"2":0,"1":0,"a":0,"0":0}', '{"a":0,"10":0,"9":0,"01":0,"1":0}',
    '{"4294967294":1,"4294967295":2,"4294967296":3,"1":4}', '{"-1":0,"1":0,"0":0,"1.5":0}', '{"b":0,"1":1,"b":2,"1":3}',
    '{"__proto__":1}', '{"__proto__":null}', '{"__proto__":{"x":1},"a":2}', '{"__proto__":[],"__proto__":2}', '{"a":1,"__proto__":{"a":2}}',
    '[{"__proto__":[]}]', '{"constructor":1,"toString":2,"hasOwnProperty":3}', '{"":1}', '{"":1,"":2}', '{"\\u0061":1,"a":2}',
    '{"\\ud800":1}', '{"\\ud83d\\ude00":1,"\ud83d\ude00":2}', '{"a\\u0000b":1}', '{"length":1}', '[{"length":5}]',
    '{"a":{"b":1,"a":2,"b":3},"a":[1,{"c":1,"c":2}]}', '{"a":[],"a":{}}', '[{"a":1,"a":2},{"a":3}]',
]
# raw lone surrogates (cannot be written in a Python str literal portably): as unit lists
CURATED_UNITS = [
    [34, 0xD800, 34], [34, 0xDC00, 34], [34, 0xD83D, 0xDE00, 34], [34, 0xDE00, 0xD83D, 34], [34, 97, 0xDBFF, 98, 34],
    [0xD800], [91, 0xD800, 93], [34, 0xD83D, 92, 117, 100, 101, 48, 48, 34], [34, 92, 117, 100, 56, 51, 100, 0xDE00, 34],
    [123, 34, 0xD800, 34, 58, 49, 125], [34, 0xFFFF, 0xFFFE, 34],
]

MUT_UNITS = [91, 93, 123, 125, 58, 44, 32, 9, 10, 13, 0xA0, 0xFEFF, 0x2028, 0x2029, 0x0B, 0x0C, 0, 0x1F, 0x7F,
             48, 49, 57, 45, 43, 46, 101, 69, 34, 39, 92, 116, 102, 110, 117, 120, 97, 47, 42, 0xD800, 0xDC00, 0xE9, 95, 40]

WITNESS = {   # canonical minimal witnesses of the known defects (always part of the curated list)
    "inf": ("number-overflow", [[49], [101], [52], [48], [48]], ["DIGIT", "EXP", "DIGIT", "ZERO", "ZERO"]),
    "esc-lone": ("escaped-lone-surrogate", [[34], [92, 117, 100, 56, 48, 48], [34]], ["QUOTE", "U4HI", "QUOTE"]),
    "raw-lone": ("raw-lone-surrogate", [[34], [0xD800], [34]], ["QUOTE", "SURR", "QUOTE"]),
}


def run(tier, replay=None):
    ck = vlib.Check("C18", tier, "model_checking", replay)
    os.makedirs(WORKDIR, exist_ok=True)
    quick = tier == "quick"
    seed = vlib.seed()
    bindir = vlib.build_harness(["hjs"])

    # ---------------------------------------------------------------- TLC: pass 1, simulation, pass S
    jobs = {
        "p1": dict(mod="MCJsonGrammar.tla", cfg="MCJsonGrammar_quick.cfg" if quick else "MCJsonGrammar_thorough.cfg",
                   workers=4 if quick else 8),
        "p1sim": dict(mod="MCJsonGrammar.tla", cfg="MCJsonGrammar_sim.cfg", workers=1,
                      simulate=100 if quick else 400, depth=26, tseed=18),
        "p1seed": dict(mod="MCJsonGrammar.tla", cfg="MCJsonGrammar_sim.cfg", workers=1,
                       simulate=40 if quick else 300, depth=26, tseed=1000 + seed),
        "sbfs": dict(mod="MCJsonStringify.tla", cfg="MCJsonStringify_quick.cfg" if quick else "MCJsonStringify_thorough.cfg",
                     workers=3 if quick else 4),
        "ssim": dict(mod="MCJsonStringify.tla", cfg="MCJsonStringify_simq.cfg" if quick else "MCJsonStringify_simt.cfg",
                     workers=1, simulate=100 if quick else 300, depth=80, tseed=18),
        "sseed": dict(mod="MCJsonStringify.tla", cfg="MCJsonStringify_simq.cfg" if quick else "MCJsonStringify_simt.cfg",
                      workers=1, simulate=30 if quick else 200, depth=80, tseed=1000 + seed),
    }
    if not quick:      # more deterministic simulation, spread over processes (one worker each keeps a seed reproducible)
        for n, sd in (("p1sim2", 19), ("p1sim3", 20)):
            jobs[n] = dict(jobs["p1sim"], tseed=sd)
        for n, sd in (("ssim2", 19), ("ssim3", 20)):
            jobs[n] = dict(jobs["ssim"], tseed=sd)

    def tlc(name):
        j = jobs[name]
        cache = os.environ.get("C18_DEVCACHE")       # development only: reuse TLC output of an earlier run
        cpath = cache and os.path.join(cache, "%s-%s-%s-%s.json" % (name, j["cfg"], j.get("tseed"), j.get("simulate")))
        if cpath and os.path.exists(cpath):
            return json.load(open(cpath))
        r = vlib.run_tlc(os.path.join(SPECDIR, j["mod"]), j["cfg"], workers=j["workers"], simulate=j.get("simulate"),
                         depth=j.get("depth"), tseed=j.get("tseed"), coverage=j.get("coverage", False),
                         timeout=900 if quick else 2400)
        vlib.tlc_must_pass(r, name + " " + j["cfg"])
        if cpath:
            json.dump(r, open(cpath, "w"))
        return r

    t0 = time.time()
    tl = {}
    # quick: all TLC runs side by side; thorough: the big enumeration plus three single-worker runs at a time
    with cf.ThreadPoolExecutor(max_workers=len(jobs) if quick else 4) as ex:
        futs = {}
        for n in jobs:
            futs[n] = ex.submit(tlc, n)
            time.sleep(0.15)      # distinct metadir names
        for n, f in futs.items():
            tl[n] = f.result()
    vlib.log("[C18] TLC passes 1/S done in %.1fs: " % (time.time() - t0)
             + ", ".join("%s=%d states/%.0fs" % (n, tl[n]["distinct"], tl[n]["wall"]) for n in tl))
    ck.cov["checker_cmd"] = tl["p1"]["cmd"]
    states = sum(tl[n]["distinct"] for n in ("p1", "sbfs"))
    transitions = sum(tl[n]["states"] for n in tl)

    reps = None
    live = []                      # pass-1 records
    for tag, o in tl["p1"]["tagged"]:
        if tag == "REPS":
            reps = o
        elif tag == "CASE":
            live.append(o)
    if reps is None or len(live) != tl["p1"]["distinct"]:
        raise vlib.ToolError("pass 1: expected one CASE per distinct state (%d) and the REPS table" % tl["p1"]["distinct"])
    simrecs = {}
    for n in [j for j in jobs if j.startswith("p1s")]:
        for tag, o in tl[n]["tagged"]:
            if tag == "CASE" and len(o["t"]) >= 8:
                simrecs.setdefault(tuple(o["t"]), o)
    trees = {}
    for n in [j for j in jobs if j.startswith("s")]:
        for tag, o in tl[n]["tagged"]:
            if tag == "TREE":
                trees.setdefault(json.dumps([o["v"], o["rep"], o["space"]], sort_keys=True), o)
    trees = list(trees.values())

    model_coverage(live + list(simrecs.values()), reps, trees)
    canon = {c: reps[c][0] for c in reps}
    selfins = [c for c in reps if c not in ("QUOTE", "ESC", "U4", "U4HI", "U4LO", "BADESC", "CTL", "WSC")]
    selfins_reps = [r for c in sorted(selfins) for r in reps[c]]

    # ---------------------------------------------------------------- parse cases
    # case: dict(id, toks (list of unit lists), cls (class string or None), exp: "reject"|"accept"|None (ask pass 2),
    #            val: model value or None (ask pass 2), origin)
    cases = []

    def add_case(toks, cls, exp, val, origin, rev=None):
        cases.append({"id": len(cases), "toks": toks, "cls": cls, "exp": exp, "val": val, "origin": origin, "rev": rev})

    rot = [0]

    def variant(cls_seq, k, instr):
        """k-th alternative rendering: representative (k + position) mod n of each class; PLAIN tokens of a live
        prefix are inside strings and may be any self-inserting token."""
        out = []
        for i, c in enumerate(cls_seq):
            if c == "PLAIN" and instr:
                rot[0] += 1
                out.append(selfins_reps[(rot[0] * 7 + k) % len(selfins_reps)])
            else:
                rs = reps[c]
                out.append(rs[(k + i) % len(rs)] if len(rs) > 1 else rs[0])
        return out

    nvar = 2
    maxlen = max(len(o["t"]) for o in live)
    kill_rot = 0
    for o in live:
        cls_seq = o["t"]
        ctoks = [canon[c] for c in cls_seq]
        add_case(ctoks, cls_seq, "accept" if o["acc"] else "reject", o["val"] if o["acc"] else None, "enum", o["rev"])
        seen = {json.dumps(ctoks)}
        for k in range(1, (nvar if quick or o["acc"] or len(cls_seq) < maxlen else 1) + 1):
            # alternatives of an accepted string may use any self-inserting token inside strings (pass 2 gives the
            # value); alternatives of a string rejected at end of text stay inside the classes (rejected by class)
            vt = variant(cls_seq, k, o["acc"])
            key = json.dumps(vt)
            if key in seen:
                continue
            seen.add(key)
            # accepted variants get their value from pass 2; rejected ones are rejected by class
            add_case(vt, cls_seq, "accept" if o["acc"] else "reject", None, "variant")
        # one more token that kills the prefix, alone and followed by the completion of the prefix
        kills = o["kills"]
        comp = [canon[c] for c in o["comp"]]
        if not quick and len(cls_seq) == maxlen:
            # thorough tier, longest level: a rotating quarter of the kill classes per prefix
            kills = [c for j, c in enumerate(sorted(kills)) if (j + kill_rot) % 4 == 0]
            kill_rot += 1
        for c in kills:
            rs = reps[c]
            kill_rot += 1
            kt = rs[kill_rot % len(rs)]
            add_case(ctoks + [kt], cls_seq + [c], "reject", None, "kill")
            if comp:
                add_case(ctoks + [kt] + comp, None, "reject", None, "kill+completion")
    for cls_seq, o in simrecs.items():
        cls_seq = list(cls_seq)
        full = cls_seq + o["comp"]
        add_case([canon[c] for c in full], None, None, None, "sim")
        add_case(variant(cls_seq, 1, True) + [canon[c] for c in o["comp"]], None, None, None, "sim-variant")
        if o["kills"]:
            c = sorted(o["kills"])[len(cls_seq) % len(o["kills"])]
            add_case([canon[x] for x in cls_seq] + [reps[c][len(cls_seq) % len(reps[c])]] + [canon[x] for x in o["comp"]],
                     None, "reject", None, "sim-kill")
    cur_units = [[ord(ch) for ch in s] for s in CURATED] + CURATED_UNITS + [sum(w[1], []) for w in WITNESS.values()]
    for u in cur_units:
        add_case(segments(u), None, None, None, "curated")
    # mutations of valid texts: deterministic part + VERIF_SEED part
    valid_pool = [sum(c["toks"], []) for c in cases if c["exp"] == "accept" and c["origin"] in ("enum", "variant")]
    valid_pool += [sum(c["toks"], []) for c in cases if c["origin"] == "sim"]
    valid_pool += [t["out"]["s"] for t in trees if t["out"]["r"] == "str" and t["gapws"]]
    valid_pool.sort()
    nmut = (1500, 600) if quick else (12000, 5000)
    for rs, count, origin in ((18, nmut[0], "mutation"), (100000 + seed, nmut[1], "mutation-seeded")):
        rng = random.Random(rs)
        for _ in range(count):
            u = list(rng.choice(valid_pool))
            for _ in range(rng.choice((1, 1, 1, 2, 3))):
                op = rng.randrange(5)
                pos = rng.randrange(len(u) + 1)
                if op == 0 and u:
                    del u[min(pos, len(u) - 1)]
                elif op == 1:
                    u.insert(pos, rng.choice(MUT_UNITS))
                elif op == 2 and u:
                    u[min(pos, len(u) - 1)] = rng.choice(MUT_UNITS)
                elif op == 3 and u:
                    p = min(pos, len(u) - 1)
                    u.insert(p, u[p])
                elif len(u) >= 2:
                    p = min(pos, len(u) - 2)
                    u[p], u[p + 1] = u[p + 1], u[p]
            add_case(segments(u), None, None, None, origin)

    # ---------------------------------------------------------------- stringify cases
    scases = []
    for t in trees:
        scases.append({"id": len(cases) + len(scases), "tree": t})

    calls = []
    for c in cases:
        calls.append((c["id"], "T(%d,%s);" % (c["id"], js_string_literal(sum(c["toks"], [])))))
    for s in scases:
        t = s["tree"]
        calls.append((s["id"], "S(%d,function(){return %s},%s,%s);" % (s["id"], js_value(t["v"]), js_replacer(t["rep"]),
                                                                     js_value(t["space"]))))
    # identity reviver on a slice of the accepted texts (InternalizeJSONProperty must rebuild the same structure)
    rev = [c for c in cases if c["exp"] == "accept" and c["origin"] == "enum"]
    rev = rev[::max(1, len(rev) // (300 if quick else 3000))]
    rev += [c for c in cases if c["origin"] in ("curated", "sim")]
    rbase = len(cases) + len(scases)
    rcases = []
    for c in rev:
        rid = rbase + len(rcases)
        rcases.append({"id": rid, "of": c["id"]})
        calls.append((rid, "TR(%d,%s);" % (rid, js_string_literal(sum(c["toks"], [])))))

    t1 = time.time()
    got = run_cases(bindir, calls, procs=6 if quick else 8)
    vlib.log("[C18] engine: %d JSON.parse texts, %d stringify cases, %d reviver runs in %.1fs"
             % (len(cases), len(scases), len(rcases), time.time() - t1))

    # ---------------------------------------------------------------- pass 2: the machine on concrete tokens
    p2 = []          # (key, toks)
    for c in cases:
        if c["exp"] is None or (c["exp"] == "accept" and c["val"] is None):
            p2.append((("c", c["id"]), c["toks"]))
    for s in scases:
        g = got.get(s["id"])
        s["text_units"] = None
        if isinstance(g, list) and g and g[0].startswith("s:") and s["tree"]["gapws"]:
            u = unescape_units(g[0][2:])
            s["text_units"] = u
            p2.append((("s", s["id"]), segments(u)))
    inp = os.path.join(WORKDIR, "pass2-%d.ndjson" % os.getpid())
    with open(inp, "w") as f:
        for n, (key, toks) in enumerate(p2):
            f.write(json.dumps({"id": n, "t": toks}) + "\n")
    t2 = time.time()
    r2 = vlib.run_tlc(os.path.join(SPECDIR, "JsonGrammarRun.tla"), "JsonGrammarRun.cfg", workers=6 if quick else 8,
                      env_extra={"C18_INPUT": inp}, timeout=900 if quick else 2400)
    vlib.tlc_must_pass(r2, "JsonGrammarRun (pass 2)")
    os.unlink(inp)
    outs = {}
    for tag, o in r2["tagged"]:
        if tag == "OUT":
            outs[o["id"]] = o
    if len(outs) != len(p2):
        raise vlib.ToolError("pass 2 answered %d of %d token sequences" % (len(outs), len(p2)))
    vlib.log("[C18] pass 2: %d token sequences (%d tokens) in %.1fs" % (len(p2), sum(len(t) for _, t in p2), time.time() - t2))
    transitions += r2["states"] + sum(len(t) for _, t in p2)
    sval = {}
    for n, (key, toks) in enumerate(p2):
        o = outs[n]
        if key[0] == "c":
            c = cases[key[1]]
            if c["exp"] is not None and (c["exp"] == "accept") != o["acc"]:
                raise vlib.ToolError("model inconsistency: class string %s accepted=%s but its variant %s accepted=%s"
                                     % (c["cls"], c["exp"], c["toks"], o["acc"]))
            c["exp"] = "accept" if o["acc"] else "reject"
            c["val"] = o["val"] if o["acc"] else None
            c["rev"] = o["rev"]
        else:
            sval[key[1]] = o

    # ---------------------------------------------------------------- comparison: JSON.parse
    nontrivial = 0
    evals = 0
    fails = []       # (case, kind, detail)
    for c in cases:
        g = got.get(c["id"])
        evals += 1
        if is_nontrivial(c):
            nontrivial += 1
        kind = judge_parse(c, g)
        if kind:
            fails.append((c, kind, g))
    byid = {c["id"]: c for c in cases}
    for rc in rcases:
        c = byid[rc["of"]]
        evals += 1
        kind = judge_parse(c, got.get(rc["id"]), reviver=True)
        if kind:
            fails.append((c, "reviver:" + kind, got.get(rc["id"])))

    # known defects: active only while the canonical witness fails in the same way in this very run
    active = {}
    for feat, (name, toks, cls) in WITNESS.items():
        wc = [c for c in cases if c["origin"] == "curated" and c["toks"] == toks]
        if not wc:
            raise vlib.ToolError("witness case missing: " + name)
        g = got.get(wc[0]["id"])
        active[feat] = judge_parse(wc[0], g) == "reject-valid"
    reported = {}
    pending = []          # (js call, original observation, signature, detail): re-run in a fresh context before reporting
    for c, kind, g in sorted(fails, key=lambda f: (len(f[0]["toks"]), f[0]["id"])):
        feat = None
        base = kind.split(":")[-1]
        if base == "reject-valid":
            feat = failing_feature(c)
        if feat and active.get(feat):
            name, wt, wcls = WITNESS[feat]
            ck.failure(known_sig(name, wcls), {"text_units": sum(c["toks"], []), "witness_tokens": wt})
            continue
        sig = "%s text=%s%s" % (kind, esc_units(sum(c["toks"], [])), (" classes=" + " ".join(c["cls"])) if c["cls"] else "")
        reported.setdefault(kind, 0)
        reported[kind] += 1
        if reported[kind] <= 12:
            fn = "TR" if kind.startswith("reviver:") else "T"
            pending.append(("%s(0,%s);" % (fn, js_string_literal(sum(c["toks"], []))), g, sig,
                            {"tokens": c["toks"], "origin": c["origin"], "model": {"verdict": c["exp"], "value": c["val"]},
                             "engine": g if not isinstance(g, list) else g[:40],
                             "js": "JSON.parse(%s)" % js_string_literal(sum(c["toks"], []))}))
    for k, n in reported.items():
        if n > 12:
            vlib.log("[C18] %d further failures of kind %s not listed separately" % (n - 12, k))

    # ---------------------------------------------------------------- comparison: JSON.stringify
    s_evals = s_nontrivial = 0
    sreported = 0
    for s in scases:
        t = s["tree"]
        g = got.get(s["id"])
        s_evals += 1
        if t["v"]["t"] in ("arr", "obj") or t["rep"]["k"] != "none":
            s_nontrivial += 1
        kind, detail = judge_stringify(s, g, sval.get(s["id"]))
        if kind == "parse-of-output-throws" and active.get("esc-lone") and g[1] == "s:PE o:Error:SyntaxError" \
                and "lone" in value_features(sval[s["id"]]["val"], set()):
            # JSON.parse rejecting the (valid) escaped lone surrogate that JSON.stringify correctly wrote
            name, wt, wcls = WITNESS["esc-lone"]
            ck.failure(known_sig(name, wcls), {"text_units": s["text_units"], "witness_tokens": wt, "via": "parse(stringify(v))"})
            continue
        if kind:
            sreported += 1
            if sreported <= 12:
                pending.append(("S(0,function(){return %s},%s,%s);" % (js_value(t["v"]), js_replacer(t["rep"]), js_value(t["space"])), g,
                                "stringify:%s JSON.stringify(%s, %s, %s)" % (kind, js_value(t["v"]), js_replacer(t["rep"]), js_value(t["space"])),
                                {"model": t["out"], "engine": g if not isinstance(g, list) else g[:40], "detail": detail}))
    # every failure is repeated alone on a fresh context; one that does not reproduce is a tool error, not a violation
    if pending:
        again = run_cases(bindir, [(n, p[0].replace("(0,", "(%d," % n, 1)) for n, p in enumerate(pending)], chunk=1, procs=4)
        for n, (call, g, sig, detail) in enumerate(pending):
            if again.get(n) != g:
                raise vlib.ToolError("non-reproducible observation for %s: %s vs %s" % (call[:200], str(g)[:200], str(again.get(n))[:200]))
            ck.failure(sig, detail)
    for s in scases[:: max(1, len(scases) // 3)][:3]:
        ck.sample({"stringify": "JSON.stringify(%s, %s, %s)" % (js_value(s["tree"]["v"]), js_replacer(s["tree"]["rep"]),
                                                              js_value(s["tree"]["space"])),
                   "expected_units": s["tree"]["out"].get("s", s["tree"]["out"]["r"])})
    for c in [c for c in cases if c["origin"] == "enum" and c["exp"] == "accept"][-2:]:
        ck.sample({"parse": esc_units(sum(c["toks"], [])), "classes": c["cls"], "value": c["val"]})

    accepted = sum(1 for c in cases if c["exp"] == "accept")
    ck.cov.update(states=states + r2["distinct"], transitions=transitions,
                  traces_validated_against_impl=len(cases) + len(scases) + len(rcases),
                  evaluations=evals + s_evals, distinct_nontrivial=nontrivial + s_nontrivial,
                  live_class_strings=len(live), max_class_string_len=maxlen, parse_texts=len(cases),
                  parse_texts_accepted_by_model=accepted, stringify_cases=len(scases), reviver_runs=len(rcases),
                  pass2_token_sequences=len(p2), simulated_prefixes=len(simrecs),
                  rule="parse: one text per live class string (canonical + alternative representatives), per killing token "
                       "(alone and followed by the prefix's completion), per completed simulation prefix, curated edge text and "
                       "seeded mutation; non-trivial = text containing a string/number edge token (escape, surrogate, control, "
                       "non-JSON space, exponent/fraction/sign/leading zero) or nesting (a container inside a container or a "
                       "member). stringify: one case per (value tree, replacer, space); non-trivial = container value or replacer")
    floor = (60000, 1500) if quick else (400000, 8000)
    if nontrivial < floor[0] or s_nontrivial < floor[1]:
        raise vlib.ToolError("vacuity guard: %d non-trivial parse texts (floor %d), %d non-trivial stringify cases (floor %d)"
                             % (nontrivial, floor[0], s_nontrivial, floor[1]))
    if accepted < (3000 if quick else 30000):
        raise vlib.ToolError("vacuity guard: only %d texts accepted by the model" % accepted)
    ck.assumptions += [
        "number values outside the model's exact domain (NumValue = out) are only checked for acceptance and for being a Number (C13 owns rounding)",
        "inside strings all self-inserting token classes are enumerated as PLAIN and rendered with representatives of every such class",
        "thorough tier: at most MaxWs whitespace and MaxBody string-body tokens per enumerated class string; killing tokens are sampled (one quarter per prefix) at the longest level",
        "stringify output with a gap that is not JSON whitespace is compared as text only (it is not a JSON text by design)",
        "nesting depth limits of the implementation are not explored (texts here nest at most 26 deep)",
    ]
    return ck.finish()


# ------------------------------------------------------------------------------------------------ judging

def known_sig(name, witness_classes):
    return "reject-valid feature=%s witness=%s" % (name, " ".join(witness_classes))


def unescape_units(s):
    """Inverse of esc_units."""
    out = []
    i = 0
    while i < len(s):
        ch = s[i]
        if ch == "\\":
            if s[i + 1] == "\\":
                out.append(0x5C); i += 2
            elif s[i + 1] == "u":
                out.append(int(s[i + 2:i + 6], 16)); i += 6
            else:
                raise vlib.ToolError("bad escape in native rendering: " + s[:60])
        else:
            out.append(ord(ch)); i += 1
    return out


EDGE_UNITS = set([92, 9, 10, 13, 0xA0, 0xFEFF, 0x2028, 0x2029, 0x0B, 0x0C, 0, 0x1F, 45, 43, 46, 101, 69])


def is_nontrivial(c):
    depth = 0
    nest = False
    prev0 = False
    for t in c["toks"]:
        if len(t) > 1 and t[0] == 92:
            return True
        u = t[0]
        if u in EDGE_UNITS or 0xD800 <= u <= 0xDFFF or u < 0x20:
            return True
        if prev0 and 48 <= u <= 57:
            return True
        prev0 = (u == 48)
        if u in (91, 123):
            depth += 1
            if depth >= 2:
                nest = True
        elif u in (93, 125):
            depth -= 1
        elif u == 58:
            nest = True
    return nest


def judge_parse(c, g, reviver=False):
    """None if the engine's observation is what the model prescribes, else the kind of failure.  With reviver: the
    observation starts with the names the logging identity reviver was called with (ReviverCalls of the model)."""
    if g is None:
        raise vlib.ToolError("no observation for case %d" % c["id"])
    if isinstance(g, dict):
        return "panic"
    if c["exp"] == "reject":
        if g == ["s:E o:Error:SyntaxError"]:
            return None
        if g and g[0].startswith("s:E "):
            return "wrong-error"
        return "accept-invalid"
    if g and g[0].startswith("s:E "):
        return "reject-valid" if g == ["s:E o:Error:SyntaxError"] else "wrong-error"
    exp = dump_lines(c["val"], [])
    if reviver:
        calls = ["s:K s:" + esc_units(k) for k in c["rev"]]
        if g[:len(calls)] != calls or (len(g) > len(calls) and g[len(calls)].startswith("s:K ")):
            return "wrong-reviver-calls"
        g = g[len(calls):]
    return None if lines_match(exp, g) else "wrong-value"


def failing_feature(c):
    u = sum(c["toks"], [])
    if not well_formed(u):
        return "raw-lone"
    f = value_features(c["val"], set()) if c["val"] else set()
    if "lone" in f:
        return "esc-lone"
    if "inf" in f:
        return "inf"
    return None


def judge_stringify(s, g, p2out):
    t = s["tree"]
    out = t["out"]
    if g is None:
        raise vlib.ToolError("no observation for stringify case %d" % s["id"])
    if isinstance(g, dict):
        return "panic", g
    if out["r"] == "throw":
        return (None, None) if g == ["s:E o:Error:TypeError"] else ("expected-TypeError", None)
    if out["r"] == "undef":
        return (None, None) if g == ["u"] else ("expected-undefined", None)
    if not g or not g[0].startswith("s:"):
        return "expected-text", None
    if g[0] != "s:" + esc_units(out["s"]):
        return "text-differs", {"expected": esc_units(out["s"]), "actual": g[0][2:]}
    if not t["gapws"]:
        return None, None
    if p2out is None:
        raise vlib.ToolError("stringify output was not run through pass 2")
    if not p2out["acc"]:
        return "output-not-json", None           # cannot happen when the text equals the model's (model gate)
    if len(g) >= 2 and g[1].startswith("s:PE"):
        return "parse-of-output-throws", None
    if not lines_match(dump_lines(p2out["val"], []), g[1:]):
        return "parse-of-output-differs", {"model_value": p2out["val"]}
    return None, None


ALL_MODES = {"start", "arr1", "arrn", "objv", "nzero", "nint", "nfrac", "nexpd", "nminus", "ndot", "nexp", "nexps",
             "obj1", "objk", "colon", "after", "str"}


def model_coverage(live, reps, trees):
    """Vacuity control on the models themselves (counters kept in the emitted records): every control mode of the
    recogniser is reached, every token class is consumed by some live string and kills some other, every shape,
    toJSON behaviour, replacer kind and result kind of the Stringify builder occurs."""
    modes = {o["mode"] for o in live}
    used = {c for o in live for c in o["t"]}
    killing = {c for o in live for c in o["kills"]}
    never_live = {"UWS", "LS", "CTL", "BADESC"}       # illegal everywhere, or rendered as alternatives of PLAIN
    missing = (ALL_MODES - modes) | {c for c in reps if c not in used and c not in never_live} | (set(reps) - killing)
    if missing:
        raise vlib.ToolError("model coverage: never reached/used/killing: %s" % sorted(missing))
    kinds = set()

    def walk(v):
        kinds.add(v["t"])
        if v["t"] == "obj":
            kinds.add("toj:" + v["toj"])
            for p in v["props"]:
                walk(p["v"])
        elif v["t"] == "arr":
            for x in v["items"]:
                walk(x)
    for t in trees:
        walk(t["v"])
        kinds.add("rep:" + t["rep"]["k"] + ":" + t["rep"].get("f", ""))
        kinds.add("out:" + t["out"]["r"])
        kinds.add("gap:" + ("ws" if t["gapws"] else "other") + (":empty" if not t["gap"] else ""))
    want = {"undef", "null", "bool", "num", "str", "fn", "sym", "big", "box", "arr", "obj", "toj:none", "toj:key", "toj:undef",
            "toj:num", "toj:x", "rep:none:", "rep:list:", "rep:fn:id", "rep:fn:dropb", "rep:fn:numN", "rep:fn:wrap",
            "out:str", "out:undef", "out:throw", "gap:ws", "gap:ws:empty", "gap:other"}
    if want - kinds:
        raise vlib.ToolError("stringify model coverage: never built: %s" % sorted(want - kinds))
    # cases whose text depends on the clamping of the gap to ten units
    clamp = 0
    for t in trees:
        sp = t["space"]["v"] if t["space"]["t"] == "box" else t["space"]
        beyond = (sp["t"] == "num" and sp["n"]["k"] == "rat" and sp["n"]["num"] > 10 * sp["n"]["den"]) or \
                 (sp["t"] == "num" and sp["n"]["k"] == "inf" and not sp["n"]["neg"]) or (sp["t"] == "str" and len(sp["s"]) > 10)
        if beyond and t["out"]["r"] == "str" and 10 in t["out"]["s"]:
            clamp += 1
    if clamp < 40:
        raise vlib.ToolError("stringify model coverage: only %d cases depend on the gap clamp" % clamp)
