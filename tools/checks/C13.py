"""C13 - Number <-> text conversions are exact.
Model: spec/text/Numeric.tla over spec/common/BigNat.tla (exact arithmetic).
  * number -> text (mode A): TLC runs the free-format digit-generation state machine for every double of the
    structured domain, checks its loop invariants, round-trip and shortness on the model, and emits the expected
    String(x) / toFixed / toExponential / toPrecision / toString(radix) texts; hjs evaluates the same in boa.
  * text -> number (mode B): boa's results for Number(t), parseFloat(t), a literal in source and parseInt are
    recorded as bit patterns and validated by TLC against IsCorrectlyRounded (exact comparison with the two
    rounding midpoints)."""
import json, os, random, struct
from fractions import Fraction
import vlib

SPEC = os.path.join(vlib.SPEC, "text", "Numeric.tla")


def bn(n):
    out = []
    while n:
        out.append(n % 10000)
        n //= 10000
    return out


def bits_of(x):
    return struct.unpack(">Q", struct.pack(">d", x))[0]


def from_bits(b):
    return struct.unpack(">d", struct.pack(">Q", b))[0]


def dbl_rec(b):
    return {"s": b >> 63, "e": (b >> 52) & 0x7FF, "m": bn(b & ((1 << 52) - 1))}


def exact(b):
    """Exact value of a finite double given by bits, as a Fraction (>= 0 part only)."""
    e = (b >> 52) & 0x7FF
    m = b & ((1 << 52) - 1)
    f, ee = (m, -1074) if e == 0 else (m + (1 << 52), e - 1075)
    return Fraction(f) * (Fraction(2) ** ee)


def structured_doubles(tier, rnd):
    """Bit patterns of the structured domain (positive; a few are mirrored to negative)."""
    bs = set()
    lim = 60 if tier == "quick" else 90

    def around(x, k=1):
        b = bits_of(x)
        for d in range(-k, k + 1):
            if 0 < b + d < 0x7FF0000000000000:
                bs.add(b + d)
    for p in range(-lim, lim + 1, 1 if tier != "quick" else 3):
        around(2.0 ** p)
    for p in range(-22, 23):
        around(float("1e%d" % p))
    for x in (2.0 ** 53, 2.0 ** 53 - 1, 2.0 ** 52, 1e21, 1e21 - 131072, 1e-6, 1e-7, 0.000001, 123456789012345680000.0,
              0.1, 0.2, 0.3, 1 / 3, 2 / 3, 0.5, 1.5, 2.5, 3.5, 0.25, 1.25, 1.75, 1.005, 1.45, 8.345, 4.35, 0.045, 1.0000000000000002,
              0.15, 0.35, 0.55, 1.55, 10.5, 99.5, 999.5, 0.95, 0.995, 9.5, 9.995, 1e-10, 123.456, 5e-7, 4.999999999999999e-7,
              255.0, 4294967295.0, 4294967296.0, 1e15 + 0.5, 35.0, 36.0 ** 5, 1e20, 9.5e20):
        around(x, 1 if tier != "quick" else 0)
        bs.add(bits_of(x))
    extremes = [1, 2, 0x000FFFFFFFFFFFFF, 0x0010000000000000, 0x0010000000000001, 0x7FEFFFFFFFFFFFFF, 0x7FE0000000000000]
    if tier == "quick":
        extremes = [1, 0x0010000000000000, 0x7FEFFFFFFFFFFFFF]
    bs.update(extremes)
    n_rand = 120 if tier == "quick" else 1500
    for _ in range(n_rand):
        e = rnd.randrange(1023 - lim, 1023 + lim)
        bs.add((e << 52) | rnd.getrandbits(52))
    out = sorted(bs)
    neg = [b | (1 << 63) for b in out[::17]]
    specials = [0, 1 << 63, 0x7FF0000000000000, 0xFFF0000000000000, 0x7FF8000000000000]
    return out + neg + specials


def fmt_case(cid, b, tier, rnd):
    x = from_bits(b)
    fin = x == x and abs(x) != float("inf")
    integral = fin and x == int(x) and abs(x) < 2 ** 53
    small = fin and abs(x) < 1e21
    big_digits = [20, 21] if tier == "quick" else [20, 21, 50, 100]
    extreme = fin and x != 0 and not (1e-100 < abs(x) < 1e100)
    fixed = ([0, 1, 2, 3, 7] + ([] if extreme else big_digits[:2 if tier == "quick" else 4])) if small else []
    if extreme:
        fixed = [0, 2] if small else []
    expo = [0, 1, 2, 5, 16] + ([] if tier == "quick" else [20, 40]) if fin else []
    prec = [1, 2, 3, 7, 16, 17, 21] + ([] if tier == "quick" else [50, 100]) if fin else []
    if extreme:
        expo, prec = [0, 1, 16], [1, 2, 17]
    radix = sorted({2, 8, 16, 36, rnd.randrange(2, 37)}) if integral else []
    return {"id": cid, "kind": "fmt", "x": dbl_rec(b), "bits": b, "fixed": fixed, "expo": expo, "prec": prec,
            "radix": radix, "int": bn(abs(int(x))) if integral else []}


JS_FMT_PRELUDE = r"""
var ab = new ArrayBuffer(8), dv = new DataView(ab);
function mk(hi, lo) { dv.setUint32(0, hi, false); dv.setUint32(4, lo, false); return dv.getFloat64(0, false); }
function bitsOf(y) { dv.setFloat64(0, y, false); return [dv.getUint32(0, false), dv.getUint32(4, false)]; }
function fmt(id, hi, lo, fixed, expo, prec, radix) {
  var x = mk(hi, lo);
  var s = String(x);
  print("S", id, s, "" + x, `${x}`, x.toString(), x.toString(10));
  var back = bitsOf(Number(s));
  print("R", id, back[0], back[1], Object.is(Number(s), x), Object.is(parseFloat(s), x), Object.is(+s, x));
  for (var i = 0; i < fixed.length; i++) print("F", id, fixed[i], x.toFixed(fixed[i]));
  for (var i = 0; i < expo.length; i++) print("E", id, expo[i], x.toExponential(expo[i]));
  for (var i = 0; i < prec.length; i++) print("P", id, prec[i], x.toPrecision(prec[i]));
  for (var i = 0; i < radix.length; i++) { var t = x.toString(radix[i]); print("X", id, radix[i], t, Object.is(parseInt(t, radix[i]), x)); }
}
"""

JS_PARSE_PRELUDE = r"""
var ab = new ArrayBuffer(8), dv = new DataView(ab);
function bitsOf(y) { dv.setFloat64(0, y, false); return [dv.getUint32(0, false), dv.getUint32(4, false)]; }
function p(id, t) {
  var a = bitsOf(Number(t)), b = bitsOf(parseFloat(t)), c = bitsOf((0, eval)(t)), d = bitsOf(+t);
  print("N", id, a[0], a[1], b[0], b[1], c[0], c[1], d[0], d[1]);
}
function pi(id, t) { var a = bitsOf(parseInt(t, 10)); print("I", id, a[0], a[1]); }
"""


def parse_texts(fmt_bits, tier, rnd):
    """Decimal texts (with their exact decimal decomposition) whose conversion is validated by the model."""
    texts = []

    def add(t):
        texts.append(t)
    pos = [b for b in fmt_bits if 0 < b < 0x7FF0000000000000]
    lim = 10 ** 40
    for b in pos[:: (3 if tier == "quick" else 1)]:
        v = exact(b)
        if not (Fraction(1, lim) < v < lim):
            continue
        add(repr(from_bits(b)))
        # exact midpoint between this double and the next: a tie (round half even) ...
        mid = (v + exact(b + 1)) / 2
        n, d = mid.numerator, mid.denominator
        # decimal expansion of a dyadic rational is finite
        k = 0
        while d % 2 == 0:
            d //= 2
            k += 1
        if d == 1 and k <= 120:
            digits = n * 5 ** k
            ds = str(digits)
            text = ds if k == 0 else ((ds[:-k] or "0") + "." + ds[-k:].rjust(k, "0"))
            add(text)
            # ... and one unit in the last place above / below the tie
            add(text + "1")
            dn = str(digits * 10 - 1)
            add((dn[:-(k + 1)] or "0") + "." + dn[-(k + 1):].rjust(k + 1, "0"))
    add("9007199254740993"); add("9007199254740992.5"); add("9007199254740993.0000000001"); add("1e23"); add("8.41e21")
    add("0.1"); add("0.30000000000000004"); add("1.7976931348623157e308"); add("1.7976931348623158e308"); add("1.7976931348623159e308")
    add("1e309"); add("2e308"); add("4.9e-324"); add("2.4703282292062327e-324"); add("2.4703282292062328e-324"); add("2.5e-324"); add("1e-400")
    add("123456789012345678901234567890"); add("0.000000000000000000000000000001"); add("5e-1"); add(".5"); add("5."); add("1E3"); add("1e+3")
    add("00012"[3:]); add("1.0000000000000001110223024625156540423631668090820312500000000000000000000000001")
    add("0"); add("0.0"); add("0e10"); add("100000000000000000000000"); add("1234567890123456789"); add("-0"); add("-1.5e-10"); add("-9007199254740993")
    for _ in range(40 if tier == "quick" else 400):
        nd = rnd.randrange(1, 30)
        ds = str(rnd.randrange(1, 10)) + "".join(str(rnd.randrange(10)) for _ in range(nd - 1))
        q = rnd.randrange(-35, 25)
        add(f"{ds}e{q}")
        if nd > 3:
            add(ds[:2] + "." + ds[2:] + (f"e{q}" if rnd.random() < 0.5 else ""))
    seen, out = set(), []
    for t in texts:
        if t not in seen:
            seen.add(t)
            out.append(t)
    return out


def decompose(t):
    """Text of a decimal literal -> {neg, dig (list of digits, no leading zeros), q} with value = dig * 10^q."""
    neg = t.startswith("-")
    t = t.lstrip("+-")
    mant, _, ex = t.lower().partition("e")
    q = int(ex) if ex else 0
    ip, _, fp = mant.partition(".")
    digits = (ip + fp).lstrip("0")
    q -= len(fp)
    stripped = digits.rstrip("0")
    q += len(digits) - len(stripped)
    return {"neg": neg, "dig": [int(c) for c in stripped], "q": q if stripped else 0}


def chars(l):
    return "".join(map(chr, l))


def unesc(s):
    return s[2:] if s.startswith("s:") else s


def run(tier, replay=None):
    ck = vlib.Check("C13", tier, "model_checking", replay)
    bindir = vlib.build_harness(["hjs"])
    hjs = os.path.join(bindir, "hjs")
    rnd = random.Random(vlib.seed())
    fmt_bits = structured_doubles(tier, rnd)
    cases = [fmt_case(i, b, tier, rnd) for i, b in enumerate(fmt_bits)]
    # ---- run boa: formatting
    scen = []
    B = 25
    for k in range(0, len(cases), B):
        src = JS_FMT_PRELUDE + "".join(
            "fmt(%d, %d, %d, %s, %s, %s, %s);\n" % (c["id"], c["bits"] >> 32, c["bits"] & 0xFFFFFFFF, c["fixed"], c["expo"], c["prec"], c["radix"])
            for c in cases[k:k + B])
        scen.append({"id": "f%d" % k, "steps": [{"kind": "eval", "src": src}], "ids": [c["id"] for c in cases[k:k + B]]})
    # ---- run boa: parsing
    texts = parse_texts(fmt_bits, tier, rnd)
    for k in range(0, len(texts), 60):
        src = JS_PARSE_PRELUDE + "".join("p(%d, %s);\n" % (k + j, json.dumps(t)) for j, t in enumerate(texts[k:k + 60]))
        # parseInt: beyond 20 significant digits the standard lets an implementation zero the rest, so only <= 20 are claimed
        src += "".join("pi(%d, %s);\n" % (k + j, json.dumps(t)) for j, t in enumerate(texts[k:k + 60]) if t.lstrip("-").isdigit() and len(t.lstrip("-0")) <= 20)
        scen.append({"id": "p%d" % k, "steps": [{"kind": "eval", "src": src}]})
    res = vlib.run_lines(hjs, [{k: v for k, v in s.items() if k != "ids"} for s in scen])
    got_fmt = {}     # (kind, id, arg) -> text
    got_parse = []   # (text index, how, bits)
    for s in scen:
        r = res.get(s["id"])
        if r is None or "panic" in r or "abort" in r:
            ck.failure({"class": "internal-failure"}, {"result": r, "scenario": s["id"]})
            continue
        st = r["steps"][0]
        if not st["c"].startswith("value:"):
            ck.failure({"class": "script-error", "c": st["c"]}, {"scenario": s["id"], "out_tail": st["out"][-3:]})
        for line in st["out"]:
            p_ = line.split(" ")
            tag = unesc(p_[0])
            if tag == "S":
                got_fmt[("S", int(p_[1][2:]))] = [unesc(x) for x in p_[2:]]
            elif tag == "R":
                got_fmt[("R", int(p_[1][2:]))] = p_[2:]
            elif tag in ("F", "E", "P"):
                got_fmt[(tag, int(p_[1][2:]), int(p_[2][2:]))] = unesc(p_[3])
            elif tag == "X":
                got_fmt[("X", int(p_[1][2:]), int(p_[2][2:]))] = (unesc(p_[3]), p_[4])
            elif tag == "N":
                idx = int(p_[1][2:])
                v = [int(x[2:]) for x in p_[2:]]
                for how, j in (("Number", 0), ("parseFloat", 2), ("literal", 4), ("unary+", 6)):
                    got_parse.append((idx, how, (v[j] << 32) | v[j + 1]))
            elif tag == "I":
                idx = int(p_[1][2:])
                got_parse.append((idx, "parseInt", (int(p_[2][2:]) << 32) | int(p_[3][2:])))
    # ---- model: expectations for formatting + verdicts for the recorded parses
    pcases = []
    seen = {}
    for idx, how, b in got_parse:
        key = (idx, b)
        if key in seen:
            seen[key]["how"].append(how)
            continue
        dec = decompose(texts[idx])
        if how == "literal" and dec["neg"]:
            pass  # unary minus applied to the literal: same value
        c = {"id": len(cases) + len(pcases), "kind": "parse", "dec": dec, "got": dbl_rec(b), "text": texts[idx], "how": [how], "bits": b,
             "x": dbl_rec(0), "fixed": [], "expo": [], "prec": [], "radix": [], "int": []}
        seen[key] = c
        pcases.append(c)
    os.makedirs(vlib.WORK, exist_ok=True)
    cf = os.path.join(vlib.WORK, f"c13-cases-{os.getpid()}.ndjson")
    with open(cf, "w") as f:
        for c in cases + pcases:
            f.write(json.dumps({k: v for k, v in c.items() if k not in ("bits", "text", "how")}) + "\n")
    exp_fmt, verdict = {}, {}
    r = vlib.run_tlc(SPEC, "MCNumeric.cfg", workers=8, env_extra={"CASES": cf}, timeout=3000,
                     on_tagged=lambda t, o: (exp_fmt if t == "FMT" else verdict).__setitem__(o["id"], o))
    os.unlink(cf)
    vlib.tlc_must_pass(r, "Numeric")
    ck.cov.update(states=r["distinct"], transitions=r["states"], checker_cmd=r["cmd"])
    if len(exp_fmt) != len(cases) or len(verdict) != len(pcases):
        raise vlib.ToolError(f"TLC answered {len(exp_fmt)}/{len(cases)} fmt and {len(verdict)}/{len(pcases)} parse cases")
    evals = 0
    nontrivial = 0
    for c in cases:
        e = exp_fmt[c["id"]]
        cid = c["id"]
        s_exp = chars(e["str"])
        if len(s_exp) > 6:
            nontrivial += 1
        g = got_fmt.get(("S", cid))
        evals += 1
        if g is None:
            ck.failure({"class": "missing-output", "op": "String"}, {"bits": hex(c["bits"])})
            continue
        for how, val in zip(("String(x)", "''+x", "template", "toString()", "toString(10)"), g):
            if val != s_exp:
                ck.failure({"op": how, "bits": hex(c["bits"])}, {"expected": s_exp, "actual": val})
        rr = got_fmt.get(("R", cid))
        finite_or_special = True
        is_nan = c["x"]["e"] == 2047 and c["x"]["m"] != []
        neg_zero = c["bits"] == 1 << 63          # String(-0) is "0", which reads back as +0 by definition
        if rr and not is_nan and not neg_zero:
            back = (int(rr[0][2:]) << 32) | int(rr[1][2:])
            if back != c["bits"] or rr[2:] != ["b:true", "b:true", "b:true"]:
                ck.failure({"op": "Number(String(x))", "bits": hex(c["bits"])}, {"string": g[0], "read_back_bits": hex(back), "flags": rr[2:]})
        for tag, name, key in (("F", "toFixed", "fixed"), ("E", "toExponential", "expo"), ("P", "toPrecision", "prec")):
            for i, arg in enumerate(c[key]):
                evals += 1
                want = chars(e[key][i])
                have = got_fmt.get((tag, cid, arg))
                if have != want:
                    ck.failure({"op": name, "arg": arg, "bits": hex(c["bits"])}, {"x": repr(from_bits(c["bits"])), "expected": want, "actual": have})
        for i, rad in enumerate(c["radix"]):
            evals += 1
            want = chars(e["radix"][i])
            have = got_fmt.get(("X", cid, rad))
            if have is None or have[0] != want or (have[1] != "b:true" and c["bits"] != 1 << 63):
                ck.failure({"op": "toString(radix)/parseInt", "radix": rad, "bits": hex(c["bits"])}, {"expected": want, "actual": have})
    for c in pcases:
        evals += 1
        if len(c["dec"]["dig"]) > 17:
            nontrivial += 1
        if not verdict[c["id"]]["ok"]:
            for how in c["how"]:
                ck.failure({"op": how, "text": c["text"]}, {"text": c["text"], "result_bits": hex(c["bits"]), "result": repr(from_bits(c["bits"])),
                                                            "why": "not the correctly rounded double (or wrong sign / NaN) per Numeric.tla IsCorrectlyRounded"})
    ck.sample({"x_bits": hex(cases[5]["bits"]), "String(x)": chars(exp_fmt[cases[5]["id"]]["str"]),
               "toFixed": dict(zip(map(str, cases[5]["fixed"]), map(chars, exp_fmt[cases[5]["id"]]["fixed"])))})
    if pcases:
        ck.sample({"text": pcases[len(pcases) // 2]["text"], "boa_result_bits": hex(pcases[len(pcases) // 2]["bits"]), "model_verdict": verdict[pcases[len(pcases) // 2]["id"]]["ok"]})
    ck.cov.update(traces_validated_against_impl=len(cases) + len(pcases), evaluations=evals, distinct_nontrivial=nontrivial,
                  doubles=len(cases), parse_texts=len(texts), parse_records=len(pcases),
                  rule="structured doubles (powers of 2 and 10 +-1ulp, 2^53 neighbourhood, notation thresholds, halfway cases of the digit-count functions, "
                       "extremes, seeded doubles with bounded exponent) x {String, toFixed, toExponential, toPrecision, toString(radix)}; decimal texts "
                       "(shortest forms, exact midpoints between adjacent doubles and +-1 digit, long digit strings, overflow/underflow) x {Number, parseFloat, "
                       "source literal, unary plus, parseInt}; non-trivial = doubles whose shortest form has > 6 characters + texts with > 17 significant digits")
    if nontrivial < 100:
        raise vlib.ToolError("vacuity guard: too few non-trivial cases")
    ck.assumptions += ["the text -> (digits, exponent) tokenisation of decimal literals is done by the driver; the rounding decision is the model's",
                       "domain is thousands of structured values, not uniform random doubles at scale (TLC arithmetic is interpreted)"]
    return ck.finish()
