"""C09 - The collector frees exactly the unreachable objects, exactly once.

Model: spec/heap/GcSpec.tla (reference: reachability under ephemeron semantics, one-step Collect) and
spec/heap/GcImpl.tla (ref_count / non_root_count / mark bits, the phases of Collector::collect as separate
actions), refinement GcImpl => GcSpec and the invariants checked by TLC (model gate).
Binding (A + B): TLC enumerates operation histories (history-exhaustive REPLAY lines, transition-exhaustive EDGE
lines under a VIEW that hides the history, seeded -simulate runs in the thorough tier); every record carries the
observation the reference prescribes (upgrade / Ephemeron::value / WeakMap::get results, finalised and dropped
sets of every collect, strong box count). harness/crates/hgc executes the histories on the real boa_gc and reports
what happened (Finalize/Drop event log of the payload type, canaries, verif::stats()); this driver compares.
The Python class Ref below is a transcription of GcSpec.tla used for the teardown expectations, the non-triviality
rule and shrinking; it is cross-checked against TLC's expectation on every operation of every history (a
disagreement is a tool error), so the expected values compared with the implementation are TLC's."""
import json
import os
import random

import vlib

SPECDIR = os.path.join(vlib.SPEC, "heap")
MC = os.path.join(SPECDIR, "MCGcImpl.tla")
SIM = os.path.join(SPECDIR, "MCGcSim.tla")
SHAPES = os.path.join(SPECDIR, "MCGcShapes.tla")
IMPLSHAPES = os.path.join(SPECDIR, "MCGcImplShapes.tla")
FULL = os.path.join(SPECDIR, "MCGcImplFull.tla")
RES_CLASS = "finalizer hands out a handle on a node of the unreachable set (resurrection)"


class Invalid(Exception):
    pass


class Ref:
    """GcSpec.tla in Python (same names)."""

    def __init__(self):
        self.nalloc = 0
        self.nodes = set()
        self.H = {}
        self.E = {}
        self.armed = {}
        self.P = []          # rows: dict(kind,k,v,h,hr,ok,held); row id = index + 1; hr = id of the ephemeron row in
        #                      whose value the handle of this row lies (0: held by the mutator / node h / map h)
        self.M = []          # maps: dict(h, held)
        self.res_ever = set()

    # -- reachability
    def held(self, a):
        return a in self.nodes and self.H[a] > 0

    def holder_ok(self, h):
        return h == 0 or self.held(h)

    def map_live(self, M, m, R):
        return M[m - 1]["held"] and (M[m - 1]["h"] == 0 or M[m - 1]["h"] in R)

    def row_live(self, P, x, R):
        r = P[x]
        if not r["held"]:
            return False
        if r["kind"] == "ent":
            return self.map_live(self.M, r["h"], R)
        if r["hr"]:
            y = P[r["hr"] - 1]
            return y["ok"] and y["k"] in R and self.row_live(P, r["hr"] - 1, R)
        return r["h"] == 0 or r["h"] in R

    def access(self, x):
        """GcSpec!Access (x = row id)."""
        if not (1 <= x <= len(self.P)) or not self.P[x - 1]["held"]:
            return False
        r = self.P[x - 1]
        if r["hr"]:
            return self.P[r["hr"] - 1]["ok"] and self.access(r["hr"])
        return self.holder_ok(r["h"])

    def mut_rows(self):
        return {x + 1 for x, r in enumerate(self.P)
                if r["kind"] in ("weak", "eph") and r["held"] and r["h"] == 0 and r["hr"] == 0}

    def reach(self, H, P):
        R = {n for n in self.nodes if H[n] > 0}
        succ = {}
        for (a, b) in self.E:
            succ.setdefault(a, []).append(b)
        work = list(R)
        while True:
            while work:
                a = work.pop()
                for b in succ.get(a, ()):
                    if b not in R:
                        R.add(b)
                        work.append(b)
            grew = False
            for x, r in enumerate(P):
                if r["kind"] != "weak" and r["ok"] and r["k"] in R and r["v"] not in R and r["v"] in self.nodes \
                        and self.row_live(P, x, R):
                    R.add(r["v"])
                    work.append(r["v"])
                    grew = True
            if not grew:
                return R

    def entry_of(self, m, k):
        return [x for x, r in enumerate(self.P)
                if r["kind"] == "ent" and r["h"] == m and r["k"] == k and r["held"] and r["ok"]]

    def map_ok(self, m):
        return 1 <= m <= len(self.M) and self.M[m - 1]["held"] and self.holder_ok(self.M[m - 1]["h"])

    # -- operations: returns the record TLC emits (without the implementation-shaped fields)
    def apply(self, o):
        op = o["op"]
        need = lambda c: (_ for _ in ()).throw(Invalid(op)) if not c else None
        if op == "alloc":
            need(o["n"] == self.nalloc + 1)
            n = o["n"]
            self.nalloc = n
            self.nodes.add(n)
            self.H[n] = 1
            self.armed[n] = 0
            return {"op": op, "n": n, "k": o.get("k", 0)}
        if op == "clone":
            need(self.held(o["a"]))
            self.H[o["a"]] += 1
            return {"op": op, "a": o["a"]}
        if op == "droph":
            need(self.held(o["a"]))
            self.H[o["a"]] -= 1
            return {"op": op, "a": o["a"]}
        if op == "link":
            need(self.held(o["a"]) and self.held(o["b"]))
            p = (o["a"], o["b"])
            self.E[p] = self.E.get(p, 0) + 1
            return {"op": op, "a": o["a"], "b": o["b"]}
        if op == "unlink":
            p = (o["a"], o["b"])
            need(self.held(o["a"]) and p in self.E)
            self.E[p] -= 1
            if self.E[p] == 0:
                del self.E[p]
            return {"op": op, "a": o["a"], "b": o["b"]}
        if op == "load":
            need(self.held(o["a"]) and (o["a"], o["b"]) in self.E)
            self.H[o["b"]] += 1
            return {"op": op, "a": o["a"], "b": o["b"]}
        if op == "weak":
            need(self.held(o["a"]) and o["w"] == len(self.P) + 1)
            self.P.append(dict(kind="weak", k=o["a"], v=0, h=0, hr=0, ok=True, held=True))
            return {"op": op, "w": o["w"], "a": o["a"]}
        if op == "upgrade":
            x = o["w"]
            need(1 <= x <= len(self.P) and self.P[x - 1]["kind"] == "weak" and self.access(x))
            r = self.P[x - 1]
            if r["ok"]:
                self.H[r["k"]] += 1
            return {"op": op, "w": x, "t": r["k"], "r": r["k"] if r["ok"] else 0}
        if op == "dropw":
            x = o["w"]
            need(1 <= x <= len(self.P) and self.P[x - 1]["kind"] == "weak" and self.P[x - 1]["held"]
                 and self.P[x - 1]["hr"] == 0)
            self.P[x - 1]["held"] = False
            return {"op": op, "w": x}
        if op == "eph":
            ws = sorted(o.get("ws", []))
            need(self.held(o["k"]) and (o["v"] == 0 or self.held(o["v"])) and self.holder_ok(o["h"])
                 and o["e"] == len(self.P) + 1 and set(ws) <= self.mut_rows() and len(set(ws)) == len(ws))
            for x in ws:
                self.P[x - 1]["hr"] = o["e"]
            self.P.append(dict(kind="eph", k=o["k"], v=o["v"], h=o["h"], hr=0, ok=True, held=True))
            return {"op": op, "e": o["e"], "k": o["k"], "v": o["v"], "h": o["h"], "ws": ws}
        if op == "ephval":
            x = o["e"]
            need(1 <= x <= len(self.P) and self.P[x - 1]["kind"] == "eph" and self.access(x))
            r = self.P[x - 1]
            return {"op": op, "e": x, "v": r["v"], "r": r["v"] if r["ok"] else 0, "s": 1 if r["ok"] else 0}
        if op == "drope":
            x = o["e"]
            need(1 <= x <= len(self.P) and self.P[x - 1]["kind"] == "eph" and self.P[x - 1]["held"]
                 and self.P[x - 1]["h"] == 0 and self.P[x - 1]["hr"] == 0)
            self.P[x - 1]["held"] = False
            return {"op": op, "e": x}
        if op == "wm":
            need(self.holder_ok(o["h"]) and o["m"] == len(self.M) + 1)
            self.M.append(dict(h=o["h"], held=True))
            return {"op": op, "m": o["m"], "h": o["h"]}
        if op == "wmins":
            need(self.map_ok(o["m"]) and self.held(o["k"]) and self.held(o["v"]))
            for x in self.entry_of(o["m"], o["k"]):
                self.P[x]["held"] = False
            self.P.append(dict(kind="ent", k=o["k"], v=o["v"], h=o["m"], hr=0, ok=True, held=True))
            return {"op": op, "m": o["m"], "k": o["k"], "v": o["v"]}
        if op == "wmrem":
            need(self.map_ok(o["m"]) and self.held(o["k"]))
            s = self.entry_of(o["m"], o["k"])
            for x in s:
                self.P[x]["held"] = False
            return {"op": op, "m": o["m"], "k": o["k"], "r": 1 if s else 0}
        if op == "wmget":
            need(self.map_ok(o["m"]) and self.held(o["k"]))
            s = self.entry_of(o["m"], o["k"])
            v = self.P[s[0]]["v"] if s else 0
            return {"op": op, "m": o["m"], "k": o["k"], "v": v, "r": v}
        if op == "dropwm":
            m = o["m"]
            need(1 <= m <= len(self.M) and self.M[m - 1]["held"] and self.M[m - 1]["h"] == 0)
            self.M[m - 1]["held"] = False
            return {"op": op, "m": m}
        if op == "arm":
            need(self.held(o["a"]) and o["t"] in self.nodes and self.armed[o["a"]] != o["t"])
            self.armed[o["a"]] = o["t"]
            return {"op": op, "a": o["a"], "t": o["t"]}
        if op == "collect":
            return self.collect()
        raise Invalid("unknown op " + op)

    def collect(self):
        nodes, H, P, M = self.nodes, self.H, self.P, self.M
        R1 = self.reach(H, P)
        U = nodes - R1
        # non-triviality bookkeeping (on the state the collection starts from)
        self.last_interesting = self.interesting()
        fire = [n for n in U if self.armed[n] != 0 and (n, self.armed[n]) in self.E]
        H2 = dict(H)
        for a in fire:
            H2[self.armed[a]] += 1
        P1 = [dict(r, ok=r["ok"] and r["k"] in R1 and self.row_live(P, x, R1)) for x, r in enumerate(P)]
        R2 = self.reach(H2, P1)
        M2 = [dict(m, held=m["held"] and (m["h"] == 0 or m["h"] in R2)) for m in M]
        def held_after(x):
            r = P1[x]
            if not r["held"]:
                return False
            if r["kind"] == "ent":
                return r["ok"] and M2[r["h"] - 1]["held"]
            if r["hr"]:
                return P1[r["hr"] - 1]["ok"] and held_after(r["hr"] - 1)
            return r["h"] == 0 or r["h"] in R2
        P2 = [dict(r, held=held_after(x)) for x, r in enumerate(P1)]
        # rows lying in a value (and the mutator could get at) that this collection kept / cleared
        self.last_nested = [(r["ok"], P1[x]["ok"]) for x, r in enumerate(P) if r["hr"] and r["held"] and r["ok"]
                            and P[r["hr"] - 1]["held"]]
        freed = nodes - R2
        res = U & R2
        self.fired = {a: self.armed[a] for a in fire}
        self.nodes = set(R2)
        self.H = {n: H2[n] for n in R2}
        self.E = {p: c for p, c in self.E.items() if p[0] in R2}
        self.armed = {n: (0 if n in U else self.armed[n]) for n in R2}
        self.P, self.M = P2, M2
        self.res_ever |= res
        self.last_freed, self.last_U, self.last_R2 = freed, U, R2
        return {"op": "collect", "fin": sorted(U), "drop": sorted(freed), "res": sorted(res),
                "st": len(R2) + sum(1 for m in M2 if m["held"])}

    def interesting(self):
        """Nodes on a cycle of heap edges, and nodes that are the value of a live ephemeron / weak-map entry."""
        succ = {}
        for (a, b) in self.E:
            succ.setdefault(a, set()).add(b)
        cyc = set()
        for n in self.nodes:
            seen, work = set(), list(succ.get(n, ()))
            while work:
                a = work.pop()
                if a == n:
                    cyc.add(n)
                    break
                if a not in seen:
                    seen.add(a)
                    work.extend(succ.get(a, ()))
        beh = {r["v"] for r in self.P if r["kind"] != "weak" and r["held"] and r["ok"]}
        return cyc | beh

    def teardown(self):
        """The mutator drops everything it holds, then collects four times, dropping handles handed out by
        finalizers right after each collection. Returns the expected (fin, drop) of each round."""
        for n in self.nodes:
            self.H[n] = 0
        for r in self.P:
            if r["kind"] in ("weak", "eph") and r["h"] == 0 and r["hr"] == 0:
                r["held"] = False
        for m in self.M:
            if m["h"] == 0:
                m["held"] = False
        rounds, resd = [], False
        for _ in range(4):
            o = self.collect()
            resd = resd or bool(o["res"])
            for a, t in self.fired.items():
                if t in self.nodes:
                    self.H[t] -= 1
            rounds.append((o["fin"], o["drop"]))
        return rounds, resd


KEYS = {"alloc": ("n", "k"), "clone": ("a",), "droph": ("a",), "link": ("a", "b"), "unlink": ("a", "b"),
        "load": ("a", "b"), "weak": ("w", "a"), "upgrade": ("w",), "dropw": ("w",), "eph": ("e", "k", "v", "h", "ws"),
        "ephval": ("e",), "drope": ("e",), "wm": ("m", "h"), "wmins": ("m", "k", "v"), "wmrem": ("m", "k"),
        "wmget": ("m", "k"), "dropwm": ("m",), "arm": ("a", "t"), "collect": ()}


def bare(o):
    return dict({"op": o["op"]}, **{k: (sorted(o.get("ws", [])) if k == "ws" else o[k]) for k in KEYS[o["op"]]})


def short(ops):
    """One line per history; `eph e k v h [rows moved into the value]` (the list is omitted when empty)."""
    def f(o, k):
        if k == "ws":
            return "[" + ",".join(map(str, sorted(o.get("ws", [])))) + "]" if o.get("ws") else ""
        return str(o[k])
    return "; ".join(" ".join(x for x in [o["op"]] + [f(o, k) for k in KEYS[o["op"]]] if x) for o in ops)


def expect(ops, leaky=()):
    """Expectation records for bare operations (Ref), or None if the history is not executable."""
    ref = Ref()
    out = []
    try:
        for o in ops:
            out.append(ref.apply(o))
    except (Invalid, KeyError, IndexError):
        return None, None
    return out, ref


def tlc_expect(ops):
    """The expectation of a given history re-derived by TLC (spec/heap/MCGcDriven.tla drives GcSpec with the script);
    it must coincide with Ref's."""
    os.makedirs(vlib.WORK, exist_ok=True)
    path = os.path.join(vlib.WORK, f"c09-script-{os.getpid()}.ndjson")
    with open(path, "w") as f:
        for o in ops:
            f.write(json.dumps(bare(o)) + "\n")
    got = []
    r = vlib.run_tlc(os.path.join(SPECDIR, "MCGcDriven.tla"), "MCGcDriven.cfg", workers=1, timeout=600,
                     env_extra={"SCRIPT": path}, on_tagged=lambda t, o: got.append(o) if t == "REPLAY" else None)
    os.unlink(path)
    vlib.tlc_must_pass(r, "MCGcDriven")
    if len(got) != 1 or len(got[0]) != len(ops):
        raise vlib.ToolError(f"MCGcDriven could not execute the history {short(ops)}")
    mine, _ = expect([bare(o) for o in ops])
    theirs = [{k: (sorted(v) if isinstance(v, list) else v) for k, v in e.items()} for e in got[0]]
    if mine != theirs:
        raise vlib.ToolError(f"oracle disagreement (MCGcDriven vs Ref) on {short(ops)}")
    return theirs


def renumber(ops):
    """Canonical ids: nodes, weak rows (incl. the rows weak-map inserts consume) and maps in creation order."""
    nm, rm, mm = {}, {}, {}
    rows = 0
    out = []
    for o in ops:
        o = dict(o)
        op = o["op"]
        if op == "alloc":
            nm[o["n"]] = len(nm) + 1
        if op in ("weak", "eph"):
            rows += 1
            rm[o["w" if op == "weak" else "e"]] = rows
        if op == "wmins":
            rows += 1
        if op == "wm":
            mm[o["m"]] = len(mm) + 1
        for k in KEYS[op]:
            if k == "ws":
                if any(x not in rm for x in o.get("ws", [])):
                    return None
                o["ws"] = sorted(rm[x] for x in o.get("ws", []))
            elif k == "v" and op == "eph" and o[k] == 0:
                pass
            elif k in ("n", "a", "b", "t") or (k in ("k", "v") and op != "alloc"):
                if o[k] not in nm:
                    return None
                o[k] = nm[o[k]]
            elif k == "h":
                if o[k] != 0:
                    if o[k] not in nm:
                        return None
                    o[k] = nm[o[k]]
            elif k in ("w", "e"):
                if o[k] not in rm:
                    return None
                o[k] = rm[o[k]]
            elif k == "m":
                if o[k] not in mm:
                    return None
                o[k] = mm[o[k]]
        out.append(o)
    return out


class Judge:
    """Compares what hgc observed with what the reference prescribes."""

    def __init__(self, ck):
        self.ck = ck
        self.drift_seen = set()
        self.evals = 0

    def drift(self, what):
        self.ck.drift += 1
        if what not in self.drift_seen:
            self.drift_seen.add(what)
            vlib.log("MODEL-DRIFT: " + what)

    def judge(self, exp, res, ref_final):
        """exp: TLC records; res: harness line; ref_final: Ref after the history (for the teardown).
        Returns None or a failure dict {at, kind, exp, got, res_class}."""
        obs = res.get("obs", [])
        resd = False
        ever = set()

        def fail(i, kind, e, g):
            return {"at": i, "kind": kind, "exp": e, "got": g, "res_class": resd}

        rowkey = {}
        for i, e in enumerate(exp):
            if e["op"] == "collect" and e["res"]:
                resd = True
                ever |= set(e["res"])
            if e["op"] == "weak":
                rowkey[e["w"]] = e["a"]
            elif e["op"] == "eph":
                rowkey[e["e"]] = e["k"]
            if i >= len(obs):
                how = res.get("panic") or res.get("abort")
                if how is None:
                    raise vlib.ToolError("hgc returned too few observations: " + json.dumps(res)[:300])
                return fail(i, "crash", e, str(how)[:200])
            o = obs[i]
            self.evals += 1
            if "err" in o:
                raise vlib.ToolError(f"history not executable by hgc at op {i} ({o['err']}): {short(exp)}")
            if o.get("autogc"):
                raise vlib.ToolError("boa_gc collected on its own during a replay (threshold crossed)")
            if "bad" in o:
                return fail(i, "canary", e, o["bad"])
            if "ev" in o:
                return fail(i, "finalize/drop outside a collection", e, o["ev"])
            if "uaf" in o:
                return fail(i, "node freed while the mutator holds a handle on it", e, o)
            if "r" in e:
                if o.get("r") != e["r"]:
                    key = {"upgrade": rowkey.get(e.get("w")), "ephval": rowkey.get(e.get("e")), "wmget": e.get("k")}.get(e["op"])
                    if key is not None and key in ever:
                        self.drift("weak row on a resurrected key answered differently from the model (allowed by the property)")
                        return None
                    return fail(i, "result", e, o.get("r"))
            if "s" in e and o.get("s") != e["s"]:
                if rowkey.get(e.get("e")) in ever:
                    self.drift("weak row on a resurrected key answered differently from the model (allowed by the property)")
                    return None
                return fail(i, "Ephemeron::value is Some/None", e, o.get("s"))
            if e["op"] == "collect":
                if sorted(o.get("fin", [])) != sorted(e["fin"]):
                    return fail(i, "finalised set", e, o)
                if sorted(o.get("drop", [])) != sorted(e["drop"]):
                    return fail(i, "dropped set", e, o)
                if o["st"][0] != e["st"]:
                    return fail(i, "strong boxes left", e, o)
                if "eb" in e and (o["st"][1] != e["eb"] or o["st"][2] != e["wmb"]):
                    self.drift("ephemeron / weak-map box counts differ from GcImpl (implementation-shaped, not a violation)")
        if len(obs) > len(exp):
            raise vlib.ToolError("hgc returned too many observations")
        if "panic" in res or "abort" in res:
            return fail(len(exp), "crash", "teardown", str(res.get("panic") or res.get("abort"))[:200])
        end = res.get("end")
        if end is None:
            raise vlib.ToolError("hgc: no teardown record")
        rounds, tres = ref_final.teardown()
        resd = resd or tres
        if "uaf" in end:
            return fail(len(exp), "node freed while a finalizer's handle on it exists (teardown)", rounds, end)
        if "bad" in end:
            return fail(len(exp), "canary (teardown)", rounds, end)
        got = [(sorted(r["fin"]), sorted(r["drop"])) for r in end["rounds"]]
        if got != [(sorted(f), sorted(d)) for f, d in rounds]:
            return fail(len(exp), "teardown finalised/dropped sets", rounds, end)
        if end["st"] != [0, 0, 0]:
            return fail(len(exp), "boxes left after teardown", [0, 0, 0], end)
        self.evals += 1
        return None


OPCOUNT = {}
NESTED = {"kept": 0, "cleared": 0}     # weak rows lying in ephemeron values, per collection: kept / cleared by it


def crosscheck(exp):
    """TLC's expectation must equal the Python transcription on every operation; returns (Ref, nontrivial)."""
    ref = Ref()
    nontrivial = False
    for i, e in enumerate(exp):
        k = e["op"]
        OPCOUNT[k] = OPCOUNT.get(k, 0) + 1
        if k == "collect":
            if e["fin"]:
                OPCOUNT["collect:fin"] = OPCOUNT.get("collect:fin", 0) + 1
            if e["res"]:
                OPCOUNT["collect:res"] = OPCOUNT.get("collect:res", 0) + 1
        elif k == "upgrade" and e["r"] == 0 or k == "ephval" and e["s"] == 0:
            OPCOUNT[k + ":none"] = OPCOUNT.get(k + ":none", 0) + 1
        if k == "eph" and e.get("ws"):
            OPCOUNT["eph:ws"] = OPCOUNT.get("eph:ws", 0) + 1
        if k in ("upgrade", "ephval") and ref.P[e["w" if k == "upgrade" else "e"] - 1]["hr"]:
            OPCOUNT[k + ":nested"] = OPCOUNT.get(k + ":nested", 0) + 1
        try:
            mine = ref.apply(bare(e))
        except (Invalid, KeyError, IndexError) as x:
            raise vlib.ToolError(f"oracle disagreement: Ref rejects op {i} of {short(exp)} ({x})")
        theirs = {k: (sorted(v) if isinstance(v, list) else v) for k, v in e.items() if k not in ("eb", "wmb")}
        if mine != theirs:
            raise vlib.ToolError(f"oracle disagreement at op {i} of {short(exp)}: TLC {theirs} Ref {mine}")
        if e["op"] == "collect":
            it = ref.last_interesting
            retained_unrooted = {n for n in ref.last_R2 if ref.H[n] == 0}
            if it & (ref.last_freed | retained_unrooted):
                nontrivial = True
            for before, after in ref.last_nested:
                NESTED["kept" if after else "cleared"] += 1
    return ref, nontrivial


class Runner:
    def __init__(self, ck, bindir):
        self.ck = ck
        self.bin = os.path.join(bindir, "hgc")
        self.judge = Judge(ck)
        self.nontrivial = 0
        self.replayed = 0
        self.res_class_hits = 0

    def run_batch(self, hists, label, leaky=False):
        """hists: list of TLC expectation lists. Returns the list of (exp, failure)."""
        scen, refs = [], []
        for i, exp in enumerate(hists):
            ref, nt = crosscheck(exp)
            refs.append(ref)
            self.nontrivial += 1 if nt else 0
            scen.append({"id": i, "ops": [bare(e) for e in exp]})
        res = vlib.run_lines(self.bin, scen, timeout_per_batch=1500)
        fails = []
        for i, exp in enumerate(hists):
            r = res.get(i)
            if r is None:
                raise vlib.ToolError("missing hgc result")
            f = self.judge.judge(exp, r, refs[i])
            self.replayed += 1
            if f is not None:
                fails.append((exp, f, r))
        vlib.log(f"[{label}] histories={len(hists)} failing={len(fails)}")
        return fails

    def still_fails(self, ops):
        ops = renumber(ops)
        if ops is None:
            return None
        exp, ref = expect(ops)
        if exp is None:
            return None
        r = vlib.run_lines(self.bin, [{"id": 0, "ops": ops}], timeout_per_batch=120).get(0)
        try:
            f = Judge(self.ck).judge(exp, r, ref)
        except vlib.ToolError:
            return None
        return (exp, f, r) if f is not None else None

    def shrink(self, exp, f):
        ops = [bare(e) for e in exp]
        best = (exp, f, None)
        changed = True
        while changed:
            changed = False
            for i in range(len(ops) - 1, -1, -1):
                cand = ops[:i] + ops[i + 1:]
                got = self.still_fails(cand)
                if got is not None and got[1]["res_class"] == f["res_class"]:
                    ops = [bare(e) for e in got[0]]
                    best = got
                    changed = True
                    break
        return best

    def report(self, fails):
        """Known-finding filter + VIOLATION lines. Failures of the resurrection class share one signature
        (every way of resurrecting an unreachable node fails the same way in the pinned tree)."""
        done = 0
        for exp, f, r in fails:
            if f["res_class"] and any(k.get("signature") == RES_CLASS for k in self.ck.known):
                self.res_class_hits += 1
                self.ck.failure(RES_CLASS, {"history": exp, "failure": f, "observed": r, "short": short(exp)})
                continue
            if done >= 12:     # enough distinct reports; the rest is counted
                self.ck.add("failures_not_shrunk")
                continue
            done += 1
            sexp, sf, sr = self.shrink(exp, f)
            tlc_expect(sexp)        # the expectation of the reported history is TLC's
            sig = short(sexp)
            self.ck.failure(sig, {"history": sexp, "failure": sf, "observed": sr, "original": short(exp), "short": sig})


def shape_history(rec):
    """Renders a shape (MCGcShapes SHAPE record) into a set-up script + collect + probes + collect, computes the
    expectation with Ref and checks that Ref's outcome of the first collect is exactly TLC's."""
    s = rec["shape"]
    K = s["K"]
    ops = [{"op": "alloc", "n": n, "k": 0} for n in range(1, K + 1)]
    ops += [{"op": "link", "a": a, "b": b} for a, b in sorted(map(tuple, s["edges"]))]
    if s["mh"] != 99:
        ops.append({"op": "wm", "m": 1, "h": s["mh"]})
    for i, (kind, k, v, h, hr) in enumerate(s["rows"], 1):
        ws = [j for j, r in enumerate(s["rows"], 1) if r[4] == i]     # earlier rows moved into the value of this one
        ops.append({"op": "weak", "w": i, "a": k} if kind == "weak" else {"op": "eph", "e": i, "k": k, "v": v, "h": h, "ws": ws})
    for k, v in s["ents"]:
        ops.append({"op": "wmins", "m": 1, "k": k, "v": v})
    ops += [{"op": "droph", "a": n} for n in range(1, K + 1) if n not in s["roots"]]
    ops.append({"op": "collect"})
    ref = Ref()
    exp = [ref.apply(o) for o in ops]
    out = dict(rec["out"])
    mine = exp[-1]
    theirs = {k: (sorted(v) if isinstance(v, list) else v) for k, v in out.items()}
    if mine != theirs or [r["ok"] for r in ref.P] != list(rec["ok"]):
        raise vlib.ToolError(f"oracle disagreement on shape {json.dumps(s)}: TLC {theirs} {rec['ok']} Ref {mine} {[r['ok'] for r in ref.P]}")
    probes = []
    for i, r in enumerate(ref.P, 1):
        if r["kind"] == "eph" and ref.access(i):
            probes.append({"op": "ephval", "e": i})
    if ref.M and ref.map_ok(1):
        probes += [{"op": "wmget", "m": 1, "k": k} for k in sorted(ref.nodes) if ref.held(k)]
    for i, r in enumerate(ref.P, 1):
        if r["kind"] == "weak" and ref.access(i):
            probes.append({"op": "upgrade", "w": i})
    probes.append({"op": "collect"})
    for o in probes:
        exp.append(ref.apply(o))
    return exp


CHAINS = {"CAB": 0, "ACB": 0, "ABC": 0}


def note_chain(s):
    """Counts the shapes that contain a chain C -> B -> A: a WeakGc A on a rooted node whose handle lies in the value
    of a mutator-held ephemeron B, B's value holds no Gc handle, B's key is not rooted and is the value of a
    mutator-held ephemeron C with a rooted key; by allocation order of C relative to A < B."""
    rows, roots = s["rows"], set(s["roots"])
    for a, ra in enumerate(rows):
        if ra[0] != "weak" or ra[4] == 0 or ra[1] not in roots:
            continue
        b = ra[4] - 1
        rb = rows[b]
        if rb[2] != 0 or rb[3] != 0 or rb[4] != 0 or rb[1] in roots:
            continue
        for c, rc in enumerate(rows):
            if c not in (a, b) and rc[0] == "eph" and rc[2] == rb[1] and rc[1] in roots and rc[3] == 0 and rc[4] == 0:
                CHAINS["CAB" if c < a else "ACB" if c < b else "ABC"] += 1
                return


def run_tlc_job(module, cfg, workers, tags, timeout=3000, sink=None, **kw):
    """Runs TLC; tagged records go to `sink` (a callable) as they are printed, or are returned as a list."""
    # development aid only (never set by a registered command): reuse TLC's output for an unchanged spec + config
    cache = os.environ.get("VERIF_C09_CACHE")
    cp = None
    if cache:
        import hashlib
        hsh = hashlib.sha1()
        for f in sorted(os.listdir(SPECDIR)):
            if f.endswith(".tla") or f == cfg:
                hsh.update(open(os.path.join(SPECDIR, f), "rb").read())
        hsh.update(json.dumps(kw, sort_keys=True).encode())
        cp = os.path.join(cache, f"{cfg}-{hsh.hexdigest()[:12]}.ndjson")
        if os.path.exists(cp):
            got = []
            with open(cp) as f:
                r = json.loads(f.readline())
                for line in f:
                    (sink or got.append)(json.loads(line))
            return got, r
    got = []
    keep = [] if cp else None

    def on(t, o):
        if t in tags:
            (sink or got.append)(o)
            if keep is not None:
                keep.append(o)
    r = vlib.run_tlc(module, cfg, workers=workers, timeout=timeout, on_tagged=on, **kw)
    vlib.tlc_must_pass(r, cfg)
    if cp:
        os.makedirs(cache, exist_ok=True)
        with open(cp, "w") as f:
            f.write(json.dumps({k: v for k, v in r.items() if k != "tagged"}) + "\n")
            for o in keep:
                f.write(json.dumps(o) + "\n")
    return got, r


SELFTEST = [{"op": "alloc", "n": 1, "k": 1}, {"op": "alloc", "n": 2, "k": 0}, {"op": "link", "a": 1, "b": 2},
            {"op": "droph", "a": 2}, {"op": "collect"}, {"op": "droph", "a": 1}, {"op": "collect"}]


def selftest(run):
    """A container whose edge field is #[unsafe_ignore_trace] (node kind 1): the reference says the target dies
    with the container; boa_gc cannot see the edge. The harness must notice, otherwise the replay is blind."""
    exp, ref = expect(SELFTEST)
    r = vlib.run_lines(run.bin, [{"id": 0, "ops": SELFTEST}]).get(0)
    silent = vlib.Check.__new__(vlib.Check)
    silent.drift = 0
    f = Judge(silent).judge(exp, r, ref)
    if f is None:
        raise vlib.ToolError("self-test: a missing Trace edge (unsafe_ignore_trace container) was NOT noticed by the harness")
    run.ck.cov["selftest_missing_trace_edge"] = f"noticed: {f['kind']} at op {f['at']}"


def dedup_prefix(hists):
    """-simulate prints every candidate last step of a trace: keep one history per (n-1)-operation prefix."""
    seen, out = set(), []
    for h in hists:
        key = vlib.sig_hash([bare(e) for e in h[:-1]])
        if key not in seen:
            seen.add(key)
            out.append(h)
    return out


class Replayer:
    """Consumer thread: takes histories from a queue in chunks and replays them while TLC keeps producing."""

    def __init__(self, runner, chunk=20000):
        import queue
        import threading
        self.runner, self.chunk = runner, chunk
        self.q = queue.Queue(maxsize=8)
        self.buf, self.label = [], None
        self.fails, self.counts, self.err = [], {}, None
        self.samples = {}
        self.t = threading.Thread(target=self.work, daemon=True)
        self.t.start()

    def work(self):
        while True:
            item = self.q.get()
            if item is None:
                return
            label, hists = item
            if self.err is not None:
                continue
            try:
                f = self.runner.run_batch(hists, label)
                self.counts[label] = self.counts.get(label, 0) + len(hists)
                self.samples.setdefault(label, short(hists[len(hists) // 2]))
                known_class = any(k.get("signature") == RES_CLASS for k in self.runner.ck.known)
                res = [x for x in f if x[1]["res_class"] and known_class]
                oth = [x for x in f if not (x[1]["res_class"] and known_class)]
                self.runner.res_class_hits += max(0, len(res) - 3)     # the first three are reported individually
                self.fails += res[:3] + oth[:200]
                if len(oth) > 200:
                    self.runner.ck.add("failures_not_shrunk", len(oth) - 200)
            except Exception as e:      # surfaced by close()
                self.err = e

    def put(self, label, h):
        if self.label is not None and label != self.label:
            self.flush()
        self.label = label
        self.buf.append(h)
        if len(self.buf) >= self.chunk:
            self.flush()

    def flush(self):
        if self.buf:
            self.q.put((self.label, self.buf))
            self.buf = []

    def close(self):
        self.flush()
        self.q.put(None)
        self.t.join()
        if self.err is not None:
            raise self.err


def run(tier, replay=None):
    from concurrent.futures import ThreadPoolExecutor
    ck = vlib.Check("C09", tier, "model_checking", replay)
    bindir = vlib.build_harness(["hgc"])
    runner = Runner(ck, bindir)
    if replay:
        d = json.load(open(replay))["detail"]
        ops = [bare(e) for e in d["history"]]
        tlc_expect(renumber(ops))
        got = runner.still_fails(ops)
        if got is not None:
            exp, f, r = got
            sig = RES_CLASS if f["res_class"] and any(k.get("signature") == RES_CLASS for k in ck.known) else short(exp)
            ck.failure(sig, {"history": exp, "failure": f, "observed": r, "short": short(exp)})
        ck.cov.update(traces_validated_against_impl=1)
        return ck.finish()

    selftest(runner)
    quick = tier == "quick"
    pool = ThreadPoolExecutor(max_workers=2)
    # 1. model gate (invariants + refinement GcImpl => GcSpec), in the background while replays are generated
    gate_cfgs = [(MC, "MCGcImpl_gate_quick.cfg"), (IMPLSHAPES, "MCGcImplShapes_nest.cfg")] if quick else \
                [(FULL, "MCGcImplFull_a.cfg"), (MC, "MCGcImpl_gate_thorough.cfg"), (MC, "MCGcImpl_gate_res.cfg"),
                 (IMPLSHAPES, "MCGcImplShapes_gate.cfg"), (IMPLSHAPES, "MCGcImplShapes_nest_thorough.cfg")]

    def gates():
        out = []
        for mod, cfg in gate_cfgs:
            _, r = run_tlc_job(mod, cfg, 4, ())
            vlib.log(f"[gate] {cfg}: {r['distinct']} distinct states, {r['states']} transitions, {r['wall']:.0f}s")
            out.append((cfg, r))
        if not quick:
            # sensitivity of the gate: GcImpl with the fix-point of step 3 ending as soon as a pass enqueued nothing
            # (definition override RescanShortcut <- TRUE) must be rejected
            r = vlib.run_tlc(IMPLSHAPES, "MCGcImplShapes_shortcut.cfg", workers=4, timeout=3000)
            if r["ok"] or not r.get("violation"):
                raise vlib.ToolError("model gate: GcImpl with an early end of the pending-ephemeron fix-point was NOT rejected")
            vlib.log(f"[gate] MCGcImplShapes_shortcut.cfg rejected as expected: {str(r['violation'])[:120]}")
        return out
    gate_f = pool.submit(gates)
    rep = Replayer(runner)
    model_states = model_trans = 0
    # 2. history-exhaustive replays, 3. transition-exhaustive EDGE replays, 4. shape families
    if quick:
        jobs = [("hist", MC, "MCGcImpl_hist_quick.cfg", "REPLAY"), ("edge", MC, "MCGcImpl_edge_quick.cfg", "EDGE"),
                ("shapes", SHAPES, "MCGcShapes_quick.cfg", "SHAPE"), ("nest", SHAPES, "MCGcShapes_nest_quick.cfg", "SHAPE")]
    else:
        jobs = [("hist", MC, "MCGcImpl_hist_thorough.cfg", "REPLAY"), ("shapes", SHAPES, "MCGcShapes_thorough.cfg", "SHAPE"),
                ("nest", SHAPES, "MCGcShapes_nest_thorough.cfg", "SHAPE"),
                ("edge", MC, "MCGcImpl_edge_thorough_a.cfg", "EDGE"), ("edge", MC, "MCGcImpl_edge_thorough_b.cfg", "EDGE")]
    for label, mod, cfg, tag in jobs:
        n0 = [0]

        def sink(o, label=label, n0=n0):
            n0[0] += 1
            if label == "nest":
                note_chain(o["shape"])
            rep.put(label, shape_history(o) if label in ("shapes", "nest") else o)
        _, r = run_tlc_job(mod, cfg, 4, (tag,), sink=sink)
        model_states += r["distinct"]
        model_trans += r["states"]
        vlib.log(f"[{label}] {cfg}: {n0[0]} records from {r['distinct']} states in {r['wall']:.0f}s")
    # 5. seeded long histories (thorough)
    longest = 0
    if not quick:
        sd = vlib.seed()
        for cfg, num, depth in (("MCGcSim_noarm_a.cfg", 1500, 800), ("MCGcSim_noarm_b.cfg", 60, 6000),
                                ("MCGcSim_a.cfg", 1000, 800), ("MCGcSim_b.cfg", 40, 6000),
                                ("MCGcSim_noarm_c.cfg", 1, 60000), ("MCGcSim_c.cfg", 1, 60000)):
            got, r = run_tlc_job(SIM, cfg, 1, ("REPLAY",), simulate=num, depth=depth, tseed=sd)
            hists = dedup_prefix(got)
            longest = max([longest] + [len(h) for h in hists])
            vlib.log(f"[sim] {cfg}: {len(hists)} histories (max {max(len(h) for h in hists)} ops) in {r['wall']:.0f}s")
            for h in hists:
                rep.put("sim", h)
    rep.close()
    runner.report(rep.fails)
    for label, sm in rep.samples.items():
        ck.sample(f"{label}: {sm}")
    states = trans = 0
    for cfg, r in gate_f.result():
        states += r["distinct"]
        trans += r["states"]
        ck.cov.setdefault("checker_cmd", r["cmd"])
    never = action_coverage(OPCOUNT)
    if never:
        raise vlib.ToolError(f"vacuity guard: actions of the MC specs never taken in the emitted behaviours: {never}")
    tlc_cov = dict(sorted(OPCOUNT.items()))
    ck.cov.update(states=states, transitions=trans, emission_states=model_states,
                  traces_validated_against_impl=runner.replayed, evaluations=runner.judge.evals,
                  distinct_nontrivial=runner.nontrivial, resurrection_class_failures=runner.res_class_hits,
                  replays=rep.counts, exhaustive=True,
                  rule="non-trivial = a history with a collection that freed, or retained without a mutator handle, a node "
                       "that lies on a cycle of heap edges or is the value of a live ephemeron / weak-map entry")
    ck.cov["tlc_coverage"] = tlc_cov
    if longest:
        ck.cov["longest_history_ops"] = longest
    floor = 5000 if quick else 100000
    if runner.nontrivial < floor:
        raise vlib.ToolError(f"vacuity guard: only {runner.nontrivial} non-trivial histories (< {floor})")
    ck.cov["nested_rows"] = dict(NESTED, chains=dict(CHAINS),
                                 rule="per collection: weak rows whose handle lies in the value of an ephemeron the mutator "
                                      "could get at, kept / cleared by it; chains = shapes with a WeakGc A in the value of "
                                      "an ephemeron B (no Gc in the value) whose key lives only through the value of an "
                                      "ephemeron C, by allocation order")
    if min(NESTED.values()) < 10000 or min(CHAINS.values()) < 3 or rep.counts.get("nest", 0) < 30000:
        raise vlib.ToolError(f"vacuity guard: nested weak rows are not exercised ({NESTED}, {CHAINS}, {rep.counts.get('nest', 0)} shapes)")
    ck.assumptions += ["the value of an ephemeron is built when it is created (weak handles are moved in, at most one handle "
                       "per WeakGc / Ephemeron box) and is immutable afterwards",
                       "histories need a mutator handle on every node they name (nodes only reachable through the heap are "
                       "re-acquired with load / upgrade)",
                       "weak rows on keys that a finalizer resurrected are cleared in the model (as the code does); the "
                       "property leaves it open, a deviation there is reported as drift",
                       "ephemeron-box and WeakMapBox counts are implementation-shaped (GcImpl): a mismatch is MODEL-DRIFT"]
    return ck.finish()


def action_coverage(opcount):
    """Every action of the MC specs leaves a trace in the emitted records: the mutator actions as operation kinds,
    the collector phases as collect records (every collect runs TraceNonRoots, MarkStrong, MarkEphInit, MarkEphRound,
    Unreachables, Sweep, ClearWeakMaps; Finalize / FinalizeWeak / Release run iff something was unreachable, which
    shows as a non-empty `fin` or a cleared weak row). Returns the list of actions never taken."""
    need = {"alloc": "Alloc", "clone": "Clone", "droph": "DropHandle", "link": "Link", "unlink": "Unlink", "load": "Load",
            "weak": "MkWeak", "upgrade": "Upgrade", "dropw": "DropWeak", "eph": "MkEph", "ephval": "EphValue",
            "drope": "DropEph", "wm": "MkWm", "wmins": "WmInsert", "wmrem": "WmRemove", "wmget": "WmGet",
            "dropwm": "DropWm", "arm": "Arm", "collect": "StartCollect..ClearWeakMaps",
            "collect:fin": "Finalize/FinalizeWeak/Release (something unreachable)",
            "collect:res": "Finalize with an armed finalizer (resurrection)",
            "upgrade:none": "Upgrade of a cleared WeakGc", "ephval:none": "EphValue of a cleared Ephemeron",
            "eph:ws": "MkEph moving weak handles into the value", "upgrade:nested": "Upgrade of a WeakGc in an ephemeron value",
            "ephval:nested": "EphValue of an Ephemeron in an ephemeron value"}
    return [a for k, a in need.items() if opcount.get(k, 0) == 0]
