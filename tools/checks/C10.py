"""C10 - Garbage collection is unobservable to scripts and leaves nothing behind.

Three clauses, three bindings:

(1) traces do not depend on where collections happen.  Reference semantics = spec/lang/JsCore.tla (it has no
    collector at all), configurations = collection at every n-th allocation for n in {1, 2, 3, 7, 50} (hook
    boa_gc::verif::set_stress) against no forced collection; tools/cfgdiff.py compares every configuration with the
    reference and with TLC's expectation (C01 grids + corpus/c10: small allocation-heavy programs).

(2) WeakRef / FinalizationRegistry report only what the program cannot reach any more, at most once.
    spec/heap/WeakRefs.tla is the observation model (objects, one field, WeakRefs, registrations with unregister
    tokens, KeptAlive list; Collect(C) for any closed set of unreachable objects is always enabled; TLC checks
    ReachableIsAlive, NoDangling, CleanupOnlyForCollected, Irreversible on it).  TLC generates host scripts
    (MCWeakRefs: simulation over the spec's own enabledness), hjs runs each script under several collection
    schedules and records what every step printed, and the recorded executions are VALIDATED AGAINST THE SPEC by TLC
    (spec/heap/WeakRefsTrace.tla: a silent Collect step, chosen by TLC, may precede every recorded step; an
    execution is accepted iff all its lines are matched).  A deref that returns undefined for an object that was
    reachable or kept alive at every possible collection point, a callback for a live/unregistered target, a second
    callback, or a target that comes back, leaves TLC without a matching behaviour.

(3) after a context is dropped and a collection ran, every box it allocated is gone: hjs reports the change of
    (strong boxes, ephemeron boxes, weak maps) of the thread's heap across the whole scenario (hook
    boa_gc::verif::stats); it must be (0, 0, 0) for every program of (1) under the default schedule and under
    stress, for the weak scripts of (2), and for a fixed list of builtin-heavy probes.
"""
import json
import os
import random
import sys
import time

sys.path.insert(0, os.path.dirname(os.path.dirname(os.path.abspath(__file__))))
import vlib
import jscore
import cfgdiff
from checks import C01 as c01

SPEC_DIR = os.path.join(vlib.SPEC, "heap")
GC_CONFIGS = [("default", {}), ("none", {"gc": 0}), ("gc:1", {"gc": 1}), ("gc:2", {"gc": 2}), ("gc:3", {"gc": 3}),
              ("gc:7", {"gc": 7}), ("gc:50", {"gc": 50})]


def churn_programs():
    """Access sites that meet objects of many short-lived shapes: whatever the engine keys on a freed shape (caches,
    weak tables) meets recycled allocations when collections fall between two executions of the site."""
    J = jscore
    I, S, n = J.ident, J.string, J.num
    out = []
    layouts = [("ax", [("a", 0), ("x", 1)]), ("xb", [("x", 1), ("b", 0)]), ("yxz", [("y", 0), ("x", 1), ("z", 0)]), ("x", [("x", 1)])]

    def mk(tag, keys, r):
        return J.obj(*[J.prop(k, J.binary("+", S(tag + k), r) if isx else r) for k, isx in keys])
    for form in ("get", "set", "proto", "method"):
        body = []
        for tag, keys in layouts:
            o = mk(tag, keys, I("r"))
            if form == "get":
                body += [J.let("o" + tag, o), J.print_(J.call(I("g"), I("o" + tag))), J.expr(J.assign(I("o" + tag), J.null()))]
            elif form == "set":
                body += [J.let("o" + tag, o), J.expr(J.call(I("s"), I("o" + tag), I("r"))), J.print_(J.member(I("o" + tag), "x"), J.member(I("o" + tag), "w")),
                         J.expr(J.assign(I("o" + tag), J.null()))]
            elif form == "proto":
                body += [J.let("p" + tag, o), J.let("c" + tag, J.call(I("mkc"), I("p" + tag))),
                         J.print_(J.call(I("g"), I("c" + tag))), J.expr(J.assign(I("p" + tag), J.null())), J.expr(J.assign(I("c" + tag), J.null()))]
            else:
                body += [J.let("m" + tag, J.obj(*([J.prop(k, I("r")) for k, isx in keys if not isx] + [J.prop("x", J.fn([], [J.return_(J.binary("+", S(tag), I("r")))]))]))),
                         J.print_(J.call(I("c"), I("m" + tag))), J.expr(J.assign(I("m" + tag), J.null()))]
        prog = [J.function("g", J.params("o"), [J.return_(J.member(I("o"), "x"))]),
                J.function("s", J.params("o", "v"), [J.expr(J.assign(J.member(I("o"), "w"), I("v"))), J.expr(J.assign(J.member(I("o"), "x"), I("v")))]),
                J.function("c", J.params("o"), [J.return_(J.call(J.member(I("o"), "x")))]),
                J.function("mkc", J.params("p"), [J.function("K", [], []), J.expr(J.assign(J.member(I("K"), "prototype"), I("p"))), J.return_(J.new(I("K")))]),
                J.for_(J.let("r", n(0)), J.binary("<", I("r"), n(6)), J.update("++", False, I("r")), J.block(*body))]
        out.append(("churn/" + form, J.program(prog)))
    return out


def weak_chain_programs():
    """WeakMap / WeakSet entries whose keys the program reaches only THROUGH the values of other entries (ephemeron chains):
    an entry must survive every collection while the head of its chain is reachable, whatever the order in which the entries
    were inserted (= allocation order of the ephemerons, which is the order the collector's fix-point visits them in), however
    many maps the chain runs through, and whether the value is the next key itself or an object / array / closure holding it.
    The text is outside MiniJS (no WeakMap in JsCore.tla): every collection schedule must print what the collection-free
    configuration prints, and that must be the closed form stated here (the whole chain, every time)."""
    import itertools
    out = []
    wraps = {"direct": ("%s", "%s"), "object": ("{next: %s}", "%s.next"), "array": ("[0, %s]", "%s[1]"),
             "closure": ("(function(v){ return function(){ return v } })(%s)", "%s()")}
    for depth in (2, 3, 4, 5):
        orders = list(itertools.permutations(range(depth))) if depth <= 4 else \
            [tuple(range(depth)), tuple(reversed(range(depth))), (4, 2, 0, 3, 1), (1, 3, 0, 2, 4), (2, 3, 4, 0, 1)]
        for order in orders:
            for wn, (wrap, unwrap) in wraps.items():
                if depth == 4 and wn not in ("direct", "object") and order != tuple(reversed(range(depth))):
                    continue
                for maps in (1, 2):
                    if maps == 2 and wn not in ("direct", "object"):
                        continue
                    name = "weakchain/d%d/%s/%s/m%d" % (depth, "".join(map(str, order)), wn, maps)
                    chain = ">".join(["head"] + ["n%d" % i for i in range(1, depth + 1)])
                    src = """var maps = [%s]; var head = {name: 'head'}; var ws = new WeakSet();
function churn(n){ var junk = []; for (var i = 0; i < n; i++) junk.push({i: i}); return junk.length }
function build(){ var nodes = [head]; for (var i = 1; i <= %d; i++) nodes.push({name: 'n' + i});
  var order = [%s]; for (var j = 0; j < order.length; j++) { var i = order[j]; maps[i %% maps.length].set(nodes[i], %s); ws.add(nodes[i + 1]) } }
function walk(){ var seen = [], cur = head, i = 0; while (cur !== undefined) { seen.push(cur.name + (i > 0 && !ws.has(cur) ? '!' : '')); var v = maps[i %% maps.length].get(cur); cur = v === undefined ? undefined : %s; i++ } return seen.join('>') }
build(); print(walk()); churn(8); print(walk()); churn(40); print(walk()); build(); churn(3); print(walk());
""" % (", ".join(["new WeakMap()"] * maps), depth, ", ".join(map(str, order)), wrap % "nodes[i + 1]", unwrap % "v")
                    out.append((name, src, ["s:" + chain] * 4))
    return out


def stale_entry_programs():
    """One polymorphic access site that has cached a short-lived shape BEFORE (or between) the shapes of long-lived objects:
    when a collection frees the short-lived shape, whatever the site does with the dead entry (drop it, compact the list,
    reuse the place) must not change what it answers for the live shapes, for reads and for stores.  Outside MiniJS
    (computed keys); every schedule must print the closed form."""
    out = []
    live = [("s2", "{p: 'p2', x: 'x2'}"), ("s3", "{x: 'x3', q: 'q3'}"), ("s4", "{a: 1, b: 2, c: 3, x: 'x4'}")]
    for nlive in (2, 3):
        for pos in range(nlive + 1):
            for kind in ("get", "set"):
                L = live[:nlive]
                decl = " ".join("var %s = %s;" % (n, lit) for n, lit in L)
                order = [n for n, _ in L]
                order.insert(pos, "DEAD")
                if kind == "get":
                    body = " ".join("out.push(warm(r));" if n == "DEAD" else "out.push(rd(%s));" % n for n in order)
                    after = " ".join("out.push(rd(%s));" % n for n, _ in L)
                    exp_round = lambda r: ["xd%dxd%d" % (r, r) if n == "DEAD" else "x" + n[1] for n in order] + ["x" + n[1] for n, _ in L]
                else:
                    body = " ".join("out.push(warm(r));" if n == "DEAD" else "wr(%s, '%s' + r); out.push(JSON.stringify(%s));" % (n, n, n) for n in order)
                    after = " ".join("wr(%s, 'w' + r); out.push(JSON.stringify(%s));" % (n, n) for n, _ in L)
                    import json as _j

                    def obj(n, v):
                        d = {"s2": [("p", "p2"), ("x", v)], "s3": [("x", v), ("q", "q3")], "s4": [("a", 1), ("b", 2), ("c", 3), ("x", v)]}[n]
                        return _j.dumps(dict(d), separators=(",", ":"))
                    exp_round = lambda r: ["xd%dxd%d" % (r, r) if n == "DEAD" else obj(n, n + str(r)) for n in order] + [obj(n, "w" + str(r)) for n, _ in L]
                src = """function rd(o){ return o.x } function wr(o, v){ o.x = v }
%s var out = [];
function warm(r){ var dead = {}; dead['k' + r] = r; dead.x = 'xd' + r; var a = %s; return a + %s }
for (var r = 0; r < 5; r++) { %s var junk = [{}, {}, [r]]; %s }
print(out.join(' '));
""" % (decl, "rd(dead)" if kind == "get" else "(wr(dead, 'xd' + r), dead.x)", "rd(dead)" if kind == "get" else "dead.x", body, after)
                exp = []
                for r in range(5):
                    exp += exp_round(r)
                out.append(("stale/%s/live%d/dead-at-%d" % (kind, nlive, pos), src, ["s:" + " ".join(exp)]))
    return out


def spec(tier):
    cfgs = GC_CONFIGS if tier == "thorough" else [c for c in GC_CONFIGS if c[0] in ("default", "none", "gc:1", "gc:3", "gc:50")]
    s = cfgdiff.Spec("C10", cfgs, "none", "c10", "no forced collection", {"quick": 250, "thorough": 1200})
    s.quick_grid, s.quick_corpus = 300, 150
    s.extra_items = churn_programs()
    wc = weak_chain_programs()
    s.raw_items = (wc if tier == "thorough" else [w for k, w in enumerate(wc) if k % 3 == 0 or "/d3/210/" in w[0] or "/d4/3210/" in w[0]]) \
        + stale_entry_programs()
    return s


# ------------------------------------------------------------------------------------------------ (3) leaks
LEAK_PROBES = [
    ("cycle", "var a = {}; var b = {a: a}; a.b = b; a.self = a; 0"),
    ("closure-cycle", "function mk(){ var o = {}; o.f = function(){ return o }; return o } var x = mk(); x.f(); 0"),
    ("throw", "var o = {big: [1,2,3]}; throw o"),
    ("generator-suspended", "function* g(){ var big = [1,2,3]; yield 1; yield big } var it = g(); it.next(); 0"),
    ("async-pending", "var r; var p = new Promise(function(res){ r = res }); async function f(){ await p; return 1 } f(); 0"),
    ("promise-chain", "Promise.resolve(1).then(function(v){ return v + 1 }).then(function(v){ globalThis.z = v }); 0"),
    ("map-set", "var m = new Map(); var s = new Set(); var k = {}; m.set(k, m); s.add(s); m.set(m, k); 0"),
    ("weakmap", "var wm = new WeakMap(); var k = {}; wm.set(k, {k: k}); var ws = new WeakSet(); ws.add(k); 0"),
    ("weakmap-cycle", "var wm = new WeakMap(); var k = {}; wm.set(k, wm); wm.set(wm, k); k = null; 0"),
    ("weakref-fr", "var t = {}; var w = new WeakRef(t); var fr = new FinalizationRegistry(function(h){}); fr.register(t, 1, t); 0"),
    ("proxy", "var p = new Proxy({}, {get: function(t, k){ return p }}); p.x.y.z; var r = Proxy.revocable({}, {}); r.revoke(); 0"),
    ("class", "class A { #p = 1; static s = new A(); m(){ return this.#p } } class B extends A { constructor(){ super(); this.b = A.s } } new B().m()"),
    ("bound-args", "function f(){ return arguments } var b = f.bind({}, 1, 2); var a = b(3); a.callee; 0"),
    ("array-buffer", "var ab = new ArrayBuffer(16, {maxByteLength: 32}); var u = new Uint8Array(ab); var dv = new DataView(ab); ab.resize(24); u[0] = 1; 0"),
    ("shared-buffer", "var sab = new SharedArrayBuffer(8); var i = new Int32Array(sab); Atomics.add(i, 0, 1); 0"),
    ("regexp", "var re = /(a)(?<n>b)/g; var m = re.exec('ab ab'); 'ab'.replace(re, function(){ return re }); m.groups.n"),
    ("date-json", "var d = new Date(0); JSON.stringify({d: d, a: [1, {b: 2}]}); JSON.parse('{\"a\":[1,{\"b\":2}]}', function(k, v){ return v }); 0"),
    ("iterator-open", "var it = [1,2,3][Symbol.iterator](); it.next(); var e = new Map([[1,2]]).entries(); e.next(); 0"),
    ("eval-function", "var f = new Function('a', 'return a + 1'); eval('var q = function(){ return f }'); q()(1)"),
    ("getter-proto", "var o = Object.create({get x(){ return this }}); o.x; Object.setPrototypeOf(o, null); 0"),
    ("symbol-registry", "var s = Symbol.for('k'); var o = {[s]: 1, [Symbol('d')]: 2}; Object.getOwnPropertySymbols(o).length"),
    ("template", "function tag(s){ return s } var t1 = tag`a${1}b`; var t2 = tag`a${1}b`; t1 === t2"),
    ("error-stack", "function f(){ try { null.x } catch (e) { return e } } var e = f(); e.stack; new AggregateError([e], 'm'); 0"),
    ("stack-limit", "function r(){ return r() } try { r() } catch (e) {} 0"),
    ("async-gen", "async function* ag(){ yield 1; await 2; yield 3 } var g = ag(); g.next(); g.return(5); 0"),
    ("realm-globals", "globalThis.self = globalThis; Object.defineProperty(globalThis, 'gg', {get: function(){ return globalThis }}); gg.self.gg === globalThis"),
]


def leak_clause(ck, binary, items, weak_scripts, tier):
    scen = []
    for name, src in LEAK_PROBES:
        for cn, cfg in (("default", {}), ("gc:1", {"gc": 1}), ("gc:3", {"gc": 3})):
            c = dict(cfgdiff.SAFETY)
            c["rec"] = 200
            c.update(cfg)
            scen.append({"id": "probe/%s/%s" % (name, cn), "cfg": c, "leak": True,
                         "steps": [{"kind": "eval", "src": src}, {"kind": "jobs"}, {"kind": "eval", "src": "typeof globalThis"}]})
    step = 1 if tier == "thorough" else 3
    for i, (name, ast) in enumerate(items[::step]):
        for cn, cfg in (("default", {}), ("gc:2", {"gc": 2})):
            c = dict(cfgdiff.SAFETY)
            c.update(cfg)
            scen.append({"id": "prog/%d/%s" % (i * step, cn), "cfg": c, "leak": True,
                         "steps": [{"kind": "eval", "src": jscore.render(ast)}, {"kind": "jobs"}]})
    for j, ops in enumerate(weak_scripts[: (400 if tier == "thorough" else 120)]):
        scen.append({"id": "weak/%d" % j, "cfg": {"gc": 0}, "leak": True, "steps": weak_steps(ops)})
    res = c01.run_hjs(binary, scen)
    bad = 0
    for s in scen:
        r = res[s["id"]]
        if "leak" not in r:
            how = str(r.get("panic") or r.get("abort"))
            ck.failure("leak-clause: engine failure in %s: %s" % (s["id"].split("/")[0] + "/" + s["id"].split("/")[1], how[:120]),
                       {"scenario": s, "result": r})
            bad += 1
        elif r["leak"] != [0, 0, 0]:
            kind = s["id"].split("/")[0]
            what = s["id"].split("/")[1] if kind == "probe" else kind
            ck.failure("leak: %s leaves boxes behind after the context is dropped" % what,
                       {"scenario": s, "leak": r["leak"], "meaning": "(strong boxes, ephemeron boxes, weak maps) still allocated"})
            bad += 1
    ck.cov["leak_scenarios"] = len(scen)
    ck.cov["leak_failures"] = bad
    return len(scen)


# ------------------------------------------------------------------------------------------------ (2) weak observations
PRELUDE = ("var v1 = null, v2 = null, v3 = null, w1, w2, fr1, fr2;"
           "function mkfr(){ return new FinalizationRegistry(function(h){ print('fin', h) }) }"
           "function unreg(t){ var a = fr1 ? fr1.unregister(t) : false; var b = fr2 ? fr2.unregister(t) : false; return a || b }"
           "function peek(w){ var t = w.deref(); return t === undefined ? 0 : t.id } 0")


def weak_steps(ops):
    steps = [{"kind": "eval", "src": PRELUDE}]
    for o in ops:
        a, x, y, z = o["a"], o["x"], o["y"], o["z"]
        if a == "new":
            src = "v%d = {id: %d, f: null}; 0" % (x, x)
        elif a == "drop":
            src = "v%d = null; 0" % x
        elif a == "unlink":
            src = "v%d.f = null; 0" % x
        elif a == "link":
            src = "v%d.f = v%d; 0" % (x, y)
        elif a == "load":
            src = "v%d = v%d.f; 0" % (x, y)
        elif a == "mkwr":
            src = "w%d = new WeakRef(v%d); 0" % (x, y)
        elif a == "deref":
            src = "print(peek(w%d))" % x
        elif a == "reg":
            src = "fr%d = mkfr(); fr%d.register(v%d, %d%s); 0" % (x, x, y, x, (", v%d" % z) if z else "")
        elif a == "unreg":
            src = "print(unreg(v%d))" % x
        elif a == "gc":
            steps.append({"kind": "gc"})
            continue
        elif a == "jobs":
            steps.append({"kind": "jobsclear"})
            continue
        elif a == "clear":
            steps.append({"kind": "clearkept"})
            continue
        else:
            raise vlib.ToolError("unknown weak action %r" % (a,))
        steps.append({"kind": "eval", "src": src})
    return steps


def weak_lines(ops, res):
    """trace lines of one execution, or a string describing why the execution cannot be expressed (engine failure)"""
    if "steps" not in res:
        return "engine failure: " + str(res.get("panic") or res.get("abort"))[:200]
    out = []
    for o, st in zip(ops, res["steps"][1:]):
        line = dict(o)
        a = o["a"]
        if not st["c"].startswith("value:"):
            return "step %s ended with %s" % (json.dumps(o), st["c"])
        if a == "deref":
            if len(st["out"]) != 1 or not st["out"][0].startswith("n:"):
                return "deref printed %r" % (st["out"],)
            line["o"] = int(st["out"][0][2:])
        elif a == "unreg":
            if st["out"] not in (["b:true"], ["b:false"]):
                return "unregister printed %r" % (st["out"],)
            line["o"] = st["out"] == ["b:true"]
        elif a == "jobs":
            held = []
            for l in st["out"]:
                if not l.startswith("s:fin n:"):
                    return "jobs printed %r" % (st["out"],)
                held.append(int(l[8:]))
            line["o"] = held
        else:
            if st["out"]:
                return "step %s printed %r" % (a, st["out"])
            line["o"] = 0
        out.append(line)
    return out


def generate_scripts(tier, seed):
    n = 500 if tier == "quick" else 6000
    seen, scripts = set(), []

    def on(tag, o):
        if tag == "SCRIPT":
            k = json.dumps(o, sort_keys=True)
            if k not in seen:
                seen.add(k)
                scripts.append(o)
    r = vlib.run_tlc(os.path.join(SPEC_DIR, "MCWeakRefs.tla"), "MCWeakRefs_gen.cfg", workers=4, simulate=n, depth=14, tseed=seed,
                     on_tagged=on, timeout=900)
    if not r["ok"]:
        vlib.log(r["raw_tail"])
        raise vlib.ToolError("MCWeakRefs generation failed")
    # scripts that can show something: at least one weak observation point after a drop
    good = [s for s in scripts if any(o["a"] in ("deref", "jobs") for o in s) and any(o["a"] in ("mkwr", "reg") for o in s)]
    # hand-written regression scripts (KeptAlive, unregister, cycles, token = target)
    L = lambda a, x=0, y=0, z=0: {"a": a, "x": x, "y": y, "z": z}
    fixed = [
        [L("new", 1), L("mkwr", 1, 1), L("drop", 1), L("gc"), L("deref", 1), L("clear"), L("gc"), L("deref", 1), L("deref", 1)],
        [L("new", 1), L("reg", 1, 1), L("drop", 1), L("gc"), L("jobs"), L("jobs")],
        [L("new", 1), L("new", 2), L("reg", 1, 1, 2), L("drop", 1), L("unreg", 2), L("gc"), L("jobs")],
        [L("new", 1), L("reg", 1, 1, 1), L("mkwr", 1, 1), L("clear"), L("drop", 1), L("gc"), L("deref", 1), L("jobs")],
        [L("new", 1), L("new", 2), L("link", 1, 2), L("link", 2, 1), L("mkwr", 1, 2), L("clear"), L("drop", 2), L("gc"), L("deref", 1),
         L("drop", 1), L("gc"), L("deref", 1), L("clear"), L("gc"), L("deref", 1)],
        [L("new", 1), L("new", 2), L("link", 1, 2), L("mkwr", 1, 2), L("reg", 1, 2), L("clear"), L("drop", 2), L("gc"), L("deref", 1),
         L("jobs"), L("load", 2, 1), L("drop", 1), L("gc"), L("deref", 1), L("jobs")],
        [L("new", 1), L("mkwr", 1, 1), L("mkwr", 2, 1), L("clear"), L("drop", 1), L("deref", 1), L("gc"), L("deref", 2), L("clear"),
         L("gc"), L("deref", 1), L("deref", 2)],
        [L("new", 1), L("reg", 1, 1), L("reg", 2, 1), L("drop", 1), L("gc"), L("jobs"), L("gc"), L("jobs")],
    ]
    return fixed + kept_alive_scripts() + good, r["states"], len(scripts)


def kept_alive_scripts():
    """Directed family for the KeptAlive list (the random walk of MCWeakRefs_gen rarely lines these up): a target that is
    only weakly reachable is dereferenced in a turn whose kept-objects list already holds something else (another WeakRef was
    constructed or dereferenced earlier in the same turn, in every order), a collection follows in the same turn, and the
    reference is dereferenced again before and after the list is cleared.  WeakRefs.tla decides what may be printed."""
    import itertools
    L = lambda a, x=0, y=0, z=0: {"a": a, "x": x, "y": y, "z": z}
    out = []
    # (w2 created before the turn?, operations that put something on the kept-objects list)
    pres = [(False, []), (False, [L("mkwr", 2, 2)]), (True, [L("deref", 2)]), (False, [L("mkwr", 2, 2), L("deref", 2)]),
            (True, [L("deref", 2), L("deref", 2)]), (False, [L("new", 3), L("mkwr", 2, 3)]), (False, [L("new", 3), L("mkwr", 2, 3), L("drop", 3)])]
    for w2_before, pre in pres:
        has_w2 = w2_before or any(o["a"] == "mkwr" for o in pre)
        uses_v3 = any(o["a"] == "new" for o in pre)
        for turn_end in ("clear", "jobs"):
            for early in (False, True):
                for mid in ([L("gc")], [L("gc"), L("gc")], [L("new", 3), L("gc")]):
                    if uses_v3 and len(mid) == 2 and mid[0]["a"] == "new":
                        continue
                    ops = [L("new", 1), L("new", 2), L("mkwr", 1, 1)] + ([L("mkwr", 2, 2)] if w2_before else []) + [L(turn_end), L("drop", 1)]
                    ops += ([L("deref", 1)] + pre) if early else (pre + [L("deref", 1)])
                    tail2 = [L("deref", 2)] if has_w2 else []
                    ops += mid + [L("deref", 1)] + tail2 + [L(turn_end), L("gc"), L("deref", 1)] + tail2
                    out.append(ops)
    return out


def validate(traces):
    """traces: list of (key, lines). One TLC run per round over the concatenation; returns (states, rejected [(key, line index)])"""
    todo = list(traces)
    rejected, states, rounds = [], 0, 0
    os.makedirs(vlib.WORK, exist_ok=True)
    while todo:
        rounds += 1
        path = os.path.join(vlib.WORK, "c10-trace-%d.ndjson" % os.getpid())
        starts, n = [], 0
        with open(path, "w") as f:
            for key, lines in todo:
                starts.append(n)
                for l in lines:
                    f.write(json.dumps(l) + "\n")
                f.write('{"a":"reset","x":0,"y":0,"z":0,"o":0}\n')
                n += len(lines) + 1
        try:
            r = vlib.run_tlc(os.path.join(SPEC_DIR, "WeakRefsTrace.tla"), "WeakRefsTrace.cfg", workers=1, dfs=True,
                             env_extra={"TRACE": path}, timeout=1500, xmx="4g")
        finally:
            os.unlink(path)
        states += r["distinct"]
        if r["ok"]:
            break
        um = [o for t, o in r["tagged"] if t == "UNMATCHED"]
        if not um:
            vlib.log(r["raw_tail"])
            raise vlib.ToolError("trace validation failed without an UNMATCHED report")
        at = um[0]["at"] - 1
        k = max(j for j, st in enumerate(starts) if st <= at)
        rejected.append((todo[k][0], at - starts[k]))
        todo = todo[:k] + todo[k + 1:]
        if rounds > 40:
            raise vlib.ToolError("more than 40 rejected executions; giving up")
    return states, rejected


def weak_signature(ops, idx, cfgname):
    """the script up to the rejected line with the arguments that matter, the schedule class"""
    short = " ".join("%s%s" % (o["a"], "".join(str(o[k]) for k in ("x", "y", "z") if o[k])) for o in ops[: idx + 1])
    return "weak: %s [schedule %s]" % (short, "forced-only" if cfgname == "gc:0" else "stress")


def weak_clause(ck, binary, tier, seed):
    scripts, gen_states, gen_total = generate_scripts(tier, seed)
    cfgs = [("gc:0", {"gc": 0}), ("gc:1", {"gc": 1}), ("gc:2", {"gc": 2}), ("gc:5", {"gc": 5})]
    scen = []
    for j, ops in enumerate(scripts):
        for cn, cfg in cfgs:
            scen.append({"id": "%d/%s" % (j, cn), "cfg": dict(cfg), "steps": weak_steps(ops)})
    res = c01.run_hjs(binary, scen)
    traces, obs_undef, obs_fin, ndistinct = [], 0, 0, set()
    for j, ops in enumerate(scripts):
        for cn, _ in cfgs:
            lines = weak_lines(ops, res["%d/%s" % (j, cn)])
            if isinstance(lines, str):
                ck.failure("weak: engine failure while running a script: " + lines[:100], {"script": ops, "config": cn, "how": lines})
                continue
            traces.append(((j, cn), lines))
            if any(l["a"] == "deref" and l["o"] == 0 for l in lines):
                obs_undef += 1
            if any(l["a"] == "jobs" and l["o"] for l in lines):
                obs_fin += 1
            ndistinct.add(json.dumps([[l["a"], l["o"]] for l in lines if l["a"] in ("deref", "jobs", "unreg")]))
    states, rejected = validate(traces)
    for (j, cn), idx in rejected:
        ops = scripts[j]
        lines = dict(traces)[(j, cn)]
        ck.failure(weak_signature(ops, idx, cn), {"script": ops, "config": cn, "recorded": lines, "first_unmatched_line": lines[idx] if idx < len(lines) else "reset",
                                                   "meaning": "no behaviour of WeakRefs.tla (with any choice of silent collections) explains this line"})
    ck.cov["weak"] = {"scripts": len(scripts), "generated_by_tlc": gen_total, "executions_validated": len(traces), "rejected": len(rejected),
                      "executions_with_a_collected_target": obs_undef, "executions_with_a_cleanup_callback": obs_fin,
                      "distinct_observation_sequences": len(ndistinct), "trace_states": states, "generation_states": gen_states}
    if obs_undef < 20 or obs_fin < 5:
        raise vlib.ToolError("vacuity guard: collections were observed in only %d executions, callbacks in %d" % (obs_undef, obs_fin))
    for k in (0, len(traces) // 2):
        if traces:
            ck.sample({"weak_execution": traces[k][1][:10], "config": traces[k][0][1]})
    return scripts, len(traces), states


def design_gate(ck, tier):
    r = vlib.run_tlc(os.path.join(SPEC_DIR, "MCWeakRefs.tla"), "MCWeakRefs_mc.cfg" if tier == "thorough" else "MCWeakRefs_mcq.cfg",
                     workers=4, timeout=1500)
    vlib.tlc_must_pass(r, "WeakRefs.tla invariants")
    ck.cov["weak_design_states"] = r["distinct"]
    return r


def run(tier, replay=None):
    sp = spec(tier)
    holder = {}

    def extra(ck, runner, items, tier_):
        design_gate(ck, tier_)
        scripts, nval, tstates = weak_clause(ck, runner.binary, tier_, vlib.seed())
        nleak = leak_clause(ck, runner.binary, items, scripts, tier_)
        ck.cov["traces_validated_against_impl"] += nval + nleak
        ck.cov["evaluations"] += nval + nleak
        ck.cov["states"] += ck.cov["weak_design_states"] + tstates
        ck.cov["transitions"] += ck.cov["weak_design_states"] + tstates
        ck.assumptions += ["only WeakRef.deref and cleanup callbacks are treated as legitimate ways to observe a collection; how long "
                           "an unreachable object survives is not constrained (the property says 'may')",
                           "box counts come from the boa_gc::verif::stats hook of the replay thread; memory outside the boa_gc heap is not measured"]
    return cfgdiff.run(sp, tier, replay, extra=extra)


if __name__ == "__main__":
    if sys.argv[1] == "build-corpus":
        cfgdiff.build_corpus(spec("thorough"), sys.argv[4] if len(sys.argv) > 4 else "small", int(sys.argv[2]), int(sys.argv[3]))
    elif sys.argv[1] == "vet":
        cfgdiff.vet(spec("quick"), sys.argv[2] if len(sys.argv) > 2 else "thorough")
