"""C03 - Every compiled code block is well-formed on all of its paths.

Binding mode (C): TLC model-checks artifacts the real compiler produced.  `hdump` (harness crate) compiles
each program of the corpus with the engine built from /repo's working tree and dumps every code block through
the hook `CodeBlock::verif_dump` / the `ByteCompiler::finish` log; `spec/vm/CodeBlockWF.tla` takes the dump as its
constant and interprets every block abstractly over its control-flow graph (all paths, exceptional edges
included), checking operand ranges, jump/handler targets and the three depths (environment chain,
binding-reference stack, value stack above the register file).

Second half (B): the effect table of the specification is bound to the VM by running handler-free programs with
the per-instruction depth hook and requiring that every executed instruction found exactly the depths TLC
assigned to its pc."""
import hashlib
import json
import os
import random
import re
import subprocess

import vlib

# C03_SPEC: development override (binding demonstrations with a deliberately corrupted copy of the specification)
SPEC = os.environ.get("C03_SPEC") or os.path.join(vlib.SPEC, "vm", "CodeBlockWF.tla")
CORPUS = os.path.join(vlib.ROOT, "corpus", "c03")
LEFTOVER = ("handler-leftover", "handler-leftover-bind")
BATCH = 4000          # compilations per TLC run, at most
BATCH_INSTR = 250000  # instructions per TLC run, about


# ---------------------------------------------------------------- inputs

def load_corpus():
    progs = []
    for fn, origin in (("hand.jsonl", "hand"), ("extracted.jsonl", "extracted")):
        p = os.path.join(CORPUS, fn)
        for line in open(p):
            o = json.loads(line)
            progs.append({"name": o.get("name") or f"{origin}/{o.get('file', '')}#{len(progs)}", "src": o["src"],
                          "kind": o.get("kind", "script"), "strict": bool(o.get("strict", False)), "origin": origin})
    return progs


def quick_slice(progs):
    """Deterministic slice for the quick tier: everything hand-written outside the big template products, every
    sixth program of the products and of the extracted snippets (offset chosen by the seed)."""
    off = vlib.seed() % 6
    out = []
    k = 0
    for p in progs:
        n = p["name"]
        product = n.startswith(("exit/", "assign/", "call/", "call_in_try/", "fn/", "update/")) or (n.startswith("exitscope/") and not n.startswith("exitscope/function/")) or p["origin"] == "extracted"
        if not product:
            out.append(p)
        else:
            k += 1
            if k % 6 == off:
                out.append(p)
    return out


TOKEN = re.compile(r"""[A-Za-z_$][\w$]*|\d+(?:\.\d+)?n?|`(?:[^`\\]|\\.)*`|'(?:[^'\\]|\\.)*'|"(?:[^"\\]|\\.)*"|\?\?=|\|\|=|&&=|\*\*=|>>>=|===|!==|\.\.\.|=>|\?\.|[-+*/%&|^<>=!]=|\+\+|--|&&|\|\||\?\?|\*\*|<<|>>>|>>|\S""")
SWAPS = [("break", "continue"), ("continue", "break"), ("let", "var"), ("const", "let"), ("var", "let"), ("??=", "||="), ("||=", "&&="),
         ("&&=", "??="), ("=", "??="), ("+=", "="), ("return", "throw"), ("throw", "return"), ("try", "if (1)"), ("finally", "catch (q)"),
         ("of", "in"), ("yield", "yield*"), ("await", ""), ("async", ""), ("function", "function*"), ("?.", "."), (".", "?."),
         ("super", "this"), ("static", ""), ("get", "set"), ("...", ""), ("=>", "=> 0 +"), ("while", "if"), ("if", "while")]


def mutants(progs, rng, count):
    """Seeded token-level mutants of corpus programs; only those the parser accepts are analysed."""
    out = []
    tries = 0
    progs = [p for p in progs if len(p["src"]) <= 1500]      # small bases: the volume goes into variety, not size
    while len(out) < count and tries < count * 4:
        tries += 1
        p = rng.choice(progs)
        toks = TOKEN.findall(p["src"])
        if len(toks) < 4:
            continue
        how = rng.randrange(6)
        i = rng.randrange(len(toks))
        t = list(toks)
        if how == 0:
            del t[i]
        elif how == 1:
            t.insert(i, t[i])
        elif how == 2:
            j = rng.randrange(len(t))
            t[i], t[j] = t[j], t[i]
        elif how == 3:
            cands = [(a, b) for a, b in SWAPS if a in t]
            if not cands:
                continue
            a, b = rng.choice(cands)
            idx = [k for k, x in enumerate(t) if x == a]
            t[rng.choice(idx)] = b
        elif how == 4:      # splice a statement-ish chunk from another program
            q = rng.choice(progs)
            qt = TOKEN.findall(q["src"])
            if len(qt) < 4:
                continue
            a = rng.randrange(len(qt))
            t[i:i] = qt[a:a + rng.randrange(1, 12)]
        else:               # wrap a chunk in a construct with control-flow consequences
            j = min(len(t), i + rng.randrange(1, 10))
            pre, post = rng.choice([("try {", "} finally { }"), ("for (var mi of [1]) {", "}"), ("{ let ml = 1; (() => ml);", "}"),
                                    ("L9: {", "break L9; }"), ("with ({}) {", "}"), ("if (mc) {", "} else { }")])
            t[i:j] = [pre] + t[i:j] + [post]
        src = " ".join(t)
        out.append({"name": f"mutant/{tries}/{p['name']}", "src": src, "kind": p["kind"], "strict": p["strict"], "origin": "mutant"})
    return out


# ---------------------------------------------------------------- classification

def ins_at(block, pc):
    for k, i in enumerate(block["code"]):
        if i["pc"] == pc:
            return k, i
    return None, None


CONST_STORES = ("StoreZero", "StoreOne", "StoreInt8", "StoreInt16", "StoreInt32")


def finally_regions(block):
    """[(lo, hi)] byte ranges of finally blocks, computed like RegionsOf in CodeBlockWF.tla: for each JumpTable at pc hi on
    register r, lo = smallest target of a `Jump` that directly follows a constant store to r after the previous JumpTable on r."""
    code = block["code"]
    out = []
    last = {}
    for j, ins in enumerate(code):
        if ins["op"] != "JumpTable":
            continue
        r = ins["a"]["index"]
        ents = [code[i + 1]["a"]["address"] for i in range(last.get(r, -1) + 1, j - 1)
                if code[i]["op"] in CONST_STORES and code[i]["a"].get("dst") == r and code[i + 1]["op"] == "Jump"]
        out.append((min(ents) if ents else ins["pc"], ins["pc"]))
        last[r] = j
    return out


def leaves_finally(block, src, target):
    return any(lo <= src <= hi and not (lo <= target <= hi) for lo, hi in finally_regions(block))


SC_OPS = ("LogicalAnd", "LogicalOr", "Coalesce")


def sc_root(block, pc, info):
    """merge-mismatch that is the short-circuit-assignment leak itself: one of the two arrivals comes from a
    LogicalAnd/LogicalOr/Coalesce that follows GetNameAndLocator and jumps here, with one more binding reference."""
    e1, b1, a1, s1, e2, b2, a2, s2 = info
    if e1 != e2 or a1 != a2 or abs(b1 - b2) != 1:
        return None
    src = s2 if b2 > b1 else s1
    sk, sins = ins_at(block, src)
    if (sins is not None and sins["op"] in SC_OPS and sins["a"].get("address") == pc and sk > 0
            and block["code"][sk - 1]["op"] == "GetNameAndLocator"
            and block["code"][sk - 1]["a"].get("dst") == sins["a"].get("value")):
        return sins, src
    return None


def classify(comp, v, roots=None, sc_roots=None):
    """Maps one violation <<kind, block, pc, info>> of TLC to (signature, human detail).  The signature of a known
    finding is a fixed string; anything else gets a signature made of the kind and the opcode it was found at.
    `roots` / `sc_roots`: block numbers in which a parked-return leak / a short-circuit-assignment leak was identified
    (see classify_all)."""
    kind, b, pc, info = v
    block = comp["blocks"][b - 1]
    k, ins = ins_at(block, pc)
    op = ins["op"] if ins else "?"
    if kind in LEFTOVER:
        return kind, f"{kind} at {op}@{pc} of '{block['name']}': arrives with {info[1]}, handler set up with {info[2]}"
    if kind == "exc-env-underflow":
        # a break/continue/return record pops environments and then runs its clean-up (iterator close, async epilogue)
        # while still inside the protected range whose handler expects the un-popped depth
        h = block["handlers"][info[0] - 1]
        if any(i["op"] == "PopEnvironment" and h["s"] <= i["pc"] < pc for i in block["code"]):
            return ("exit-cleanup-below-handler-environment",
                    f"{op}@{pc} of '{block['name']}' can raise with environment depth {info[1]} inside the range of handler {info[0]} "
                    f"(environment_count {info[2]})")
    if kind == "merge-mismatch" and len(info) == 8:
        e1, b1, a1, s1, e2, b2, a2, s2 = info
        r = sc_root(block, pc, info)
        if r:
            return ("short-circuit-assign-leaves-binding-reference",
                    f"{r[0]['op']}@{r[1]} of '{block['name']}' skips SetNameByLocator: binding reference left at {pc}")
        if e1 == e2 and a1 == a2 and b1 != b2 and sc_roots is not None and b in sc_roots:
            return ("short-circuit-assign-leaves-binding-reference",
                    f"'{block['name']}': the binding reference left by a short-circuit assignment travels on (depth {max(b1, b2)} vs {min(b1, b2)} at {pc})")
        if e1 != e2 and b1 == b2 and a1 == a2 and block["async"] and op in ("MaybeException", "AsyncGeneratorClose") \
                and any(h["h"] == pc and h["s"] < h["e"] and h["env"] == min(e1, e2) for h in block["handlers"]):
            # the completion code of an async body is both the landing pad of the body's handler (environment_count of the
            # function entry) and the fall-through of a body whose lexical scopes are still open
            return ("async-completion-merges-scope-depths",
                    f"'{block['name']}': {op}@{pc} is reached with environment depth {max(e1, e2)} by normal completion and {min(e1, e2)} through the async handler")
        if e1 == e2 and b1 == b2 and a1 != a2:
            big = s1 if a1 > a2 else s2
            if leaves_finally(block, big, pc) or (roots is not None and b in roots):
                return ("finally-abrupt-exit-leaves-parked-return",
                        f"'{block['name']}': a break/continue out of a finally block abandons the return value parked on the stack "
                        f"(depth {max(a1, a2)} vs {min(a1, a2)} at {pc}, from {big})")
    if kind == "exc-bind-underflow" and sc_roots is not None and b in sc_roots:
        return ("short-circuit-assign-leaves-binding-reference",
                f"'{block['name']}': a handler was set up on the path that carries the binding reference left by a short-circuit assignment ({op}@{pc})")
    if kind == "exc-args-underflow" and roots is not None and b in roots:
        return ("finally-abrupt-exit-leaves-parked-return",
                f"'{block['name']}': a handler was set up on the path that carries an abandoned parked return value ({op}@{pc})")
    if kind == "return-depth" and sc_roots is not None and b in sc_roots:
        return ("short-circuit-assign-leaves-binding-reference",
                f"'{block['name']}': Return@{pc} with the binding reference left by a short-circuit assignment")
    sig = {"kind": kind, "op": op}
    return sig, f"{kind} at {op}@{pc} of '{block['name']}' info={info}"


def has_short_circuit_locator(block):
    """The block contains `GetNameAndLocator r; LogicalAnd|LogicalOr|Coalesce r -> L` (a short-circuit assignment to a
    non-lexical binding): the jump to L leaves the binding reference behind, whether or not the other path is live."""
    code = block["code"]
    return any(code[k]["op"] in SC_OPS and code[k - 1]["op"] == "GetNameAndLocator"
               and code[k - 1]["a"].get("dst") == code[k]["a"].get("value") for k in range(1, len(code)))


def has_abrupt_finally_exit(block):
    """The block contains a finally block (region of a JumpTable) with a jump that leaves it other than through the
    JumpTable (break / continue out of finally): a return value parked on the stack is abandoned on that edge."""
    regions = finally_regions(block)
    for lo, hi in regions:
        for i in block["code"]:
            if lo <= i["pc"] < hi and i["op"] != "JumpTable":
                t = i["a"].get("address")
                if isinstance(t, int) and not (lo <= t <= hi):
                    return True
    return False


def classify_all(comp, viols):
    """Classifies all violations of one compilation.  A leak identified in a block explains the other disagreements
    of the same stack in that block (the surplus travels around loops and down to Return): parked return values for
    the value stack, short-circuit assignments for the binding-reference stack.  The leaking construct is identified
    from the code itself, because the path that would disagree with it at the join can be dead."""
    roots = set()
    sc_roots = set()
    for b in {v[1] for v in viols}:
        block = comp["blocks"][b - 1]
        if has_short_circuit_locator(block):
            sc_roots.add(b)
        if has_abrupt_finally_exit(block):
            roots.add(b)
    return [classify(comp, v, roots, sc_roots) for v in viols]


def excerpt(block, pc, width=8):
    k, _ = ins_at(block, pc)
    if k is None:
        k = 0
    out = []
    for i in block["code"][max(0, k - width):k + width]:
        out.append(("=> " if i["pc"] == pc else "   ") + f"{i['pc']:5d} {i['op']} {json.dumps(i['a'], sort_keys=True)}")
    return out


# ---------------------------------------------------------------- machinery

def engine_dir():
    """Directory of the boa_engine crate the harness is built against (the mirror of a scratch worktree or /repo)."""
    text = open(os.path.join(vlib.HARNESS, "Cargo.toml")).read()
    m = re.search(r'boa_engine\s*=\s*\{\s*path\s*=\s*"([^"]+)"', text)
    return m.group(1) if m else "/repo/core/engine"


def compile_all(binary, progs, extra=None):
    scen = []
    for i, p in enumerate(progs):
        s = {"id": i, "src": p["src"], "kind": p["kind"], "strict": p["strict"]}
        if extra:
            s.update(extra)
        scen.append(s)
    return vlib.run_lines(binary, scen, timeout_per_batch=1200)


def run_tlc_batches(ck, comps, tier, depths_from=None):
    """comps: list of (meta, comp).  Returns [(meta, comp, RESULT record)], the DEPTHS records (for compilations with
    index >= depths_from), and TLC's state counts."""
    os.makedirs(vlib.WORK, exist_ok=True)
    results = {}
    depth_rows = []
    states = trans = 0
    sigfile = os.path.join(vlib.WORK, f"c03-sig-{os.getpid()}.json")
    # batches of at most BATCH compilations and about BATCH_INSTR instructions (one JVM start each)
    bounds = []
    lo = 0
    while lo < len(comps):
        hi = lo
        n = 0
        while hi < len(comps) and hi - lo < BATCH and (n < BATCH_INSTR or hi == lo):
            n += sum(len(b["code"]) for b in comps[hi][1]["blocks"])
            hi += 1
        bounds.append((lo, hi))
        lo = hi
    for lo, hi in bounds:
        part = comps[lo:hi]
        dump = os.path.join(vlib.WORK, f"c03-dump-{os.getpid()}-{lo}.ndjson")
        with open(dump, "w") as f:
            for _m, c in part:
                f.write(json.dumps(c) + "\n")

        def on_tagged(tag, obj, lo=lo):
            if tag == "RESULT":
                results[lo + obj["c"] - 1] = obj
            elif tag == "DEPTHS":
                obj["c"] = lo + obj["c"] - 1
                depth_rows.append(obj)
            elif tag == "SIG":
                if obj["bad"]:
                    raise vlib.ToolError("the engine's instruction set differs from the opcode table of the specification for "
                                         f"{obj['bad'][:8]}: classify the opcode(s) in tools/c03_optable.py and regenerate spec/vm/CodeBlockOps.tla")
        env = {"DUMP": dump, "SIG": sigfile}
        if depths_from is not None and depths_from < lo + len(part):
            env["DEPTHS"] = str(max(1, depths_from - lo + 1))
        r = vlib.run_tlc(SPEC, "MCCodeBlockWF.cfg", workers=8, env_extra=env, on_tagged=on_tagged, timeout=1700,
                         xmx="12g")
        os.unlink(dump)
        vlib.tlc_must_pass(r, f"CodeBlockWF batch {lo}")
        states += r["distinct"]
        trans += r["states"]
        ck.cov.setdefault("checker_cmd", r["cmd"] + " (DUMP=<ndjson of compilations> SIG=<hdump --sig>)")
    missing = [i for i in range(len(comps)) if i not in results]
    if missing:
        raise vlib.ToolError(f"TLC produced no RESULT for {len(missing)} compilations (first: {missing[0]})")
    return [(comps[i][0], comps[i][1], results[i]) for i in range(len(comps))], depth_rows, states, trans


def write_sig(binary):
    p = subprocess.run([binary, "--sig"], stdout=subprocess.PIPE, stderr=subprocess.PIPE, text=True)
    if '"nohook"' in p.stdout or p.returncode == 3:
        raise vlib.ToolError("the C03 hook (core/engine/src/verif/codeblock.rs, cfg boa_verif) is missing from the engine under "
                             f"{engine_dir()}: apply work/proposals/C03-hook/hook.patch")
    if p.returncode != 0:
        raise vlib.ToolError(f"hdump --sig failed: {p.stderr[-300:]}")
    sig = json.loads(p.stdout)
    with open(os.path.join(vlib.WORK, f"c03-sig-{os.getpid()}.json"), "w") as f:
        f.write(json.dumps(sig) + "\n")
    return sig


# ---------------------------------------------------------------- dynamic half

def dynamic_half(ck, progs, triples, depth_rows, events):
    """Compares the per-instruction depth events of executed programs with the depths TLC assigned statically.
    events: prog index -> list of [frames, block id, pc, env, bind, args, iterators]."""
    static = {}          # (prog, block id) -> pc -> set of (env, bind, args)
    for row in depth_rows:
        meta, _comp, _ = triples[row["c"]]
        tab = static.setdefault((meta["prog"], row["id"]), {})
        for d in row["d"]:
            tab.setdefault(d[0], set()).update(tuple(x) for x in d[1:])
    handlers = {}        # prog -> any block with handlers?
    dirty = set()        # (prog, block id) with a statically reported finding: the surplus is real at run time
    dirty_env = set()    # ... where the finding is an environment-depth disagreement (async completion code)
    opname = {}
    for meta, comp, resu in triples:
        pg = meta["prog"]
        if pg not in events:
            continue
        for b in comp["blocks"]:
            handlers[pg] = handlers.get(pg, False) or bool(b["handlers"])
            for i in b["code"]:
                opname[(pg, b["id"], i["pc"])] = i["op"]
        for v, (sig_, _h) in zip(resu["v"], classify_all(comp, resu["v"])):
            if v[0] != "return-leftover":
                dirty.add((pg, comp["blocks"][v[1] - 1]["id"]))
            if sig_ == "async-completion-merges-scope-depths":
                dirty_env.add((pg, comp["blocks"][v[1] - 1]["id"]))
    exact = loose = 0
    ops_exact = set()
    for prog, evs in events.items():
        free = not handlers.get(prog, False)
        for ev in evs:
            _frames, blk, pc, env, bind, args, _iters = ev
            tab = static.get((prog, blk))
            if tab is None:
                continue        # not a block of this program's compilations
            opts = tab.get(pc)
            op = opname.get((prog, blk, pc), "?")
            if not opts:
                ck.failure({"kind": "executed-but-statically-unreachable", "op": op},
                           {"program": progs[prog]["src"], "block": blk, "pc": pc, "event": ev})
                continue
            if free and (prog, blk) not in dirty:
                exact += 1
                ops_exact.add(op)
                if (env, bind, args) not in opts:
                    ck.failure({"kind": "dynamic-depth-mismatch", "op": op},
                               {"program": progs[prog]["src"], "block": blk, "pc": pc, "observed": [env, bind, args], "static": sorted(opts)})
            else:
                # handlers do not restore the stacks, known leaks are real: the static depths are lower bounds
                loose += 1
                env_ok = (lambda o: env >= o[0]) if (prog, blk) in dirty_env else (lambda o: env == o[0])
                if not any(env_ok(o) and bind >= o[1] and args >= o[2] for o in opts):
                    ck.failure({"kind": "dynamic-depth-below-static", "op": op},
                               {"program": progs[prog]["src"], "block": blk, "pc": pc, "observed": [env, bind, args], "static": sorted(opts)})
    ck.cov.update(dynamic_programs=len(events), dynamic_events_exact=exact, dynamic_events_lower_bound=loose,
                  dynamic_opcodes_exact=len(ops_exact))
    return exact


# ---------------------------------------------------------------- entry point

def run(tier, replay=None):
    ck = vlib.Check("C03", tier, "model_checking", replay)
    if not os.path.exists(os.path.join(engine_dir(), "src", "verif", "codeblock.rs")):
        raise vlib.ToolError("the C03 hook (core/engine/src/verif/codeblock.rs, cfg boa_verif) is missing from the engine under "
                             f"{engine_dir()}: apply work/proposals/C03-hook/hook.patch")
    bindir = vlib.build_harness(["hdump"])
    binary = os.path.join(bindir, "hdump")
    os.makedirs(vlib.WORK, exist_ok=True)
    sig = write_sig(binary)
    table_ops = set(re.findall(r'^\s*"(\w+)" :> Op\(', open(os.path.join(os.path.dirname(SPEC), "CodeBlockOps.tla")).read(), re.M))

    # the committed table against the handlers' source (who can raise, operand types): a difference that the engine's own
    # signature report does not show (e.g. a handler that became fallible) is model drift, not a violation
    try:
        import c03_optable
        repo_root = os.path.normpath(os.path.join(engine_dir(), "..", ".."))
        if c03_optable.generate(repo_root) != open(os.path.join(os.path.dirname(SPEC), "CodeBlockOps.tla")).read():
            ck.drift += 1
            vlib.log("MODEL-DRIFT: spec/vm/CodeBlockOps.tla differs from what tools/c03_optable.py derives from the engine source "
                     "(regenerate it and review the diff)")
    except SystemExit as e:
        raise vlib.ToolError(str(e))

    progs = load_corpus()
    rng = random.Random(vlib.seed())
    replay_prog = None
    if replay:
        d = json.load(open(replay)).get("detail", {})
        if d.get("program") is not None:
            replay_prog = {"name": d.get("name", "replay"), "src": d["program"], "kind": d.get("kind", "script"),
                           "strict": bool(d.get("strict", False)), "origin": "hand"}
    if replay_prog is not None:
        # exactly the recorded program, compiled once and (if a script) also run with the depth hook
        progs = [replay_prog, dict(replay_prog, name=replay_prog["name"] + "/compile-only", origin="replay")]
    elif tier == "quick":
        progs = quick_slice(progs)
    else:
        progs = progs + mutants(progs, rng, 4000)
        # programs of the MiniJS generator that the language-level checks use (seeded; only compiled here)
        try:
            import jscore
            for k, ast in enumerate(jscore.gen_programs(vlib.seed(), 1500, "c01")):
                progs.append({"name": f"jscore/{k}", "src": jscore.render(ast), "kind": "script", "strict": False, "origin": "jscore"})
        except Exception as e:      # the generator belongs to another check: its absence must not fail this one
            ck.assumptions.append(f"tools/jscore.py programs not included ({type(e).__name__}: {e})")
    # programs that are also executed (dynamic half): scripts of the committed corpus; they are compiled through the
    # "run" path, which also captures blocks compiled later by eval / Function
    ndyn = 250 if tier == "quick" else 2500
    dyn_idx = [i for i, p in enumerate(progs) if p["kind"] == "script" and p["origin"] in ("hand", "extracted") and not p["strict"]]
    rng.shuffle(dyn_idx)
    dyn_idx = set(dyn_idx[:ndyn])
    res = compile_all(binary, [p for i, p in enumerate(progs) if i not in dyn_idx])
    res_dyn = compile_all(binary, [p for i, p in enumerate(progs) if i in dyn_idx], extra={"kind": "run", "events": 3000})
    order = [i for i in range(len(progs)) if i not in dyn_idx] + [i for i in range(len(progs)) if i in dyn_idx]
    merged = {}
    k1 = k2 = 0
    for i in range(len(progs)):
        if i in dyn_idx:
            merged[i] = res_dyn.get(k2); k2 += 1
        else:
            merged[i] = res.get(k1); k1 += 1

    comps = []
    status = {}
    events = {}
    depths_from = None
    for i in order:
        p = progs[i]
        r = merged.get(i) or {"status": "abort"}
        st = r.get("status", "abort" if "abort" in r else "?")
        status[st] = status.get(st, 0) + 1
        if st in ("panic", "abort", "decode_panic", "?"):
            # the compiler (or the decoder walking its output) failed on a program the parser accepted
            ck.failure({"kind": ("run-" if i in dyn_idx else "compile-") + st, "where": re.sub(r"\d+", "N", str(r.get("panic") or r.get("abort"))[-80:])},
                       {"program": p["src"], "name": p["name"], "result": {k: v for k, v in r.items() if k != "comps"}})
            continue
        if i in dyn_idx and depths_from is None:
            depths_from = len(comps)
        if i in dyn_idx and r.get("events"):
            events[i] = r["events"]
        for c in r.get("comps", []):
            comps.append(({"prog": i}, c))
    if replay_prog is None and len(comps) < (300 if tier == "quick" else 3000):
        raise vlib.ToolError(f"vacuity guard: only {len(comps)} compilations to check ({status})")

    triples, depth_rows, states, trans = run_tlc_batches(ck, comps, tier, depths_from=depths_from)

    blocks = instr = reached = excedges = analysed = 0
    ops_seen = set()
    kinds = {}
    for meta, comp, resu in triples:
        blocks += len(comp["blocks"])
        for b in comp["blocks"]:
            instr += len(b["code"])
            ops_seen.update(i["op"] for i in b["code"])
        reached += resu["n"]
        analysed += resu["nb"]
        if resu["nb"] < len(comp["blocks"]):
            raise vlib.ToolError(f"TLC analysed {resu['nb']} of {len(comp['blocks'])} blocks of a compilation")
        excedges += resu["x"]
        for v, (sig_, human) in zip(resu["v"], classify_all(comp, resu["v"])):
            kinds[v[0]] = kinds.get(v[0], 0) + 1
            if v[0] == "return-leftover":
                continue        # information: values left at Return are dropped with the frame
            if v[0] == "unknown-opcode":
                raise vlib.ToolError(f"opcode unknown to the table: {human}")
            p = progs[meta["prog"]]
            ck.failure(sig_, {"what": human, "program": p["src"], "name": p["name"], "kind": p["kind"], "strict": p["strict"],
                              "violation": v, "code": excerpt(comp["blocks"][v[1] - 1], v[2])})
    # every action of the specification must have been taken (counters kept by the model itself): StartBlock/FinishBlock
    # per analysed block, Step expanding states, exceptional edges, re-arrivals compared at merge points
    merges = sum(r["m"] for _m, _c, r in triples)
    if not (analysed > 0 and reached > 0 and excedges > 0 and merges > 0):
        raise vlib.ToolError(f"vacuity guard: actions not exercised (blocks {analysed}, states {reached}, exceptional edges {excedges}, merges {merges})")
    real_ops = {s["op"] for s in sig if not s["op"].startswith("Reserved")}
    ck.cov.update(states=states, transitions=trans, traces_validated_against_impl=len(comps), programs=len(progs),
                  program_status=status, blocks_checked=blocks, block_analyses=analysed, instructions_in_blocks=instr, abstract_states_expanded=reached,
                  exceptional_edges=excedges, merge_comparisons=merges, opcodes_in_engine=len(real_ops), opcodes_in_table=len(table_ops & real_ops),
                  opcodes_seen=len(ops_seen), opcodes_never_seen=sorted(real_ops - ops_seen), violation_kinds=kinds,
                  evaluations=reached + excedges, distinct_nontrivial=sum(1 for _m, c, _r in triples if any(b["handlers"] for b in c["blocks"])),
                  rule="one TLC behaviour per compilation (all blocks, recursively through function constants); every instruction reachable in the "
                       "control-flow graph is expanded once per jump-table context; non-trivial = compilations with at least one exception handler")
    for s in triples[:3]:
        ck.sample({"program": progs[s[0]["prog"]]["src"][:200], "blocks": len(s[1]["blocks"]), "result": {k: s[2][k] for k in ("n", "x", "nb")}})
    if replay_prog is None and ck.cov["distinct_nontrivial"] < (100 if tier == "quick" else 1000):
        raise vlib.ToolError("vacuity guard: too few compilations with handlers")
    if replay_prog is None and len(ops_seen) < 150:
        raise vlib.ToolError(f"vacuity guard: only {len(ops_seen)} opcodes occur in the dumps")

    exact = dynamic_half(ck, progs, triples, depth_rows, events)
    if replay_prog is None and exact < 2000:
        raise vlib.ToolError(f"vacuity guard: only {exact} depth events were compared exactly")
    ck.assumptions += [
        "the dump hook decodes with the VM's own InstructionIterator: a block the VM would decode differently is not modelled",
        "`throws`/effects of opcodes come from tools/c03_optable.py (read off the handlers); the dynamic half validates them on executed paths only",
        "iterator-stack depth is data dependent (IteratorReturn, IteratorFinishAsyncNext) and is not tracked",
        "blocks compiled by eval/Function at run time have an unknown absolute environment base: locator and scope-position checks are skipped for them",
    ]
    try:
        os.unlink(os.path.join(vlib.WORK, f"c03-sig-{os.getpid()}.json"))
    except OSError:
        pass
    return ck.finish()
