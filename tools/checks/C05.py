"""C05 - The AST optimizer (on by default) preserves semantics.

Model: spec/lang/JsCore.tla evaluates the program as written (no rewriting): it is the optimizer-off semantics and
referees every comparison (tools/cfgdiff.py).
Binding (A): every program runs with OptimizerOptions::empty() (reference) and with every non-empty subset of
{CONSTANT_FOLDING, STRENGTH_REDUCTION, DEAD_CODE_ELIMINATION} (the default build is the full set); print trace
(which contains every valueOf/toString/getter call the program makes observable) and completion must be equal.
Programs: the C01 interaction grids (operator x operand-class with observable coercions among them) and the
committed corpus corpus/c05 (profile: literal-heavy expressions, observable coercions, literal conditions around
declarations, labelled blocks), each as a script and as a function body entered through JsObject::call.

Development:  python3 tools/checks/C05.py build-corpus <seed> <n> | vet
"""
import itertools
import os
import sys

sys.path.insert(0, os.path.dirname(os.path.dirname(os.path.abspath(__file__))))
import vlib
import cfgdiff

BITS = {"fold": 2, "strength": 4, "dce": 8}


def configs(tier):
    out = [("default", {"opt": 14}), ("off", {"opt": 0})]
    for r in (1, 2):
        for c in itertools.combinations(sorted(BITS), r):
            out.append(("opt:" + "+".join(c), {"opt": sum(BITS[k] for k in c)}))
    return out


def litcond_programs():
    """Conditions made of literals only (they fold to a constant, then the dead-code pass decides on it): every falsy and
    truthy special value x every statement form with observable branches and operands with observable coercions."""
    import jscore as J
    I, S, n = J.ident, J.string, J.num
    nan = J.binary("/", n(0), n(0))
    conds = {
        "nan-div": nan, "nan-str": J.unary("+", S("abc")), "nan-mul": J.binary("*", S("x"), n(2)), "nan-sub": J.binary("-", J.undef(), n(1)),
        "negzero": J.unary("-", n(0)), "zero": n(0), "zero-mul": J.binary("*", n(0), J.unary("-", n(1))), "empty": S(""), "str0": S("0"), "space": S(" "),
        "null": J.null(), "undef": J.undef(), "void": J.unary("void", n(1)), "not0": J.unary("!", n(0)), "notnot-empty": J.unary("!", J.unary("!", S(""))),
        "inf": J.binary("/", n(1), n(0)), "ninf": J.binary("/", J.unary("-", n(1)), n(0)), "inf-inf": J.binary("-", J.binary("/", n(1), n(0)), J.binary("/", n(1), n(0))),
        "one": n(1), "true": J.boolean(True), "false": J.boolean(False), "cmp-nan": J.binary("<", nan, n(1)), "eq-nan": J.binary("===", nan, nan),
        "typeof": J.binary("===", J.unary("typeof", n(1)), S("number")), "coalesce": J.logical("??", J.null(), n(0)), "and": J.logical("&&", n(1), S("")),
        "or": J.logical("||", n(0), nan), "concat": J.binary("+", S(""), S("")), "mod": J.binary("%", n(5), n(0)), "shift": J.binary("<<", n(1), n(32)),
        "bitor-nan": J.binary("|", nan, n(0)), "neg-nan": J.unary("-", nan), "pow": J.binary("**", n(0), n(0)),
    }
    obs = J.let("o", J.obj(J.prop("valueOf", J.fn([], [J.print_(S("valueOf")), J.return_(n(2))]))))
    out = []
    for cn, c in conds.items():
        forms = {
            "if-else": [J.if_(c, J.block(J.print_(S("then"), I("o"))), J.block(J.print_(S("else"), J.binary("*", I("o"), n(2)))))],
            "if": [J.print_(S("pre")), J.if_(c, J.print_(S("then"))), J.print_(S("post"))],
            "cond": [J.print_(J.cond(c, J.binary("+", I("o"), n(1)), J.binary("-", I("o"), n(1))))],
            "while": [J.let("k", n(0)), J.while_(c, J.block(J.print_(S("body")), J.expr(J.update("++", False, I("k"))), J.if_(J.binary(">", I("k"), n(1)), J.break_())))],
            "for": [J.for_(J.let("k", n(0)), J.logical("&&", c, J.binary("<", I("k"), n(2))), J.update("++", False, I("k")), J.print_(S("for"), I("k")))],
            "dowhile": [J.let("k", n(0)), J.dowhile(J.block(J.print_(S("do")), J.expr(J.update("++", False, I("k")))), J.logical("&&", c, J.binary("<", I("k"), n(2))))],
            "and": [J.expr(J.logical("&&", c, J.call(I("t"), S("rhs"))))],
            "or": [J.expr(J.logical("||", c, J.call(I("t"), S("rhs"))))],
            "not-if": [J.if_(J.unary("!", c), J.print_(S("neg")), J.print_(S("pos")))],
            "value": [J.print_(c, J.unary("typeof", c))],
        }
        for fn_, body in forms.items():
            prog = [J.function("t", J.params("x"), [J.print_(S("t"), I("x")), J.return_(I("x"))]), obs] + body
            out.append(("litcond/%s/%s" % (cn, fn_), J.program(prog)))
    return out


def spec(tier):
    s = cfgdiff.Spec("C05", configs(tier), "off", "c05", "optimizer disabled", {"quick": 350, "thorough": 1500})
    s.quick_grid, s.quick_corpus = 400, 200
    s.extra_items = litcond_programs()
    return s


def run(tier, replay=None):
    import jscore
    jscore.LOOSE = True         # bare atomic operands and conditions: the optimizer matches literals syntactically
    return cfgdiff.run(spec(tier), tier, replay)


if __name__ == "__main__":
    import jscore
    jscore.LOOSE = True
    if sys.argv[1] == "build-corpus":
        cfgdiff.build_corpus(spec("thorough"), "c05", int(sys.argv[2]), int(sys.argv[3]))
    elif sys.argv[1] == "vet":
        cfgdiff.vet(spec("quick"), sys.argv[2] if len(sys.argv) > 2 else "thorough")
