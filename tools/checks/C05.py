"""C05 - The AST optimizer (on by default) preserves semantics.

Model: spec/lang/JsCore.tla evaluates the program as written (no rewriting): it is the optimizer-off semantics and
referees every comparison (tools/cfgdiff.py).
Binding (A): every program runs with OptimizerOptions::empty() (reference) and with every non-empty subset of
{CONSTANT_FOLDING, STRENGTH_REDUCTION, DEAD_CODE_ELIMINATION} (the default build is the full set); print trace
(which contains every valueOf/toString/getter call the program makes observable) and completion must be equal.
Programs: the C01 interaction grids (operator x operand-class with observable coercions among them) and the
committed corpus corpus/c05 (profile: literal-heavy expressions, observable coercions, literal conditions around
declarations, labelled blocks), each as a script and as a function body entered through JsObject::call.

Development:  python3 tools/checks/C05.py build-corpus <seed> <n> | vet
"""
import itertools
import os
import sys

sys.path.insert(0, os.path.dirname(os.path.dirname(os.path.abspath(__file__))))
import vlib
import cfgdiff

BITS = {"fold": 2, "strength": 4, "dce": 8}


def configs(tier):
    out = [("default", {"opt": 14}), ("off", {"opt": 0})]
    for r in (1, 2):
        for c in itertools.combinations(sorted(BITS), r):
            out.append(("opt:" + "+".join(c), {"opt": sum(BITS[k] for k in c)}))
    return out


def spec(tier):
    s = cfgdiff.Spec("C05", configs(tier), "off", "c05", "optimizer disabled", {"quick": 350, "thorough": 1500})
    s.quick_grid, s.quick_corpus = 400, 200
    return s


def run(tier, replay=None):
    return cfgdiff.run(spec(tier), tier, replay)


if __name__ == "__main__":
    if sys.argv[1] == "build-corpus":
        cfgdiff.build_corpus(spec("thorough"), "c05", int(sys.argv[2]), int(sys.argv[3]))
    elif sys.argv[1] == "vet":
        cfgdiff.vet(spec("quick"), sys.argv[2] if len(sys.argv) > 2 else "thorough")
