"""C14 - Array behaviour is independent of the internal element storage.

Model: spec/objects/ArrayAlgo.tla (ECMA-262 object semantics + Array.prototype algorithms over an abstract
element store), ArraySpec.tla (reference store: index -> descriptor), ArrayStorage.tla (boa's five storage
forms + fast paths, refinement to ArraySpec checked by TLC).
Binding (A): TLC enumerates every edge (state x operation) of the storage-shaped state graph and emits the
reference observation of every step; each history is rendered to one strict-mode JS program that applies it
(a) to a real array, (b) through Array.prototype.X.call on an equivalent plain array-like built from the
model's pre-state, (c) to a Proxy-wrapped array with a forwarding handler, and dumps length / own keys /
descriptors / return values natively after every step (harness crate harr = hjs + optional storage-kind hook)."""
import json, os, random, multiprocessing
import vlib

SPEC = os.path.join(vlib.SPEC, "objects", "MCArray.tla")
GETTER_CAP = 4

# ------------------------------------------------------------------ rendering of model values

JS_LIT = {"i0": "0", "i1": "1", "i2": "2", "i10": "10", "f1.5": "1.5", "-0": "-0", "NaN": "NaN",
          "sa": '"a"', "sg": '"g"', "obj": "OBJ", "u": "undefined", "P": '"P"'}
NATIVE = {"i0": "n:0", "i1": "n:1", "i2": "n:2", "i10": "n:10", "f1.5": "n:b:3FF8000000000000", "-0": "n:-0",
          "NaN": "n:NaN", "sa": "s:a", "sg": "s:g", "obj": "s:@obj", "u": "u", "self": "s:@self", "P": "s:P"}
PDESC = {
    "gk": "{get: Gk, enumerable: true, configurable: true}",
    "gks": "{get: Gk, set: Sn, enumerable: true, configurable: true}",
    "gx": "{get: Gx, set: Sn, enumerable: true, configurable: true}",
    "gknc": "{get: Gk}",
    "ro": "{value: 2, writable: false, enumerable: true, configurable: true}",
    "ne": "{enumerable: false}",
    "nc": "{configurable: false}",
    "v1": "{value: 1}",
    "full": "{value: 1.5, writable: true, enumerable: true, configurable: true}",
}

PRELUDE = r'''"use strict";
var OBJ = {}, CUR = null, HOP = Object.prototype.hasOwnProperty, PR = print, NOP = function () {};
var Gk = function () { return "g"; };
var Gx = function () { if (this.length < %d) { try { this[this.length] = 1; } catch (e) {} } return "g"; };
var Sn = function (v) {};
var H = {
  get: function (t, k, r) { return Reflect.get(t, k, r); },
  set: function (t, k, v, r) { return Reflect.set(t, k, v, r); },
  has: function (t, k) { return Reflect.has(t, k); },
  deleteProperty: function (t, k) { return Reflect.deleteProperty(t, k); },
  defineProperty: function (t, k, d) { return Reflect.defineProperty(t, k, d); },
  getOwnPropertyDescriptor: function (t, k) { return Reflect.getOwnPropertyDescriptor(t, k); },
  ownKeys: function (t) { return Reflect.ownKeys(t); },
  preventExtensions: function (t) { return Reflect.preventExtensions(t); },
  isExtensible: function (t) { return Reflect.isExtensible(t); },
  getPrototypeOf: function (t) { return Reflect.getPrototypeOf(t); }
};
function enc(v) {
  if ((typeof v === "object" && v !== null) || typeof v === "function") return v === OBJ ? "@obj" : v === CUR ? "@self" : "@other";
  return v;
}
function fn(f) { return f === undefined ? "" : f === Gk ? "k" : f === Gx ? "x" : f === Sn ? "n" : "?"; }
function dump(T) {
  var ks = Reflect.ownKeys(T);
  PR("D", ks.length, Reflect.isExtensible(T), Array.isArray(T));
  for (var j = 0; j < ks.length; j++) {
    var k = ks[j], d = Reflect.getOwnPropertyDescriptor(T, k);
    if (d === undefined) { PR("K", k, "missing"); continue; }
    if (HOP.call(d, "value") || HOP.call(d, "writable")) PR("K", k, "d", enc(d.value), d.writable, d.enumerable, d.configurable);
    else PR("K", k, "a", fn(d.get), fn(d.set), d.enumerable, d.configurable);
  }
}
function pret(r) {
  if (r === CUR) { PR("R", "self"); return; }
  if (Array.isArray(r)) { PR("R", "arr", Reflect.getPrototypeOf(r) === Array.prototype); dump(r); return; }
  PR("R", "v", enc(r));
}
function perr(e) {
  var p = (typeof e === "object" && e !== null) ? Reflect.getPrototypeOf(e) : null;
  PR("T", p === TypeError.prototype ? "TypeError" : p === RangeError.prototype ? "RangeError" : "other");
}
function mkL(len, lw, ext, props) {
  var L = {};
  Object.defineProperty(L, "length", {value: len, writable: true, enumerable: false, configurable: false});
  for (var j = 0; j < props.length; j++) Object.defineProperty(L, props[j][0], props[j][1]);
  if (!lw) Object.defineProperty(L, "length", {writable: false});
  if (!ext) Object.preventExtensions(L);
  return L;
}
var A, P, L, C0, C1;
function KIND(o) { return typeof __kind === "function" ? __kind(o) : "?"; }
''' % GETTER_CAP


def b(x):
    return "b:true" if x else "b:false"


def jb(x):
    return "true" if x else "false"


def desc_lines(key, t):
    """t = [kind, ...] as produced by DescT in the model"""
    if t[0] == "d":
        return "s:K s:%s s:d %s %s %s %s" % (key, NATIVE[t[1]], b(t[2]), b(t[3]), b(t[4]))
    return "s:K s:%s s:a s:%s s:%s %s %s" % (key, t[1], t[2], b(t[3]), b(t[4]))


def dump_lines(d, is_array):
    n = len(d["ix"]) + 1 + len(d["sk"])
    out = ["s:D n:%d %s %s" % (n, b(d["ext"]), b(is_array))]
    for e in d["ix"]:
        out.append(desc_lines(str(e[0]), e[1:]))
    out.append("s:K s:length s:d n:%d %s b:false b:false" % (d["len"], b(d["lw"])))
    for e in d["sk"]:
        out.append(desc_lines(e[0], e[1:]))
    return out


def ret_lines(ret, keylist=False):
    k = ret[0]
    if k == "throw":
        return ["s:T s:" + ret[1]]
    if k == "ok":
        return ["s:R s:ok"]
    if k == "none":
        return []
    if k == "v":
        return ["s:R s:v " + NATIVE[ret[1]]]
    if k == "n":
        return ["s:R s:v n:%d" % ret[1]]
    if k == "b":
        return ["s:R s:v " + b(ret[1])]
    if k == "s":
        return ["s:R s:v s:" + ret[1]]
    if k == "self":
        return ["s:R s:self"]
    if k == "arr":
        return ["s:R s:arr b:true"] + dump_lines(ret[1], True)
    if k == "listv":
        return ret_lines(["list", ret[1]])[:-1] + ret_lines(ret[2])
    if k == "list":
        out = []
        for it in ret[1]:
            if isinstance(it, list):
                out.append("s:I n:%d %s" % (it[0], NATIVE[it[1]]))
            elif isinstance(it, int):
                out.append("s:I n:%d" % it)
            elif keylist:
                out.append("s:I s:" + it)
            else:
                out.append("s:I " + NATIVE[it])
        return out + ["s:R s:end"]
    raise vlib.ToolError("unknown ret kind %r" % (ret,))


def js_desc(t):
    if t[0] == "d":
        return "{value: %s, writable: %s, enumerable: %s, configurable: %s}" % (JS_LIT[t[1]], jb(t[2]), jb(t[3]), jb(t[4]))
    g = {"": "undefined", "k": "Gk", "x": "Gx"}[t[1]]
    s = {"": "undefined", "n": "Sn"}[t[2]]
    return "{get: %s, set: %s, enumerable: %s, configurable: %s}" % (g, s, jb(t[3]), jb(t[4]))


def js_mkl(d):
    props = ", ".join("[%d, %s]" % (e[0], js_desc(e[1:])) for e in d["ix"])
    return "mkL(%d, %s, %s, [%s])" % (d["len"], jb(d["lw"]), jb(d["ext"]), props)


def js_list(items):
    return ", ".join(JS_LIT[v] for v in items)


def js_arr_lit(els):
    return "[" + ",".join("" if e == "hole" else JS_LIT[e] for e in els) + ("," if els and els[-1] == "hole" else "") + "]"


STRING_KEYS = {"x": '"x"', "4294967295": "4294967295"}
METHODS = {"push", "pop", "shift", "unshift", "splice", "fill", "copyWithin", "reverse", "sort", "concat", "slice",
           "flat", "indexOf", "lastIndexOf", "includes", "join", "at", "with", "toReversed", "toSorted", "toSpliced",
           "keys", "values", "entries", "spread", "map", "filter", "forEach", "find", "findIndex", "findLast",
           "findLastIndex", "some", "every", "reduce", "reduceRight", "flatMap", "from"}


def opt(has, v):
    return (", %d" % v) if has else ""


def method_args(op):
    k = op["k"]
    if k in ("push", "unshift"):
        return js_list(op["items"])
    if k in ("splice", "toSpliced"):
        a = "%d%s" % (op["start"], opt(op["hasDc"], op["dc"]))
        if op["items"]:
            a += ", " + js_list(op["items"])
        return a
    if k == "fill":
        return "%s, %d%s" % (JS_LIT[op["v"]], op["start"], opt(op["hasEnd"], op["end"]))
    if k == "copyWithin":
        return "%d, %d%s" % (op["target"], op["start"], opt(op["hasEnd"], op["end"]))
    if k == "slice":
        return "%d%s" % (op["start"], opt(op["hasEnd"], op["end"]))
    if k == "concat":
        return ", ".join(JS_LIT[i["v"]] if i["t"] == "v" else js_arr_lit(i["els"]) for i in op["items"])
    if k in ("indexOf", "includes"):
        return "%s, %d" % (JS_LIT[op["v"]], op["from"])
    if k == "lastIndexOf":
        return "%s%s" % (JS_LIT[op["v"]], opt(op["hasFrom"], op["from"]))
    if k == "join":
        return json.dumps(op["sep"])
    if k == "at":
        return "%d" % op["i"]
    if k == "with":
        return "%d, %s" % (op["i"], JS_LIT[op["v"]])
    if k == "map":
        return "function (x) { return x; }"
    if k == "filter":
        return "function (x) { return true; }"
    if k == "forEach":
        return 'function (x) { PR("I", enc(x)); }'
    if k in ("find", "findIndex", "findLast", "findLastIndex", "some"):
        return 'function (x) { PR("I", enc(x)); return false; }'
    if k == "every":
        return 'function (x) { PR("I", enc(x)); return true; }'
    if k in ("reduce", "reduceRight"):
        return 'function (acc, x) { PR("I", enc(x)); return acc; }, 0'
    if k == "flatMap":
        return "function (x) { return x; }"
    return ""


def op_code(op, T, like):
    """JS statements applying op to the target expression T (like: through Array.prototype.X.call)."""
    k = op["k"]
    if k in METHODS:
        args = method_args(op)
        if k == "spread":
            return "pret([...%s]);" % (("Array.prototype.values.call(%s)" % T) if like else T)
        if k == "from":
            return "pret(Array.from(%s));" % T
        call = ("Array.prototype.%s.call(%s%s)" % (k, T, (", " + args) if args else "")) if like else ("%s.%s(%s)" % (T, k, args))
        if k in ("keys", "values", "entries"):
            pr = 'PR("I", x.value[0], enc(x.value[1]))' if k == "entries" else 'PR("I", enc(x.value))'
            return 'var it = %s; for (;;) { var x = it.next(); if (x.done) break; %s; } PR("R", "end");' % (call, pr)
        if k == "forEach":
            return '%s; PR("R", "end");' % call
        return "pret(%s);" % call
    ok = ' PR("R", "ok");'
    if k == "store":
        return "%s[%d] = %s;%s" % (T, op["i"], JS_LIT[op["v"]], ok)
    if k == "read":
        return "pret(%s[%d]);" % (T, op["i"])
    if k == "setlen":
        return "%s.length = %d;%s" % (T, op["n"], ok)
    if k == "badlen":
        return "%s.length = -1;%s" % (T, ok)
    if k == "delete":
        return "delete %s[%d];%s" % (T, op["i"], ok)
    if k == "define":
        return "Object.defineProperty(%s, %d, %s);%s" % (T, op["i"], PDESC[op["p"]], ok)
    if k == "deflen":
        f = []
        if op["hasV"]:
            f.append("value: %d" % op["n"])
        if op["hasW"]:
            f.append("writable: %s" % jb(op["w"]))
        return 'Object.defineProperty(%s, "length", {%s});%s' % (T, ", ".join(f), ok)
    if k == "freeze":
        return "Object.freeze(%s);%s" % (T, ok)
    if k == "seal":
        return "Object.seal(%s);%s" % (T, ok)
    if k == "pe":
        return "Object.preventExtensions(%s);%s" % (T, ok)
    if k == "stores":
        return "%s[%s] = %s;%s" % (T, STRING_KEYS[op["key"]], JS_LIT[op["v"]], ok)
    if k == "deletes":
        return "delete %s[%s];%s" % (T, STRING_KEYS[op["key"]], ok)
    if k == "okeys":
        return 'var r = Object.keys(%s); for (var j = 0; j < r.length; j++) PR("I", r[j]); PR("R", "end");' % T
    if k == "forin":
        return 'for (var k in %s) PR("I", k); PR("R", "end");' % T
    if k == "ownnames":
        return 'var r = Object.getOwnPropertyNames(%s); for (var j = 0; j < r.length; j++) PR("I", r[j]); PR("R", "end");' % T
    if k == "ovalues":
        return 'var r = Object.values(%s); for (var j = 0; j < r.length; j++) PR("I", enc(r[j])); PR("R", "end");' % T
    if k == "hasIn":
        return "pret(%d in %s);" % (op["i"], T)
    raise vlib.ToolError("unknown op kind %r" % k)


CACHED_SITE_KINDS = {"setlen", "badlen", "stores", "deletes"}


def js_create(l):
    c = l.get("c", "lit")
    if c == "new":
        return "new Array(%s)" % js_list(l["els"])
    if c == "len":
        return "new Array(%d)" % l["n"]
    return js_arr_lit(l["els"])


def prefix_code(var, prefix, proxy=False):
    """Straight-line code (every code site executed once, so no inline-cache hit) that builds the state reached by
    `prefix` in variable `var`, without printing."""
    lit = js_create(prefix[0]["op"])
    body = ["%s = %s; PR = NOP;" % (var, ("new Proxy(%s, H)" % lit) if proxy else lit)]
    for st in prefix[1:]:
        body.append("CUR = %s; try { %s } catch (e) {}" % (var, op_code(st["op"], var, False)))
    body.append("PR = print;")
    return " ".join(body)


def step_block(n, st, pre_d, prefix):
    """JS + expectation for one operation applied in the worlds A (array), P (proxy), L (array-like) and, for
    operations compiled to a named-property store, C (the same code site already executed once on another array,
    so that the inline cache is hot).  prefix: rebuild the state first (node mode) or None (linear mode)."""
    op = st["op"]
    kl = op["k"] in ("okeys", "forin", "ownnames")
    src = []
    exp = {}
    for w in ("A", "P"):
        src.append('%sprint("W", %d, "%s"); CUR = %s; try { %s } catch (e) { perr(e); } dump(%s);%s'
                   % ((prefix_code(w, prefix, w == "P") + " ") if prefix else "", n, w, w, op_code(op, w, False), w,
                      ' print("S", KIND(A));' if w == "A" else ""))
        exp[w] = ret_lines(st["ret"], kl) + dump_lines(st["d"], True)
    if op["k"] in METHODS:
        src.append('print("W", %d, "L"); L = %s; CUR = L; try { %s } catch (e) { perr(e); } dump(L);'
                   % (n, js_mkl(pre_d), op_code(op, "L", True)))
        exp["L"] = ret_lines(st["lret"]) + dump_lines(st["ld"], False)
    if prefix and op["k"] in CACHED_SITE_KINDS:
        src.append('%s %s var f%d = function (T) { %s }; PR = NOP; try { f%d(C0); } catch (e) {} PR = print; '
                   'print("W", %d, "C"); CUR = C1; try { f%d(C1); } catch (e) { perr(e); } dump(C1);'
                   % (prefix_code("C0", prefix), prefix_code("C1", prefix), n, op_code(op, "T", False), n, n, n))
        exp["C"] = exp["A"]
    return "\n".join(src), exp


PROTO_IDX = []          # indices at which Object.prototype has the data property "P" (ProtoIdx of the configuration being replayed)


def prelude():
    """PRELUDE plus the inherited index properties of the configuration: arrays, array-likes, proxies and the arrays the
    methods create all inherit them from Object.prototype"""
    return PRELUDE + "".join('\nObject.defineProperty(Object.prototype, "%d", {value: "P", writable: true, enumerable: false, configurable: true});' % i
                             for i in PROTO_IDX)


def render_node(hist, steps):
    """All operations `steps` applied (each to a freshly rebuilt copy) to the state reached by `hist`.
    Returns (program, {(n, world): expected lines}); block 0 is the state itself."""
    src = [prelude(), prefix_code("A", hist), prefix_code("P", hist, True),
           'print("W", 0, "A"); dump(A); print("S", KIND(A)); print("W", 0, "P"); dump(P);']
    d0 = dump_lines(hist[-1]["d"], True)
    exp = {(0, "A"): d0, (0, "P"): d0}
    for n, st in enumerate(steps, 1):
        code, e = step_block(n, st, hist[-1]["d"], hist)
        src.append(code)
        for w, lines in e.items():
            exp[(n, w)] = lines
    return "\n".join(src), exp


def render_linear(hist):
    """One history applied step by step; named-property stores additionally in world C (fresh copies)."""
    src = [prelude(), prefix_code("A", hist[:1]), prefix_code("P", hist[:1], True),
           'print("W", 0, "A"); dump(A); print("S", KIND(A)); print("W", 0, "P"); dump(P);']
    d0 = dump_lines(hist[0]["d"], True)
    exp = {(0, "A"): d0, (0, "P"): d0}
    for n in range(1, len(hist)):
        code, e = step_block(n, hist[n], hist[n - 1]["d"], None)
        if hist[n]["op"]["k"] in CACHED_SITE_KINDS:
            pre = hist[:n]
            code = ('%s %s var f%d = function (T) { %s }; PR = NOP; try { f%d(C0); } catch (e) {} PR = print; '
                    'print("W", %d, "C"); CUR = C1; try { f%d(C1); } catch (e) { perr(e); } dump(C1);\n'
                    % (prefix_code("C0", pre), prefix_code("C1", pre), n, op_code(hist[n]["op"], "T", False), n, n, n)) + code
            e["C"] = e["A"]
        src.append(code)
        for w, lines in e.items():
            exp[(n, w)] = lines
    return "\n".join(src), exp


# ------------------------------------------------------------------ running and comparing

def _run_chunk(arg):
    binary, chunk = arg
    return vlib.run_lines(binary, chunk)


def run_programs(binary, progs, procs=8):
    """progs: list of (id, src). Returns id -> result record."""
    scen = [{"id": i, "cfg": {"strict": True}, "steps": [{"kind": "eval", "src": s}]} for i, s in progs]
    if not scen:
        return {}
    n = max(1, min(procs, len(scen) // 4 + 1))
    chunks = [scen[i::n] for i in range(n)]
    out = {}
    with multiprocessing.Pool(n) as pool:
        for r in pool.imap_unordered(_run_chunk, [(binary, c) for c in chunks]):
            out.update(r)
    return out


def split_blocks(out):
    """print trace -> {(n, world): lines}, {(n, world): observed storage form}"""
    blocks, kinds = {}, {}
    cur = None
    for ln in out:
        if ln.startswith("s:W n:"):
            parts = ln.split(" ")
            cur = (int(parts[1][2:]), parts[2][2:])
            blocks[cur] = []
        elif ln.startswith("s:S s:"):
            if cur is not None:
                kinds[cur] = ln[6:]
        elif cur is not None:
            blocks[cur].append(ln)
    return blocks, kinds


def compare(exp, res):
    """Returns (list of (n, world, diff), fatal) - fatal = the program did not run to completion."""
    if res is None:
        return [], {"what": "no result"}
    if "panic" in res or "abort" in res:
        return [], {"what": "panic", "panic": res.get("panic") or res.get("abort")}
    st = res["steps"][0]
    blocks, kinds = split_blocks(st["out"])
    res["_kinds"] = kinds
    fails = []
    for key in sorted(exp):
        e = exp[key]
        g = blocks.get(key)
        if g is None:
            fails.append((key[0], key[1], {"what": "missing block", "completion": st["c"]}))
            continue
        if g != e:
            i = 0
            while i < len(g) and i < len(e) and g[i] == e[i]:
                i += 1
            fails.append((key[0], key[1], {"what": "diff", "line": i, "expected": e[i] if i < len(e) else "<end>",
                                           "got": g[i] if i < len(g) else "<end>", "expected_block": e, "got_block": g}))
    fatal = None if st["c"].startswith("value:") else {"what": "completion", "completion": st["c"]}
    return fails, fatal


def ops_of(hist):
    return [s["op"] for s in hist]


# ------------------------------------------------------------------ TLC drivers

def emit(cfg, workers, timeout, coverage=False, simulate=None, depth=None, tseed=None, env_extra=None,
         module=SPEC):
    out = {"NODE": [], "REPLAY": [], "NOCOMMUTE": []}

    def on_tagged(tag, obj):
        out.setdefault(tag, []).append(obj)

    r = vlib.run_tlc(module, cfg, workers=workers, timeout=timeout, coverage=coverage, on_tagged=on_tagged,
                     simulate=simulate, depth=depth, tseed=tseed, env_extra=env_extra)
    return r, out


def oracle(histories):
    """histories: list of [lit op, op, ...] (operation records). Returns list of model histories (step records)
    in the same order, computed by TLC (MCArrayOracle)."""
    if not histories:
        return []
    path = os.path.join(vlib.WORK, "c14-oracle-%d.ndjson" % os.getpid())
    with open(path, "w") as f:
        for ops in histories:
            l = ops[0]
            f.write(json.dumps({"lit": {"c": l.get("c", "lit"), "els": l["els"], "n": l.get("n", 0)}, "ops": ops[1:]}) + "\n")
    ocfg = {(): "MCArrayOracle.cfg", (1,): "MCArrayOracle_p1.cfg", (0, 2): "MCArrayOracle_p02.cfg"}[tuple(PROTO_IDX)]
    r, out = emit(ocfg, 4, 900, env_extra={"HISTS": path},
                  module=os.path.join(vlib.SPEC, "objects", "MCArrayOracle.tla"))
    os.unlink(path)
    vlib.tlc_must_pass(r, "ArrayStorage/oracle")
    got = {o["id"]: o["h"] for o in out["REPLAY"]}
    if len(got) != len(histories):
        raise vlib.ToolError("oracle answered %d of %d histories" % (len(got), len(histories)))
    return [got[i + 1] for i in range(len(histories))]


def fails_linear(binary, hists):
    """Runs linear histories; returns per history the list of failing (n, world, diff) (+ fatal)."""
    progs, exps = [], []
    for i, h in enumerate(hists):
        src, exp = render_linear(h)
        progs.append((i, src))
        exps.append(exp)
    res = run_programs(binary, progs)
    out = []
    for i, h in enumerate(hists):
        f, fatal = compare(exps[i], res.get(i))
        out.append((f, fatal, progs[i][1]))
    return out


def still_fails(result, n_last):
    f, fatal, _ = result
    if fatal is not None and fatal["what"] == "panic":
        return True
    return any(n == n_last for n, w, d in f)


def shrink_candidates(ops):
    """Smaller histories, most aggressive first: drop one operation before the last, then simplify the literal."""
    lit, rest = ops[0], ops[1:]
    c = []
    for i in range(len(rest) - 1):
        c.append([lit] + rest[:i] + rest[i + 1:])
    els = lit["els"]

    def mk(e):
        return {"k": "lit", "c": "lit", "els": e, "n": 0}

    if lit.get("c", "lit") != "lit":
        c.append([mk(els if lit["c"] == "new" else ["hole"] * lit["n"])] + rest)
    elif els:
        c.append([mk([])] + rest)
        for i in range(len(els)):
            c.append([mk(els[:i] + els[i + 1:])] + rest)
        for i, e in enumerate(els):
            if e not in ("i1", "hole"):
                c.append([mk(els[:i] + ["i1"] + els[i + 1:])] + rest)
    return c


def shrink(binary, failing):
    """failing: list of op-lists whose last operation fails. Returns the shrunk op-lists (lockstep rounds, one TLC
    oracle call per round)."""
    cur = [list(o) for o in failing]
    active = set(range(len(cur)))
    for _round in range(12):
        if not active:
            break
        cands = []
        for i in sorted(active):
            for c in shrink_candidates(cur[i]):
                cands.append((i, c))
        if not cands:
            break
        uniq = {}
        for i, c in cands:
            uniq.setdefault(json.dumps(c, sort_keys=True), c)
        keys = list(uniq)
        model = oracle([uniq[k] for k in keys])
        results = fails_linear(binary, model)
        verdict = {k: still_fails(results[j], len(uniq[k]) - 1) for j, k in enumerate(keys)}
        nxt = set()
        for i in sorted(active):
            for c in shrink_candidates(cur[i]):
                if verdict[json.dumps(c, sort_keys=True)]:
                    cur[i] = c
                    nxt.add(i)
                    break
        active = nxt
    return cur


# ------------------------------------------------------------------ main

def nontrivial_node(node):
    """the state is reached through a change of storage form, or is sparse / has a non-default descriptor /
    is non-extensible / has a fixed length"""
    h = node["h"]
    kinds = [s["kind"] for s in h]
    d = h[-1]["d"]
    nondefault = any(e[1] != "d" or not (e[3] and e[4] and e[5]) for e in d["ix"]) or not d["lw"] or not d["ext"]
    return len(set(kinds)) > 1 or nondefault or kinds[-1] in ("SE", "SP")


def note_kinds(stats, res, failed, pre_kind, steps, prefix_ops):
    """Storage forms observed through the optional hook vs. the forms predicted by ArrayStorage.tla (drift only)."""
    kinds = res.get("_kinds", {})
    stats["hook"] = stats.get("hook", False) or bool(res.get("kindhook"))
    obs0 = kinds.get((0, "A"), "?")
    if obs0 == "?":
        return
    if obs0 != pre_kind and (0, "A") not in failed:
        stats.setdefault("drift", []).append({"history": prefix_ops, "predicted": pre_kind, "observed": obs0})
    for n, (op, k) in enumerate(steps, 1):
        o = kinds.get((n, "A"), "?")
        if o == "?" or (n, "A") in failed:
            continue
        stats.setdefault("observed", {}).setdefault(obs0, set()).add(op["k"])
        if o != k:
            stats.setdefault("drift", []).append({"history": prefix_ops + [op], "predicted": k, "observed": o})


def check_nodes(ck, binary, nodes, stats):
    """Returns list of failing op-lists with (world, diff, program)."""
    progs, exps = [], []
    for i, nd in enumerate(nodes):
        src, exp = render_node(nd["h"], nd["steps"])
        progs.append((i, src))
        exps.append(exp)
        stats["blocks"] += len(exp)
        stats["lines"] += sum(len(v) for v in exp.values())
    res = run_programs(binary, progs)
    failing = []
    redo = []
    for i, nd in enumerate(nodes):
        f, fatal = compare(exps[i], res.get(i))
        if fatal is not None:
            redo.append(nd)       # a panic / abrupt end hides the other blocks: isolate per operation
            continue
        note_kinds(stats, res[i], {(n, "A") for n, w, d in f if w == "A"}, nd["h"][-1]["kind"],
                   [(st["op"], st["kind"]) for st in nd["steps"]], ops_of(nd["h"]))
        if any(n == 0 for n, w, d in f):
            # the state itself is already wrong: the culprit is the last operation of the prefix (an edge of the
            # parent state); what follows from this state is a consequence, not another failure
            for n, w, d in f:
                if n == 0:
                    failing.append((ops_of(nd["h"]), w, d, nd["h"][-2]["d"] if len(nd["h"]) > 1 else None))
            continue
        for n, w, d in f:
            ops = ops_of(nd["h"]) + [nd["steps"][n - 1]["op"]]
            failing.append((ops, w, d, nd["h"][-1]["d"]))
    if redo:
        lin = []
        for nd in redo:
            for st in nd["steps"]:
                lin.append(nd["h"] + [st])
        for h, (f, fatal, src) in zip(lin, fails_linear(binary, lin)):
            if fatal is not None:
                failing.append((ops_of(h), "A", fatal, h[-2]["d"]))
            for n, w, d in f:
                if n == len(h) - 1 or n == 0:
                    failing.append((ops_of(h), w, d, h[-2]["d"]))
    return failing


def sig(obj):
    """signatures are canonical JSON strings (vlib keys known findings by the signature value)"""
    return json.dumps(obj, sort_keys=True)


def observed_keys_above_length(block):
    """True if an observed dump shows an own array-index key at or above the observed length."""
    idx, length = [], None
    for ln in block:
        p = ln.split(" ")
        if len(p) >= 4 and p[0] == "s:K":
            if p[1] == "s:length" and p[3].startswith("n:"):
                try:
                    length = int(p[3][2:])
                except ValueError:
                    pass
                # one dump ends at its length key (string keys follow, no further index keys)
                if length is not None and any(i >= length for i in idx):
                    return True
                idx, length = [], None
            elif p[1][2:].isdigit():
                idx.append(int(p[1][2:]))
    return False


def classify(ops, pre_d, world, diff):
    """Known symptom classes (root causes listed in known_findings.d/C14.json); None = unknown."""
    if diff.get("what") != "diff":
        return None
    if (ops[-1]["k"] == "deletes" and str(diff.get("expected", "")).startswith("s:K s:length s:d")
            and diff["expected"].replace(" b:false b:false b:false", " b:true b:false b:false") == diff.get("got")):
        return {"class": "length-writable-again-after-deleting-a-string-key", "op": "deletes", "world": world,
                "needs": "length made non-writable after the string key was created"}
    if not observed_keys_above_length(diff.get("got_block", [])):
        return None
    k = ops[-1]["k"]
    if world == "C":
        return {"class": "index-keys-at-or-above-length", "op": k, "world": "C", "needs": "store through an inline-cached code site"}
    if pre_d is not None and any(e[1] == "a" and e[2] == "x" for e in pre_d["ix"]):
        return {"class": "index-keys-at-or-above-length", "op": k, "world": world, "needs": "getter that grows the array during the builtin"}
    return None


def report(ck, binary, failing):
    """failing: list of (ops, world, diff, pre_d). Known symptom classes are reported by class; everything else is
    grouped by (operation kind, world, kind of first difference), one representative per group is shrunk and
    reported with signature = shrunk operation history + world."""
    if not failing:
        return
    groups = {}
    for ops, w, d, pre_d in failing:
        c = classify(ops, pre_d, w, d)
        if c is not None:
            ck.failure(sig(c), {"history": ops, "inherited_indices": list(PROTO_IDX), "world": w,
                           "diff": {x: y for x, y in d.items() if not x.endswith("_block")}, "got": d.get("got_block")})
            continue
        cat = (ops[-1]["k"], w, d.get("what"), str(d.get("expected", ""))[:3], str(d.get("got", ""))[:3])
        groups.setdefault(cat, []).append((ops, w, d))
    if not groups:
        return
    reps = []
    for cat in sorted(groups):
        g = sorted(groups[cat], key=lambda x: (len(x[0]), json.dumps(x[0], sort_keys=True)))
        reps.append((cat, g[0], len(g)))
    vlib.log(f"[C14] {sum(r[2] for r in reps)} unclassified failing observations in {len(reps)} groups; shrinking representatives")
    reps = reps[:40]
    shrunk = shrink(binary, [r[1][0] for r in reps])
    model = oracle(shrunk)
    results = fails_linear(binary, model)
    for (cat, (ops, w, d), count), sh, h, (f, fatal, src) in zip(reps, shrunk, model, results):
        if not f and fatal is None:
            raise vlib.ToolError("failure does not reproduce: %s" % json.dumps(sh))
        worlds = sorted({ww for n, ww, dd in f if n == len(h) - 1}) or [w]
        detail = {"history": sh, "inherited_indices": list(PROTO_IDX), "original_history": ops, "group": list(cat), "group_size": count, "worlds": worlds,
                  "diffs": [{"step": n, "world": ww, **{x: y for x, y in dd.items() if not x.endswith("_block")}} for n, ww, dd in f][:6],
                  "fatal": fatal, "program": src}
        sg = {"history": sh, "worlds": worlds, "panic": bool(fatal and fatal.get("what") == "panic")}
        if PROTO_IDX:
            sg["inherited_indices"] = list(PROTO_IDX)
        ck.failure(sig(sg), detail)


def check_linear(binary, model_hists, stats):
    """Long histories: only the first failing step counts (afterwards the states differ). Returns failing list."""
    failing = []
    for h, (f, fatal, src) in zip(model_hists, fails_linear(binary, model_hists)):
        stats["lines"] += sum(len(s["d"]["ix"]) + 3 for s in h)
        stats["blocks"] += 3 * len(h)
        if fatal is not None and fatal["what"] == "panic":
            failing.append((ops_of(h), "A", fatal, None))
            continue
        if f:
            n0 = min(n for n, w, d in f)
            for n, w, d in f:
                if n == n0:
                    failing.append((ops_of(h[:n0 + 1]), w, d, h[n0 - 1]["d"] if n0 > 0 else None))
        elif fatal is not None:
            failing.append((ops_of(h), "A", fatal, None))
    return failing


def random_histories(rng, lits, ops, count, length):
    out = []
    for _ in range(count):
        out.append([rng.choice(lits)] + [rng.choice(ops) for _ in range(length)])
    return out


def tlc_nodes(ck, cfg, tier, timeout):
    r, out = emit(cfg, 8, timeout, coverage=False)
    for nc in out["NOCOMMUTE"][:5]:
        vlib.log("NOCOMMUTE", json.dumps(nc)[:600])
    vlib.tlc_must_pass(r, "ArrayStorage/" + cfg)
    nodes = out["NODE"]
    if len(nodes) != r["distinct"]:
        raise vlib.ToolError(f"expected one NODE record per distinct state, got {len(nodes)} for {r['distinct']}")
    edges = sum(len(n["steps"]) for n in nodes)
    vlib.log(f"[tlc] {cfg}: {r['distinct']} states, {edges} edges (state x operation), wall {r['wall']:.0f}s")
    return r, nodes, edges


def run(tier, replay=None):
    ck = vlib.Check("C14", tier, "model_checking", replay)
    bindir = vlib.build_harness(["harr"])
    binary = os.path.join(bindir, "harr")
    stats = {"lines": 0, "blocks": 0}

    if replay:
        det = json.load(open(replay)).get("detail", {})
        global PROTO_IDX
        PROTO_IDX = det.get("inherited_indices", [])
        ops = det.get("history")
        if not ops:
            raise vlib.ToolError("replay file has no history")
        model = oracle([ops])
        report(ck, binary, check_linear(binary, model, stats))
        return ck.finish()

    # ---- model gate of the reference model (invariants + action properties of the Array exotic object)
    g = vlib.run_tlc(os.path.join(vlib.SPEC, "objects", "MCArraySpec.tla"), "MCArraySpec.cfg", workers=8, timeout=3000)
    vlib.tlc_must_pass(g, "ArraySpec/MCArraySpec.cfg")
    states, transitions = g["distinct"], g["states"]
    cmds = [g["cmd"]]
    if tier == "thorough":
        g2 = vlib.run_tlc(SPEC, "MCArray_refine.cfg", workers=8, timeout=3000)
        vlib.tlc_must_pass(g2, "ArrayStorage => ArraySpec (MCArray_refine.cfg)")
        states += g2["distinct"]; transitions += g2["states"]
        cmds.append(g2["cmd"])

    # ---- exhaustive part: every (state, operation) edge; TLC checks commutation + storage invariants and emits
    cfgs = ["MCArray_quick.cfg", "MCArray_protoq.cfg"] if tier == "quick" else \
        ["MCArray_thorough.cfg", "MCArray_wide.cfg", "MCArray_far.cfg", "MCArray_protoq.cfg", "MCArray_protot.cfg"]
    all_nodes = []
    edges_total = 0
    seen_states = set()
    for cfg in cfgs:
        PROTO_IDX = {"MCArray_protoq.cfg": [1], "MCArray_protot.cfg": [0, 2]}.get(cfg, [])
        r, nodes, edges = tlc_nodes(ck, cfg, tier, 3400)
        states += r["distinct"]; transitions += edges
        cmds.append(r["cmd"])
        all_nodes += nodes
        edges_total += edges
        report(ck, binary, check_nodes(ck, binary, nodes, stats))
    PROTO_IDX = []
    nt = sum(len(n["steps"]) for n in all_nodes if nontrivial_node(n))
    kinds = {}
    for nd in all_nodes:
        for st in nd["steps"]:
            kinds.setdefault(nd["h"][-1]["kind"], set()).add(st["op"]["k"])
    for k in ("I32", "F64", "EL", "SE", "SP"):
        if len(kinds.get(k, ())) < 40:
            raise vlib.ToolError(f"vacuity guard: storage form {k} met only {len(kinds.get(k, ()))} operation kinds")

    # ---- seeded long histories: TLC -simulate (depth 15) and random histories evaluated by TLC in oracle mode
    sim_count = 0
    if tier == "thorough":
        lits = [n["h"][0]["op"] for n in all_nodes if len(n["h"]) == 1]
        alphabet = {}
        for nd in all_nodes:
            for st in nd["steps"]:
                alphabet.setdefault(json.dumps(st["op"], sort_keys=True), st["op"])
        ops = [alphabet[k] for k in sorted(alphabet)]
        rs, outs = emit("MCArray_sim.cfg", 4, 3000, simulate=40, depth=16, tseed=vlib.seed())
        vlib.tlc_must_pass(rs, "ArrayStorage/-simulate")
        sim = [h for h in outs["REPLAY"]]
        cmds.append(rs["cmd"] + " -depth 16 -seed %d" % vlib.seed())
        rng = random.Random(vlib.seed())
        rnd = oracle(random_histories(rng, lits, ops, 1500, 15))
        if len(sim) < 20:
            raise vlib.ToolError("simulation produced too few behaviours")
        report(ck, binary, check_linear(binary, sim + rnd, stats))
        sim_count = len(sim) + len(rnd)
        transitions += sum(len(h) - 1 for h in sim + rnd)
        ck.sample({"simulated_history": ops_of(sim[0])[:6], "kinds": [s["kind"] for s in sim[0]][:6]})

    for nd in all_nodes:
        if len(nd["h"]) == 2 and nd["h"][0]["kind"] != nd["h"][1]["kind"]:
            ck.sample({"history": ops_of(nd["h"]), "storage": [s["kind"] for s in nd["h"]],
                       "operation": nd["steps"][-1]["op"], "expected_return": nd["steps"][-1]["ret"][:1],
                       "expected_keys": [e[0] for e in nd["steps"][-1]["d"]["ix"]]}, cap=4)
    drift = stats.get("drift", [])
    seen_d = set()
    for d in drift:
        key = json.dumps(d["history"][-1], sort_keys=True) + d["predicted"] + d["observed"]
        if key not in seen_d and len(seen_d) < 10:
            seen_d.add(key)
            vlib.log("MODEL-DRIFT: storage form after %s predicted %s observed %s" % (json.dumps(d["history"]), d["predicted"], d["observed"]))
    ck.drift += len(drift)
    ck.cov["storage_hook"] = bool(stats.get("hook"))
    if stats.get("observed"):
        ck.cov["observed_forms_x_operation_kinds"] = {k: len(v) for k, v in sorted(stats["observed"].items())}
    ck.cov.update(states=states, transitions=transitions, traces_validated_against_impl=edges_total + sim_count,
                  evaluations=stats["lines"], world_blocks=stats["blocks"], distinct_nontrivial=nt,
                  checker_cmd="; ".join(cmds), forms_x_operation_kinds={k: len(v) for k, v in sorted(kinds.items())},
                  exhaustive=True,
                  rule="one replay per edge (state x operation) of the storage-shaped state graph, each executed on a real array, "
                       "a Proxy-wrapped array, an equivalent array-like through Array.prototype.X.call and (named stores) an "
                       "inline-cached code site; non-trivial = the state was reached through a change of storage form or is "
                       "sparse / has a non-default descriptor / is non-extensible / has a fixed length")
    floor = 3000 if tier == "quick" else 50000
    if nt < floor:
        raise vlib.ToolError(f"vacuity guard: only {nt} non-trivial edges (< {floor})")
    ck.assumptions += ["Array.prototype / Object.prototype carry no index properties (default realm)",
                       ("the storage form predicted by ArrayStorage.tla was compared with verif::array_storage_kind after every step"
                        if stats.get("hook") else
                        "the storage form predicted by ArrayStorage.tla was not observed (engine built without the "
                        "array_storage_kind hook); the value mixes force every form"),
                       "indices 0..3 and 7, values {0,1,2,10,1.5,-0,NaN,'a','g',object,undefined}; lengths < 2^31"]
    return ck.finish()
