"""C19 - Parsing is total; printing an AST and re-parsing it is the identity.

Model: spec/lang/Syntax.tla
  structural layer  ASTs of the constructs whose printing needs care, Print (minimal parentheses) and Parse as a
                    state machine (token cursor, operand stack, marker stack) with the standard's restrictions;
                    TLC checks Parse(Print(a)) = a, minimality of every inserted pair, rejection of illegal mixes
                    (MCSyntax*.tla).
  lexical layer     spec/lang/SyntaxLex.tla: literal classes and their re-lexing rules.
Binding (A), harness/crates/hparse (boa_parser + boa_ast + boa_interner only):
  S1  for every case emitted by TLC (token sequence, model outcome): boa accepts exactly the accepted ones and its
      AST (Parenthesized nodes made transparent) equals the model's AST - binds boa's parser to the model parser;
  S2  boa's printed text of its own AST, tokenised here, parsed UNDER THE MODEL PARSER (TLC, SyntaxRun.tla), gives
      the same AST - binds boa's printer (parenthesisation, token adjacency) to the model;
  S3  parse -> print -> parse -> print is a fixed point with equal ASTs and no new interned strings;
  S4  original and printed text evaluate to the same trace (hjs).
  L*  the lexical cases of SyntaxLex.tla rendered to source: S3/S4 on them plus the value of every literal.
  C*  round trip + trace on the JS embedded in the repo's tests and the rendered C01 corpus.
  T*  totality on seeded token-level mutants: Ok or an error positioned inside the text; no panic/abort/hang; the
      parser interns only strings that occur in the text.
"""
import json, os, random, re, sys
import vlib

SPECDIR = os.environ.get("C19_SPECDIR") or os.path.join(vlib.SPEC, "lang")   # override: binding demonstrations only
WORKDIR = os.path.join(vlib.WORK, "c19")

# ------------------------------------------------------------------------------------------------ tokens <-> text

WRAP_PRE = "async function* w() { "
WRAP_POST = " }"
PUNCT = [">>>=", "...", "===", "!==", "**=", "<<=", ">>=", ">>>", "&&=", "||=", "??=", "=>", "==", "!=", "<=", ">=",
         "&&", "||", "??", "?.", "++", "--", "+=", "-=", "*=", "/=", "%=", "&=", "|=", "^=", "<<", ">>", "**",
         "{", "}", "(", ")", "[", "]", ";", ",", "<", ">", "+", "-", "*", "/", "%", "&", "|", "^", "!", "~", "?", ":", "=", ".",
         "#", "@"]
ID_START = re.compile(r"[A-Za-z_$\u0080-\uffff\\]")
ID_PART = re.compile(r"[A-Za-z0-9_$\u0080-\uffff\u200c\u200d]")
REGEX_OK_AFTER_WORD = {"return", "typeof", "instanceof", "in", "of", "new", "delete", "void", "throw", "case", "do", "else",
                       "yield", "await"}


def render_tokens(toks):
    return " ".join(toks)


def wrap(text):
    return WRAP_PRE + text + WRAP_POST


class LexError(Exception):
    pass


def lex_js(src, structural=False):
    """A plain ECMAScript tokeniser: list of (class, text) with class in id, num, str, tpl, regex, punct.
    Regex vs. division is decided from the previous token.  Comments and white space are dropped; a line
    terminator is recorded as class 'nl' only if structural is False (used by the mutant generator)."""
    out = []
    i, n = 0, len(src)

    def prev_allows_regex():
        for c, t in reversed(out):
            if c == "nl":
                continue
            if c == "punct":
                return t not in (")", "]", "}", "++", "--")
            if c == "id":
                return t in REGEX_OK_AFTER_WORD
            return False
        return True

    while i < n:
        c = src[i]
        if c in " \t\v\f\u00a0\ufeff":
            i += 1
        elif c in "\n\r\u2028\u2029":
            if not structural:
                out.append(("nl", c))
            i += 1
        elif src.startswith("//", i):
            while i < n and src[i] not in "\n\r\u2028\u2029":
                i += 1
        elif src.startswith("/*", i):
            j = src.find("*/", i + 2)
            if j < 0:
                raise LexError("unterminated comment")
            i = j + 2
        elif c in "\"'":
            j = i + 1
            while True:
                if j >= n or src[j] in "\n\r":
                    raise LexError("unterminated string")
                if src[j] == "\\":
                    j += 2
                    continue
                if src[j] == c:
                    break
                j += 1
            out.append(("str", src[i:j + 1]))
            i = j + 1
        elif c == "`":
            # whole template including substitutions (nested braces / templates counted)
            j = i + 1
            depth = 0
            while True:
                if j >= n:
                    raise LexError("unterminated template")
                if src[j] == "\\":
                    j += 2
                    continue
                if depth == 0 and src[j] == "`":
                    break
                if src.startswith("${", j):
                    depth += 1
                    j += 2
                    continue
                if depth > 0 and src[j] == "{":
                    depth += 1
                elif depth > 0 and src[j] == "}":
                    depth -= 1
                j += 1
            out.append(("tpl", src[i:j + 1]))
            i = j + 1
        elif c.isdigit() or (c == "." and i + 1 < n and src[i + 1].isdigit()):
            m = re.compile(r"0[xX][0-9a-fA-F_]+n?|0[oO][0-7_]+n?|0[bB][01_]+n?|(?:\d[\d_]*\.?[\d_]*|\.\d[\d_]*)(?:[eE][+-]?\d[\d_]*)?n?").match(src, i)
            out.append(("num", m.group(0)))
            i = m.end()
        elif ID_START.match(c):
            j = i
            while j < n and (ID_PART.match(src[j]) or src[j] == "\\"):
                if src[j] == "\\":
                    m = re.compile(r"\\u(?:[0-9a-fA-F]{4}|\{[0-9a-fA-F]+\})").match(src, j)
                    if not m:
                        raise LexError("bad identifier escape")
                    j = m.end()
                else:
                    j += 1
            out.append(("id", src[i:j]))
            i = j
        elif c == "/" and prev_allows_regex():
            j = i + 1
            in_class = False
            while True:
                if j >= n or src[j] in "\n\r":
                    raise LexError("unterminated regex")
                if src[j] == "\\":
                    j += 2
                    continue
                if src[j] == "[":
                    in_class = True
                elif src[j] == "]":
                    in_class = False
                elif src[j] == "/" and not in_class:
                    break
                j += 1
            j += 1
            while j < n and ID_PART.match(src[j]):
                j += 1
            out.append(("regex", src[i:j]))
            i = j
        else:
            for p in PUNCT:
                if src.startswith(p, i):
                    out.append(("punct", p))
                    i += len(p)
                    break
            else:
                raise LexError("unexpected character %r" % c)
    return out


def structural_tokens(printed):
    """Token strings of a text printed by boa for a structural case, without the wrapper function."""
    toks = [t for _, t in lex_js(printed, structural=True)]
    pre = ["async", "function", "*", "w", "(", ")", "{"]
    if toks[:len(pre)] != pre or toks[-1] != "}":
        raise LexError("wrapper not found in " + printed[:80])
    return toks[len(pre):-1]


# ------------------------------------------------------------------------------------------------ boa tree -> model AST

class Unmodelled(Exception):
    pass


UPD = {"IncrementPre": ("++", True), "IncrementPost": ("++", False), "DecrementPre": ("--", True), "DecrementPost": ("--", False)}


def conv(t):
    """hparse structural dump of an expression -> AST record of Syntax.tla (Parenthesized is transparent)."""
    k = t[0]
    if k == "paren":
        return conv(t[1])
    if k == "id":
        return {"k": "id", "n": t[1]}
    if k == "obj" and t[1] == []:
        return {"k": "obj"}
    if k == "fn" and t[1] is None and t[2] == [] and t[3] == []:
        return {"k": "fn"}
    if k == "class" and t[2] is None and t[3] == []:
        # an anonymous class that is assigned gets the target's name in boa's AST (NamedEvaluation); a class printed
        # with a name would not be parsed by the model parser (S2)
        return {"k": "class"}
    if k == "bin":
        return {"k": "bin", "op": t[1], "l": conv(t[2]), "r": conv(t[3])}
    if k == "un":
        return {"k": "un", "op": t[1], "x": conv(t[2])}
    if k == "upd":
        op, pre = UPD[t[1]]
        return {"k": "upd", "op": op, "pre": pre, "x": conv(t[2])}
    if k == "asg":
        return {"k": "asg", "op": t[1], "l": conv(t[2]), "r": conv(t[3])}
    if k == "cond":
        return {"k": "cond", "c": conv(t[1]), "t": conv(t[2]), "f": conv(t[3])}
    if k == "arrow":
        if t[2] == [["var", ["id", "p"], None]] and len(t[3]) == 1 and t[3][0][0] == "return" and t[3][0][1] is not None:
            return {"k": "arrow", "as": t[1], "x": conv(t[3][0][1])}
        raise Unmodelled("arrow shape")
    if k == "new":
        return {"k": "new", "c": conv(t[1]), "args": [conv(x) for x in t[2]]}
    if k == "call":
        return {"k": "call", "f": conv(t[1]), "args": [conv(x) for x in t[2]]}
    if k == "mem":
        f = t[2]
        if f[0] == "dot":
            return {"k": "mem", "o": conv(t[1]), "n": f[1]}
        if f[0] == "idx":
            return {"k": "idx", "o": conv(t[1]), "i": conv(f[1])}
        raise Unmodelled("private member")
    if k == "opt":
        ch = []
        for s, op in t[2]:
            if op[0] == "dot":
                ch.append({"s": s, "k": "dot", "n": op[1]})
            elif op[0] == "idx":
                ch.append({"s": s, "k": "idx", "i": conv(op[1])})
            elif op[0] == "call":
                ch.append({"s": s, "k": "call", "args": [conv(x) for x in op[1]]})
            else:
                raise Unmodelled("optional private")
        return {"k": "opt", "t": conv(t[1]), "ch": ch}
    if k == "await":
        return {"k": "await", "x": conv(t[1])}
    if k == "yield":
        return {"k": "yield", "d": t[1], "x": {"k": "none"} if t[2] is None else conv(t[2])}
    raise Unmodelled(k)


def conv_stmt(s):
    k = s[0]
    if k == "expr":
        return {"k": "expr", "e": conv(s[1])}
    if k == "for" and s[2] is None and s[3] is None and s[4] == ["empty"] and s[1] is not None:
        init = s[1]
        if init[0] == "vardecl":
            if init[1] == "var" and len(init[2]) == 1 and init[2][0][1] == ["id", "x"] and init[2][0][2] is not None:
                return {"k": "forvar", "e": conv(init[2][0][2])}
            raise Unmodelled("for declaration")
        return {"k": "forinit", "e": conv(init)}
    if k == "forin" and s[3] == ["empty"]:
        return {"k": "forin", "l": conv(s[1]), "e": conv(s[2])}
    if k == "forof" and s[1] is False and s[4] == ["empty"]:
        return {"k": "forof", "l": conv(s[2]), "e": conv(s[3])}
    raise Unmodelled("statement " + k)


def unwrap_tree(tree):
    """The single statement inside `async function* w() { ... }`."""
    body = tree.get("body") or []
    if len(body) != 1 or body[0][0] != "fndecl" or body[0][1] != "asyncgen" or body[0][2] != "w":
        raise Unmodelled("wrapper")
    inner = body[0][4]
    if len(inner) != 1:
        raise Unmodelled("%d statements" % len(inner))
    return inner[0]


def strip_na(x):
    """`new a` and `new a()` are one AST in boa: forget the model's `na` flag."""
    if isinstance(x, dict):
        return {k: strip_na(v) for k, v in x.items() if k != "na"}
    if isinstance(x, list):
        return [strip_na(v) for v in x]
    return x


def structural_class(stmt):
    """Classes of structural cases with a confirmed printer defect (known findings are per class)."""
    if stmt["k"] == "forof" and stmt["l"]["k"] == "id" and stmt["l"]["n"] in ("let", "async"):
        return "for-of head `(%s)`: parentheses of the left-hand side dropped" % stmt["l"]["n"]
    return None


def contains(x, pred):
    if isinstance(x, dict):
        return pred(x) or any(contains(v, pred) for v in x.values())
    if isinstance(x, list):
        return any(contains(v, pred) for v in x)
    return False


def reject_class(stmt):
    """Classes of legal structural cases that boa's parser rejects (confirmed; known findings are per class)."""
    if contains(stmt, lambda n: n.get("k") == "yield" and isinstance(n.get("x"), dict) and n["x"] == {"k": "id", "n": "let"}):
        return "`yield let`: the identifier `let` as operand of yield is rejected"
    return None


def norm_or(x):
    """boa nests chains of `||` to the right (`a || (b || c)`), the grammar to the left; the two are
    indistinguishable by evaluation (and by printing): chains are compared left-nested."""
    if isinstance(x, list):
        return [norm_or(v) for v in x]
    if not isinstance(x, dict):
        return x
    x = {k: norm_or(v) for k, v in x.items()}
    if x.get("k") == "bin" and x.get("op") == "||":
        items = []

        def flat(n):
            if isinstance(n, dict) and n.get("k") == "bin" and n.get("op") == "||":
                flat(n["l"])
                flat(n["r"])
            else:
                items.append(n)
        flat(x)
        acc = items[0]
        for it in items[1:]:
            acc = {"k": "bin", "op": "||", "l": acc, "r": it}
        return acc
    return x


# ------------------------------------------------------------------------------------------------ structural phase

def run_structural(ck, tier, hparse, hpeval):
    mod = {"quick": "MCSyntaxQuick", "thorough": "MCSyntaxThorough", "tiny": "MCSyntaxTiny"}[os.environ.get("C19_UNIVERSE") or tier]
    r = vlib.run_tlc(os.path.join(SPECDIR, mod + ".tla"), mod + ".cfg", workers=3, coverage=(tier == "thorough"), timeout=3000)
    vlib.tlc_must_pass(r, "Syntax/" + mod)
    ck.cov.setdefault("checker_cmd", r["cmd"])
    ncases = None
    cases = {}
    for tag, o in r["tagged"]:
        if tag == "CASE":
            cases[tuple(o["toks"])] = o
    m = re.search(r'<<"NCASES", (\d+)>>', r["raw_tail"])
    # one CASE per (statement, variant) and per listed token sequence; distinct token sequences are what is replayed
    if len(cases) < 50:
        raise vlib.ToolError("structural: TLC emitted %d cases" % len(cases))
    ks = sorted(cases)
    for j in (0, len(ks) // 3, (2 * len(ks)) // 3, len(ks) - 1):
        o = cases[ks[j]]
        ck.sample({"tokens": " ".join(ks[j]), "model": {k: v for k, v in o.items() if k != "toks"}})
    ck.add("states", r["distinct"])
    ck.add("transitions", r["states"])
    if tier == "thorough":
        check_coverage(r["raw_tail"], ["PrintAct", "Start", "ShiftOperand", "Reduce", "ShiftBinary", "ShiftCond", "ShiftAssign",
                                       "ShiftPostfix", "Close"])
    return structural_conformance(ck, cases, hparse, hpeval)


def check_coverage(raw_tail, actions):
    for a in actions:
        m = re.search(r"<%s line \d+, col \d+ to line \d+, col \d+ of module \w+>: (\d+):(\d+)" % a, raw_tail)
        if m and int(m.group(2)) == 0:
            raise vlib.ToolError("coverage: action %s was never taken" % a)


PRELUDE = """
function mk(n, v) {
  var f = function () { print('call ' + n); return f; };
  f.valueOf = function () { print('valueOf ' + n); return v; };
  f.toString = function () { print('toString ' + n); return n; };
  return f;
}
var a = mk('a', 2), b = mk('b', 3), c = mk('c', 5), p = mk('p', 7), x = mk('x', 11);
var let = mk('let', 13), async = mk('async', 17);
[a, b, c, p, x, let, async].forEach(function (o) { o.a = a; o.b = b; o.c = c; });
"""
DRIVE = """
var it = w();
function show(tag) { return function (r) { print(tag, typeof r, r && r.done, r && typeof r.value); }; }
it.next().then(show('next1'), show('err1'));
it.next(1).then(show('next2'), show('err2'));
it.next(2).then(show('next3'), show('err3'));
"""


def structural_conformance(ck, cases, hparse, hpeval):
    evpairs = []
    keys = sorted(cases)
    scen = [{"id": i, "src": wrap(render_tokens(k)), "tree": True} for i, k in enumerate(keys)]
    res = vlib.run_lines(hparse, scen)
    reparse = {}      # token tuple of boa's print -> list of case indices expecting their AST
    nontrivial = 0
    stats = {"ok": 0, "reject": 0, "other": 0}
    for i, k in enumerate(keys):
        c = cases[k]
        out = res.get(i)
        text = scen[i]["src"]
        stats[c["st"]] += 1
        if out is None:
            raise vlib.ToolError("hparse: missing result")
        if bad_outcome(ck, out, "structural", text):
            continue
        accepted = "ok" in out["r1"]
        if c["st"] == "other":
            continue                                   # statement outside the fragment: no claim
        if c["st"] == "reject":
            # The property does not say which texts the parser must reject: an accepted illegal text is reported as
            # drift (the model parser is stricter), and the round trip must hold on it like on any accepted text.
            if accepted:
                ck.drift += 1
                ck.add("illegal_accepted")
                if ck.cov["illegal_accepted"] <= 3:
                    vlib.log("MODEL-DRIFT: the parser accepts a text the standard rejects: " + render_tokens(k))
                roundtrip_ok(ck, out, "structural", text)
            continue
        want = norm_or(strip_na(c["res"]))
        if "(" in k:
            nontrivial += 1
        if not accepted:
            rc = reject_class(want)
            ck.failure("structural reject-legal " + (rc or render_tokens(k)), {"text": text, "model": want, "boa": out["r1"]})
            continue
        try:
            got = conv_stmt(unwrap_tree(out["tree"]))
            if got != norm_or(got):
                ck.add("or_chains_right_nested")
            got = norm_or(got)
        except Unmodelled as e:
            got = {"unmodelled": str(e)}
        if got != want:
            ck.failure("structural ast " + render_tokens(k), {"text": text, "model": want, "boa": got})
            continue
        cls = structural_class(want)
        if not roundtrip_ok(ck, out, "structural", text, sig=cls and ("structural roundtrip " + cls)):
            continue
        try:
            ptoks = tuple(structural_tokens(out["p1"]))
        except LexError as e:
            ck.failure("structural print-tokens " + render_tokens(k), {"text": text, "print": out["p1"], "error": str(e)})
            continue
        known = cases.get(ptoks)
        if known is not None:          # the model parser has already run on exactly these tokens
            if known["st"] != "ok" or norm_or(strip_na(known["res"])) != want:
                ck.failure("structural print " + render_tokens(k), {"text": text, "print": out["p1"], "model_parse_of_print": known, "want": want})
        else:
            reparse.setdefault(ptoks, []).append((k, want))
        ck.add("evaluations")
        evpairs.append((text, out["p1"]))
    ck.cov["structural_cases"] = stats
    ck.cov["structural_traces_compared"] = compare_traces(ck, hpeval, evpairs, "structural", prelude=PRELUDE, drive=DRIVE)
    return cases, reparse, nontrivial


def model_reparse(ck, reparse):
    """S2: boa's printed token sequences that the first TLC run has not parsed are parsed by the model parser."""
    if not reparse:
        return 0
    os.makedirs(WORKDIR, exist_ok=True)
    keys = sorted(reparse)
    path = os.path.join(WORKDIR, "reparse-%d.ndjson" % os.getpid())
    with open(path, "w") as f:
        for i, k in enumerate(keys):
            f.write(json.dumps({"id": i, "toks": list(k)}) + "\n")
    r = vlib.run_tlc(os.path.join(SPECDIR, "SyntaxRun.tla"), "SyntaxRun.cfg", workers=3, env_extra={"C19_TOKS": path}, timeout=3000)
    vlib.tlc_must_pass(r, "SyntaxRun")
    os.unlink(path)
    got = {}
    for tag, o in r["tagged"]:
        if tag == "RUN":
            got[o["id"]] = o
    if len(got) != len(keys):
        raise vlib.ToolError("SyntaxRun: %d results for %d inputs" % (len(got), len(keys)))
    ck.add("states", r["distinct"])
    ck.add("transitions", r["states"])
    for i, k in enumerate(keys):
        o = got[i]
        for src_toks, want in reparse[k]:
            if o["st"] != "ok" or norm_or(strip_na(o["res"])) != want:
                ck.failure("structural print " + render_tokens(src_toks),
                           {"text": wrap(render_tokens(src_toks)), "print_tokens": list(k), "model_parse_of_print": o, "want": want})
    return len(keys)


# ------------------------------------------------------------------------------------------------ lexical phase

CH = {"DQ": '"', "SQ": "'", "BS": "\\", "BT": "`", "DOL": "$", "LB": "{", "RB": "}", "SL": "/", "LK": "[", "RK": "]",
      "DOT": ".", "SP": " ", "LF": "\n", "CR": "\r", "LS": "\u2028", "PS": "\u2029", "CTL": "\x01"}
HS_UNIT = 0xD800
INV = {v: k for k, v in CH.items()}
HEXGROUPS = {"000A", "000D", "2028", "2029", "0001", "D800", "0061", "0022", "0027", "005C", "0060", "0024"}
LEX_LETTERS = set("abefinruxg")
LEX_DIGITS = set("015")
LEX_PUNCT = set("=;():,-+")


def chars_to_units(chars):
    """Abstract characters of SyntaxLex.tla -> UTF-16 code units."""
    u = []
    for c in chars:
        if c == "HS":
            u.append(HS_UNIT)
        elif c in CH:
            u.append(ord(CH[c]))
        elif len(c) == 5 and c[0] == "U":
            u.extend(ord(x) for x in c[1:])
        else:
            u.extend(ord(x) for x in c)
    return u


def units_to_text(u):
    return "".join(chr(x) for x in u)


def text_to_chars(text):
    """Printed text -> abstract characters; None if a character is outside the model's alphabet."""
    out = []
    i = 0
    while i < len(text):
        c = text[i]
        if c == "u" and out and out[-1] == "BS" and (len(out) < 2 or out[-2] != "BS" or _bs_run(out) % 2 == 1) and text[i + 1:i + 5].upper() in HEXGROUPS:
            out.append("u")
            out.append("U" + text[i + 1:i + 5].upper())
            i += 5
            continue
        if c in INV:
            out.append(INV[c])
        elif c in LEX_LETTERS or c in LEX_DIGITS or c in LEX_PUNCT:
            out.append(c)
        elif ord(c) == HS_UNIT:
            out.append("HS")
        else:
            return None
        i += 1
    return out


def _bs_run(out):
    n = 0
    for c in reversed(out):
        if c != "BS":
            break
        n += 1
    return n


def val_text(v):
    """Value of a model token (a sequence of abstract characters, or a punctuator string) as a list of code units."""
    if isinstance(v, str):
        return chars_to_units([v])
    return chars_to_units(v)


def tree_values(node, acc):
    """Literal values of an hparse tree in source order: (class, value)."""
    if isinstance(node, dict):
        for st in node.get("body", []):
            tree_values(st, acc)
        return acc
    if not isinstance(node, list) or not node:
        return acc
    k = node[0]
    if k in ("id", "dot", "key") and len(node) == 2 and not isinstance(node[1], list):
        acc.append(("name", units_of(node[1])))
    elif k == "str":
        acc.append(("str", units_of(node[1])))
    elif k == "chunk":
        acc.append(("tpl", units_of(node[1])))
    elif k == "tpl" and node[1] == []:
        acc.append(("tpl", []))
    elif k == "num":
        acc.append(("num", float(node[1])))
    elif k == "big":
        acc.append(("big", int(node[1])))
    elif k == "regex":
        acc.append(("regex", units_of(node[1]) + [ord("/")] + units_of(node[2])))
    if isinstance(k, str):
        for ch in node[1:]:
            if isinstance(ch, list):
                tree_values(ch, acc)
    else:
        for ch in node:
            tree_values(ch, acc)
    return acc


def units_of(x):
    if isinstance(x, dict):
        return list(x["u16"])
    out = []
    for ch in x:
        o = ord(ch)
        if o > 0xFFFF:
            o -= 0x10000
            out += [0xD800 + (o >> 10), 0xDC00 + (o & 0x3FF)]
        else:
            out.append(o)
    return out


def model_values(toks):
    """(class, value) list of a model token list, punctuators dropped, in the vocabulary of tree_values."""
    out = []
    for t in toks:
        c = t["c"]
        if c == "punct":
            continue
        if c == "id":
            out.append(("name", val_text(t["v"])))
        elif c in ("str", "tpl", "regex"):
            out.append((c, val_text(t["v"])))
        elif c == "num":
            out.append(("num", float(units_to_text(val_text(t["v"])))))
        elif c == "big":
            out.append(("big", int(units_to_text(val_text(t["v"])))))
        else:
            out.append((c, val_text(t["v"])))
    return out


def same_values(model, impl, keys_as_names):
    """Model token values vs. values found in the implementation's AST.  A property key is a name in the AST
    whatever its spelling (identifier, string, canonical number)."""
    if len(model) != len(impl):
        return False
    for (mc, mv), (ic, iv) in zip(model, impl):
        if keys_as_names and ic == "name" and mc in ("str", "num", "name"):
            mvs = mv if mc != "num" else [ord(x) for x in num_to_key(mv)]
            if mvs != iv:
                return False
        elif keys_as_names and ic == "num" and mc in ("num", "str"):
            # boa keeps numeric keys as computed numeric literals
            try:
                mf = mv if mc == "num" else float(units_to_text(mv))
            except ValueError:
                return False
            if mf != iv or (mc == "str" and num_to_key(iv) != units_to_text(mv)):
                return False
        elif (mc, mv) != (ic, iv):
            return False
    return True


def num_to_key(x):
    return str(int(x)) if x == int(x) else repr(x)


CLS_STR = "string literal whose content needs an escape (quote, backslash, LF or CR) is printed raw"
CLS_TPL = "template literal whose cooked content needs an escape (backtick, backslash, CR or ${) is printed raw"
CLS_KEY = "property key that needs quotes (not an identifier name / canonical number) is printed bare"
CLS_KEYNUM = "quoted property key that is a canonical numeric string is printed bare and read back as a numeric literal key"
CLS_NUMDOT = "numeric literal followed by a member access is printed so that its dot is read as a decimal point"
CLS_FORAWAIT = "`for await (... of ...)` is printed as a plain `for (... of ...)`"
CLS_INF = "numeric literal that overflows to Infinity is printed as `inf`"
CLS_DIRECTIVE = "string expression statement spelled with an escape is printed as a directive"
NEEDS_ESCAPE = {"str": {"DQ", "BS", "LF", "CR"}, "tpl": {"BT", "BS", "CR", "DOL"}}


def lexical_class(case):
    """Class label of a lexical case with a confirmed printer defect, else None (known findings are per class)."""
    tag = case["tag"]
    toks = case["out"]
    if tag.startswith("str-") or tag.startswith("key-computed"):
        for t in toks:
            if t["c"] == "str" and set(t["v"]) & NEEDS_ESCAPE["str"]:
                return CLS_STR
    if tag.startswith("tpl-"):
        for t in toks:
            if t["c"] == "tpl" and (set(t["v"]) & {"BT", "BS", "CR"} or _has_dollar_brace(t["v"])):
                return CLS_TPL
    if tag.startswith("key-quoted"):
        cls = tag.split(" ", 1)[1]
        if cls.startswith("needs-quotes") or cls.startswith("non-canonical-numeric"):
            return CLS_KEY
        if cls.startswith("canonical-numeric"):
            return CLS_KEYNUM
    if tag.startswith("num-member"):
        return CLS_NUMDOT
    return None


def _has_dollar_brace(v):
    return any(v[i] == "DOL" and v[i + 1] == "LB" for i in range(len(v) - 1))


def run_lexical(ck, tier, hparse):
    r = vlib.run_tlc(os.path.join(SPECDIR, "MCSyntaxLex.tla"), "MCSyntaxLex.cfg", workers=3, coverage=(tier == "thorough"), timeout=1500)
    vlib.tlc_must_pass(r, "SyntaxLex")
    ck.add("states", r["distinct"])
    ck.add("transitions", r["states"])
    if tier == "thorough":
        check_coverage(r["raw_tail"], ["Top", "InString", "Escape", "InTemplate", "InNumber", "InIdent", "InRegex", "RegexFlags"])
    cases = {}
    for tag, o in r["tagged"]:
        if tag == "LEX":
            cases[(o["tag"], tuple(o["chars"]))] = o
    if len(cases) < 300:
        raise vlib.ToolError("lexical: TLC emitted %d cases" % len(cases))
    # texts that denote their intended tokens are sent to the implementation
    keys = sorted(k for k, c in cases.items() if c["st"] == "ok" and c["ok"])
    scen = []
    for i, k in enumerate(keys):
        u = chars_to_units(cases[k]["chars"])
        scen.append({"id": i, "src": units_to_text(u), "tree": True})
    res = vlib.run_lines(hparse, scen)
    relex = []
    nontrivial = 0
    for i, k in enumerate(keys):
        c = cases[k]
        out = res[i]
        text = scen[i]["src"]
        cls = lexical_class(c)
        if any(t["c"] in ("str", "tpl") and not all(x in ("a", "-", "SQ", "LB") or (x == "DOL") for x in t["v"]) for t in c["out"]) or \
                c["tag"].split(" ")[0] in ("key-quoted", "key-computed", "num-member-dotdot", "num-member-paren", "regex", "ident-escape", "keyword-member-escape"):
            nontrivial += 1
        if bad_outcome(ck, out, "lexical", text):
            continue
        if "ok" not in out["r1"]:
            ck.failure("lexical reject %s %s" % (c["tag"], json.dumps(text)), {"text": text, "case": c["tag"], "boa": out["r1"]})
            continue
        impl = tree_values(out["tree"], [])
        mod = model_values(c["out"])
        if not same_values(mod, impl, c["tag"].startswith("key-")):
            ck.failure("lexical value %s %s" % (c["tag"], json.dumps(text)), {"text": text, "case": c["tag"], "model": mod, "boa": impl})
            continue
        ck.add("evaluations")
        sig = ("lexical roundtrip " + cls) if cls else None
        if not roundtrip_ok(ck, out, "lexical", text, sig=sig):
            continue
        relex.append((k, out["p1"], sig))
    ck.cov["lexical_cases"] = {"model": len(cases), "sent": len(keys)}
    n2 = model_relex(ck, cases, relex)
    ck.cov["lexical_relexed_by_model"] = n2
    return nontrivial


def model_relex(ck, cases, relex):
    """boa's printed text, mapped to the abstract alphabet, must re-lex UNDER THE MODEL LEXER to the same values."""
    os.makedirs(WORKDIR, exist_ok=True)
    path = os.path.join(WORKDIR, "relex-%d.ndjson" % os.getpid())
    sent = []
    with open(path, "w") as f:
        for i, (k, p1, sig) in enumerate(relex):
            chars = text_to_chars(p1)
            if chars is None:
                ck.failure(sig or ("lexical print-alphabet %s" % json.dumps(p1)), {"print": p1, "what": "printed text uses characters outside the alphabet of the case"})
                continue
            f.write(json.dumps({"id": i, "chars": chars}) + "\n")
            sent.append(i)
    if not sent:
        return 0
    r = vlib.run_tlc(os.path.join(SPECDIR, "SyntaxLexRun.tla"), "SyntaxLexRun.cfg", workers=3, env_extra={"C19_CHARS": path}, timeout=1500)
    vlib.tlc_must_pass(r, "SyntaxLexRun")
    os.unlink(path)
    got = {o["id"]: o for tag, o in r["tagged"] if tag == "LEXRUN"}
    if len(got) != len(sent):
        raise vlib.ToolError("SyntaxLexRun: %d results for %d inputs" % (len(got), len(sent)))
    ck.add("states", r["distinct"])
    ck.add("transitions", r["states"])
    for i in sent:
        k, p1, sig = relex[i]
        c = cases[k]
        o = got[i]
        want = model_values(c["out"])
        have = model_values(o["out"]) if o["st"] == "ok" else None
        if have is None or not same_relex(want, have, c["tag"].startswith("key-")):
            ck.failure(sig or ("lexical print %s %s" % (c["tag"], json.dumps(units_to_text(chars_to_units(c["chars"]))))),
                       {"case": c["tag"], "print": p1, "model_lex_of_print": o, "want": c["out"]})
    return len(sent)


def same_relex(want, have, keys):
    if len(want) != len(have):
        return False
    for (wc, wv), (hc, hv) in zip(want, have):
        if keys and {wc, hc} <= {"name", "str", "num"}:
            a = [ord(x) for x in num_to_key(wv)] if wc == "num" else wv
            b = [ord(x) for x in num_to_key(hv)] if hc == "num" else hv
            if a != b:
                return False
        elif (wc, wv) != (hc, hv):
            return False
    return True


# ------------------------------------------------------------------------------------------------ known-defect features of a text

SIMPLE_ESC = {"n": "\n", "t": "\t", "b": "\b", "v": "\v", "f": "\f", "r": "\r"}
ESC_RE = re.compile(r"\\(u\{[0-9a-fA-F]+\}|u[0-9a-fA-F]{4}|x[0-9a-fA-F]{2}|[0-3][0-7]{0,2}|[4-7][0-7]?|\r\n|[\s\S])")


def cook(raw, template=False):
    """Cooked value (a Python str of UTF-16 units) of the inside of a string literal / template chunk."""
    def rep(m):
        e = m.group(1)
        if e[0] == "u":
            cp = int(e[2:-1], 16) if e[1] == "{" else int(e[1:], 16)
            if cp > 0x10FFFF:
                return ""
            if cp > 0xFFFF:
                cp -= 0x10000
                return chr(0xD800 + (cp >> 10)) + chr(0xDC00 + (cp & 0x3FF))
            return chr(cp)
        if e[0] == "x" and len(e) == 3:
            return chr(int(e[1:], 16))
        if e[0] in "01234567":
            return chr(int(e, 8))
        if e in ("\r\n", "\n", "\r", "\u2028", "\u2029"):
            return ""
        return SIMPLE_ESC.get(e, e)
    out = ESC_RE.sub(rep, raw)
    if template:
        out = out.replace("\r\n", "\n").replace("\r", "\n")
    return out


def to_units_str(text):
    """Python str -> str whose characters are UTF-16 code units."""
    return "".join(chr(u) for u in units_of(text))


IDENT_NAME = re.compile(r"^[A-Za-z_$][A-Za-z0-9_$]*$")


def is_canonical_numeric(s):
    try:
        x = float(s)
    except ValueError:
        return False
    return num_to_key(x) == s and x == x and abs(x) < 1e21


def tpl_chunks(tok):
    """Pieces of a template token outside `${ }`: list of (start, end) offsets into the token text."""
    out = []
    i, n = 1, len(tok) - 1
    start = 1
    depth = 0
    while i < n:
        if depth == 0 and tok[i] == "\\":
            i += 2
            continue
        if depth == 0 and tok.startswith("${", i):
            out.append((start, i))
            depth = 1
            i += 2
            continue
        if depth > 0:
            if tok[i] == "{":
                depth += 1
            elif tok[i] == "}":
                depth -= 1
                if depth == 0:
                    start = i + 1
        i += 1
    out.append((start, n))
    return out


def features(toks):
    """Known printer-defect classes present in a token list of lex_js: {class: [token indices]}."""
    f = {}
    real = [(i, c, t) for i, (c, t) in enumerate(toks) if c != "nl"]
    for j, (i, c, t) in enumerate(real):
        nxt = real[j + 1][2] if j + 1 < len(real) else ""
        prv = real[j - 1][2] if j > 0 else ""
        if c == "str":
            v = cook(t[1:-1])
            if any(x in v for x in '"\\\n\r'):
                f.setdefault(CLS_STR, []).append(i)
            if nxt in (":", "(") and not IDENT_NAME.match(v) and not is_canonical_numeric(v):
                f.setdefault(CLS_KEY, []).append(i)
            if nxt in (":", "(") and is_canonical_numeric(v):
                f.setdefault(CLS_KEYNUM, []).append(i)
            if "\\" in t and v == "use strict":
                f.setdefault(CLS_DIRECTIVE, []).append(i)
        elif c == "tpl":
            for a, b in tpl_chunks(t):
                raw = t[a:b]
                v = cook(raw, True)
                if any(x in v for x in "`\\") or "${" in v:
                    f.setdefault(CLS_TPL, []).append(i)
                    break
        elif c == "num":
            tt = t.replace("_", "")
            try:
                x = float(int(tt, 0)) if re.match(r"0[xXoObB]", tt) else (None if tt.endswith("n") else float(tt))
            except (ValueError, OverflowError):
                x = float("inf")
            if x == float("inf"):
                f.setdefault(CLS_INF, []).append(i)
            if nxt == "." and x is not None and x == int(x) and abs(x) < 1e21 and x != float("inf"):
                f.setdefault(CLS_NUMDOT, []).append(i)
            if t.endswith(".") and real[j + 1][1] == "id" if j + 1 < len(real) else False:
                f.setdefault(CLS_NUMDOT, []).append(i)
        elif c == "id" and t == "for" and nxt == "await":
            f.setdefault(CLS_FORAWAIT, []).append(real[j + 1][0])
    return f


def neutralise(src_toks, classes):
    """The text with every occurrence of the given defect classes replaced by a harmless token."""
    toks = list(src_toks)
    f = features(toks)
    n = 0
    for cls in classes:
        for i in f.get(cls, []):
            c, t = toks[i]
            n += 1
            if c == "str":
                toks[i] = (c, '"s%d"' % n)
            elif c == "tpl":
                out = t
                for a, b in reversed(tpl_chunks(t)):
                    out = out[:a] + re.sub(r"\\[\s\S]", "_", out[a:b]) + out[b:]
                toks[i] = (c, out)
            elif c == "num":
                toks[i] = (c, "(1)" if cls == CLS_NUMDOT else "1")
            elif c == "id":
                toks[i] = ("nl", " ")
    return untokenise(toks)


def untokenise(toks):
    out = []
    for c, t in toks:
        if c == "nl":
            out.append("\n")
        else:
            out.append(t)
            out.append(" ")
    return "".join(out)


class Pending:
    """Round-trip failures on free texts are attributed to known defect classes by masking: the text with all
    known classes neutralised must pass; a class is a culprit iff the text with all OTHER classes neutralised fails."""

    def __init__(self, ck, hparse):
        self.ck, self.hparse = ck, hparse
        self.items = []

    def add(self, where, text, goal, out):
        self.items.append((where, text, goal, out))

    def resolve(self):
        ck = self.ck
        scen = []
        plan = []
        for n, (where, text, goal, out) in enumerate(self.items):
            try:
                toks = lex_js(text)
            except LexError:
                toks = None
            f = features(toks) if toks else {}
            if not f:
                plan.append((n, None, []))
                continue
            classes = sorted(f)
            ids = {}
            ids["all"] = len(scen)
            scen.append({"id": len(scen), "src": neutralise(toks, classes), "goal": goal})
            for c in classes:
                ids[c] = len(scen)
                scen.append({"id": len(scen), "src": neutralise(toks, [x for x in classes if x != c]), "goal": goal})
            plan.append((n, ids, classes))
        res = vlib.run_lines(self.hparse, scen) if scen else {}
        for n, ids, classes in plan:
            where, text, goal, out = self.items[n]
            if ids is None:
                roundtrip_ok(ck, out, where, text)
                continue
            allout = res[ids["all"]]
            if "ok" not in allout.get("r1", {}) or not quiet_roundtrip(allout):
                # still failing with every known class masked (or the masked text is not a program): a new failure
                roundtrip_ok(ck, out, where, text)
                continue
            culprits = [c for c in classes if "ok" in res[ids[c]].get("r1", {}) and not quiet_roundtrip(res[ids[c]])]
            if not culprits:
                roundtrip_ok(ck, out, where, text)
                continue
            for c in culprits:
                roundtrip_ok(ck, out, where, text, sig="lexical roundtrip " + c)


def quiet_roundtrip(out):
    class Q:
        def failure(self, *a):
            return True
    return roundtrip_ok(Q(), out, "", "")


# ------------------------------------------------------------------------------------------------ corpus: round trip and traces

NONDET = re.compile(r"\b(Date|random|now|performance|toString|toSource|stack|Temporal|toLocale\w*|Intl|gc|WeakRef|FinalizationRegistry|lineNumber|columnNumber)\b")


def load_corpus(tier):
    sys.path.insert(0, os.path.join(vlib.ROOT, "tools"))
    items = []
    for name in ("extracted.jsonl", "hand.jsonl"):
        path = os.path.join(vlib.ROOT, "corpus", "c03", name)
        if os.path.exists(path):
            for n, line in enumerate(open(path)):
                d = json.loads(line)
                items.append(("c03/%s#%d" % (name, n), d["src"], "module" if d.get("kind") == "module" else "script"))
    c01 = os.path.join(vlib.ROOT, "corpus", "c01")
    if os.path.isdir(c01):
        try:
            import jscore
            for fn in sorted(x for x in os.listdir(c01) if x.endswith(".ndjson")):
                for n, line in enumerate(open(os.path.join(c01, fn))):
                    d = json.loads(line)
                    try:
                        items.append(("c01/%s#%d" % (fn, n), jscore.render(d["ast"]), "script"))
                    except Exception:
                        pass
        except ImportError:
            pass
    return items


HJS_CFG = {"loop": 20000, "rec": 300}


def trace_of(r):
    if r is None:
        return None
    if "panic" in r or "abort" in r:
        return {"crash": r.get("panic") or r.get("abort")}
    return [[s.get("out"), s.get("c")] for s in r.get("steps", [])]


def run_corpus(ck, tier, hparse, hjs):
    items = load_corpus(tier)
    if len(items) < 1000:
        raise vlib.ToolError("corpus: only %d texts found" % len(items))
    rnd = random.Random(vlib.seed())
    if tier == "quick":
        # the seed selects the slice; the texts with known-defect features are always included
        keep = [it for it in items if quick_feature(it[1])]
        rest = [it for it in items if not quick_feature(it[1])]
        rnd.shuffle(rest)
        items = keep + rest[:1500]
    scen = [{"id": i, "src": src, "goal": goal} for i, (name, src, goal) in enumerate(items)]
    res = vlib.run_lines(hparse, scen)
    pend = Pending(ck, hparse)
    ev = []
    accepted = 0
    for i, (name, src, goal) in enumerate(items):
        out = res[i]
        if bad_outcome(ck, out, "corpus", src):
            continue
        totality_ok(ck, out, "corpus", src_units=units_of(src), text=src)
        if "ok" not in out["r1"]:
            continue
        accepted += 1
        if out.get("noprint"):
            continue
        if quiet_roundtrip(out):
            ck.add("evaluations")
            if goal == "script" and not NONDET.search(src):
                ev.append((src, out["p1"]))
        else:
            pend.add("corpus", src, goal, out)
    pend.resolve()
    ck.cov["corpus"] = {"texts": len(items), "accepted": accepted, "roundtrip_failures_attributed": len(pend.items)}
    n = compare_traces(ck, hjs, ev, "corpus")
    ck.cov["corpus"]["traces_compared"] = n
    return len(items)


def quick_feature(src):
    try:
        return bool(features(lex_js(src)))
    except LexError:
        return False


def compare_traces(ck, hjs, pairs, where, prelude=None, drive=None):
    """S4: the printed program evaluates to the same trace as the original (fresh context each)."""
    scen = []
    for i, (src, printed) in enumerate(pairs):
        for j, text in enumerate((src, printed)):
            steps = []
            if prelude:
                steps.append({"kind": "eval", "src": prelude})
            steps.append({"kind": "eval", "src": text})
            if drive:
                steps.append({"kind": "eval", "src": drive})
            steps.append({"kind": "jobs"})
            scen.append({"id": 2 * i + j, "cfg": HJS_CFG, "steps": steps})
    res = vlib.run_lines(hjs, scen) if scen else {}
    n = 0
    for i, (src, printed) in enumerate(pairs):
        a, b = trace_of(res.get(2 * i)), trace_of(res.get(2 * i + 1))
        n += 1
        if a != b:
            ck.failure("%s trace %s" % (where, shrink_label(src)), {"text": src, "print": printed, "trace_source": a, "trace_print": b})
    return n


# ------------------------------------------------------------------------------------------------ totality

def line_bounds(units):
    """Number of lines and the longest line (in code units) of a text: generous bounds for error positions."""
    lines = 1
    longest = cur = 0
    for u in units:
        if u in (0x0A, 0x0D, 0x2028, 0x2029):
            lines += 1
            longest = max(longest, cur)
            cur = 0
        else:
            cur += 1
    return lines, max(longest, cur)


def loose_variants(units):
    raw = "".join(chr(u) for u in units)
    try:
        cooked = cook(raw)
    except Exception:
        cooked = raw
    vs = [raw, cooked, raw.replace("\r\n", "\n").replace("\r", "\n"), cooked.replace("\r\n", "\n").replace("\r", "\n")]
    return vs


def flags_permutation(su, raw):
    """boa interns the flags of a regular expression literal in sorted order (`/x/sm` -> "ms")."""
    if not (1 < len(su) <= 8 and set(su) <= set("dgimsuvy")):
        return False
    key = sorted(su)
    n = len(su)
    return any(sorted(raw[i:i + n]) == key for i in range(len(raw) - n + 1))


def totality_ok(ck, out, where, src_units, text, label=None):
    """Error position inside the text; strings interned by the parser occur in the text."""
    label = label or shrink_label(text if isinstance(text, str) else repr(text))
    r1 = out.get("r1", {})
    ok = True
    if "err" in r1 and "line" in r1["err"]:
        lines, longest = line_bounds(src_units)
        e = r1["err"]
        for lk, ckey in (("line", "col"), ("eline", "ecol")):
            if lk in e and not (1 <= e[lk] <= lines + 1 and 1 <= e[ckey] <= longest + 2):
                ck.failure("%s error-position %s" % (where, label), {"text": text, "error": e, "lines": lines, "longest_line": longest})
                ok = False
                break
    vs = None
    for s in out.get("new1", []):
        su = "".join(chr(u) for u in units_of(s))
        if vs is None:
            vs = loose_variants(src_units)
        if su and not any(su in v for v in vs) and not flags_permutation(su, vs[0]):
            ck.failure("%s interned-foreign-string %s" % (where, label), {"text": text, "interned": s})
            ok = False
            break
    return ok


# ------------------------------------------------------------------------------------------------ mutants

BRACKETS = ["(", ")", "[", "]", "{", "}"]
INSERTS = ["(", ")", "[", "]", "{", "}", ",", ";", "=>", "?.", "...", "`", "${", "/", "*", "**", "++", "=", "?", ":", ".", "#x",
           "async", "await", "yield", "function", "class", "new", "let", "of", "in", "for", "static", "get", "set", "import", "export",
           "0x", "1e", "1n", "'", '"', "\\", "\\u", "\\u{110000}", "/*", "//", "<!--", "\n", " ", "@"]
NESTS = [("(", ")"), ("[", "]"), ("{", "}"), ("(function(){", "})"), ("`${", "}`"), ("a=>", ""), ("-", ""), ("new ", ""), ("!", ""),
         ("f(", ")"), ("[...", "]"), ("({a:", "})"), ("async()=>{await ", "}"), ("class A{static{", "}}"), ("a?.[", "]"), ("a?b:", ""),
         ("x=", ""), ("{a:", "}"), ("label:", ""), ("if(a)", ""), ("do ", " while(0)"), ("try{", "}catch{}"), ("a,", "")]
BAD_UTF8 = [b"\xff", b"\xc0\x80", b"\xed\xa0\x80", b"\xe2\x82", b"\xf4\x90\x80\x80", b"\x80", b"\xf8\x88\x80\x80\x80", b"\xc3", b"\xef\xbf\xbe"]


def lenient_utf8(b):
    """The decoder of boa_parser::source::UTF8Input (it does not validate): code points of a byte string."""
    out = []
    i, n = 0, len(b)

    def nxt():
        nonlocal i
        if i < n:
            v = b[i]
            i += 1
            return v
        return 0
    while i < n:
        x = nxt()
        if x < 128:
            out.append(x)
            continue
        init = x & 0x1F
        y = nxt()
        ch = (init << 6) | (y & 0x3F)
        if x >= 0xE0:
            z = nxt()
            y_z = ((y & 0x3F) << 6) | (z & 0x3F)
            ch = ((init << 12) | y_z) & 0xFFFFFFFF
            if x >= 0xF0:
                w = nxt()
                ch = (((init & 7) << 18) | ((y_z << 6) | (w & 0x3F))) & 0xFFFFFFFF
        out.append(ch)
    return out


def mutants(rnd, texts, n):
    """Seeded token-level mutants: (label, scenario fields, text for the report, source code units)."""
    out = []
    pool = []
    for t in texts:
        try:
            toks = [x for x in lex_js(t)]
        except LexError:
            continue
        if 3 <= len(toks) <= 400:
            pool.append((t, toks))
    if not pool:
        return out
    while len(out) < n:
        t, toks = rnd.choice(pool)
        kind = rnd.choice(["delete", "dup", "swap", "unbalance", "insert", "nest", "nest", "surrogate", "utf8", "truncate", "splice"])
        toks2 = list(toks)
        k = rnd.randrange(len(toks2))
        if kind == "delete":
            del toks2[k]
            text = untokenise(toks2)
        elif kind == "dup":
            toks2.insert(k, toks2[k])
            text = untokenise(toks2)
        elif kind == "swap":
            j = min(k + 1, len(toks2) - 1)
            toks2[k], toks2[j] = toks2[j], toks2[k]
            text = untokenise(toks2)
        elif kind == "unbalance":
            idx = [i for i, (c, x) in enumerate(toks2) if x in BRACKETS]
            if idx:
                i = rnd.choice(idx)
                if rnd.random() < 0.5:
                    del toks2[i]
                else:
                    toks2[i] = ("punct", rnd.choice(BRACKETS))
            else:
                toks2.insert(k, ("punct", rnd.choice(BRACKETS)))
            text = untokenise(toks2)
        elif kind == "insert":
            for _ in range(rnd.choice([1, 1, 2, 3])):
                toks2.insert(rnd.randrange(len(toks2) + 1), ("punct", rnd.choice(INSERTS)))
            text = untokenise(toks2)
        elif kind == "nest":
            a, b = rnd.choice(NESTS)
            depth = rnd.choice([2, 8, 33, 64])
            inner = rnd.choice([t, "a", "", untokenise(toks2[:k])])
            text = a * depth + inner + b * (depth if rnd.random() < 0.8 else depth - 1)
        elif kind == "truncate":
            text = t[:rnd.randrange(len(t) + 1)]
        elif kind == "splice":
            t2, toksb = rnd.choice(pool)
            text = untokenise(toks2[:k] + toksb[rnd.randrange(len(toksb)):])
        else:
            text = t
        if kind == "surrogate":
            u = units_of(t)
            for _ in range(rnd.choice([1, 2])):
                u.insert(rnd.randrange(len(u) + 1), rnd.choice([0xD800, 0xDBFF, 0xDC00, 0xDFFF]))
            fields = {"u16": u}
            units = u
            shown = "".join(chr(x) if not 0xD800 <= x <= 0xDFFF else "\\u%04X" % x for x in u)
        elif kind == "utf8":
            b = bytearray(t.encode("utf-8"))
            for _ in range(rnd.choice([1, 2])):
                pos = rnd.randrange(len(b) + 1)
                b[pos:pos] = rnd.choice(BAD_UTF8)
            fields = {"hex": bytes(b).hex()}
            cps = lenient_utf8(bytes(b))
            if any(cp > 0x10FFFF or 0xD800 <= cp <= 0xDFFF for cp in cps):
                units = None           # what such a code point becomes inside a literal is not specified: no interning claim
            else:
                units = units_of("".join(chr(cp) for cp in cps))
            shown = bytes(b).decode("utf-8", "backslashreplace")
        else:
            fields = {"src": text}
            units = units_of(text)
            shown = text
        out.append((kind, fields, shown, units))
    return out


def run_mutants(ck, tier, hparse):
    rnd = random.Random(vlib.seed() * 7919 + 19)
    texts = [src for _, src, _ in load_corpus(tier)]
    n = 2500 if tier == "quick" else 30000
    ms = mutants(rnd, texts, n)
    scen = []
    for i, (kind, fields, shown, units) in enumerate(ms):
        sc = {"id": i, "goal": "module" if i % 4 == 3 else "script", "timeout_ms": 20000}
        sc.update(fields)
        scen.append(sc)
    res = vlib.run_lines(hparse, scen)
    pend = Pending(ck, hparse)
    stats = {"ok": 0, "err": 0}
    kinds = {}
    for i, (kind, fields, shown, units) in enumerate(ms):
        out = res[i]
        kinds[kind] = kinds.get(kind, 0) + 1
        if bad_outcome(ck, out, "mutant", shown):
            continue
        if units is not None:
            totality_ok(ck, out, "mutant", src_units=units, text=shown)
        else:
            ck.add("mutants_without_interning_claim")
        if "ok" in out["r1"]:
            stats["ok"] += 1
            if "src" in fields and not out.get("noprint") and not quiet_roundtrip(out):
                pend.add("mutant", fields["src"], scen[i]["goal"], out)
        else:
            stats["err"] += 1
        ck.add("evaluations")
    pend.resolve()
    ck.cov["mutants"] = {"n": len(ms), "accepted": stats["ok"], "rejected": stats["err"], "kinds": kinds}
    if stats["err"] < len(ms) // 5 or stats["ok"] < len(ms) // 50:
        raise vlib.ToolError("mutants: implausible accept/reject split %r" % stats)
    return len(ms)


# ------------------------------------------------------------------------------------------------ generic outcome checks

def bad_outcome(ck, out, where, text):
    """Panic / abort / hang are observations no model allows."""
    for key in ("panic", "abort", "hang"):
        if key in out:
            what = str(out[key])
            what = re.sub(r"\s+", " ", what)[:160]
            ck.failure("%s %s %s" % (where, key, shrink_label(text)), {"text": text, key: out[key], "stage": out.get("stage")})
            return True
    return False


def shrink_label(text):
    return text if len(text) <= 120 else text[:117] + "..."


def roundtrip_ok(ck, out, where, text, sig=None):
    """S3 on one hparse result whose first parse succeeded. Returns True when the round trip is a fixed point."""
    sig = sig or (where + " roundtrip " + shrink_label(text))
    if out.get("noprint"):
        return True
    if "ok" not in out.get("r2", {}):
        ck.failure(sig, {"text": text, "what": "printed text does not parse", "print": out.get("p1"), "error": out.get("r2")})
        return False
    if not out.get("eq12"):
        ck.failure(sig, {"text": text, "what": "AST of the printed text differs from the AST of the source", "print": out.get("p1"), "diff": out.get("diff12")})
        return False
    if not out.get("p2same") or "ok" not in out.get("r3", {}) or not out.get("eq23") or not out.get("p3same"):
        ck.failure(sig, {"text": text, "what": "parse-print is not a fixed point from the first printed form on", "print": out.get("p1"), "print2": out.get("p2")})
        return False
    # strings interned while re-parsing must occur in the text that was parsed (the printed one)
    pv = None
    for s_ in (out.get("new2") or []) + (out.get("new3") or []):
        su = "".join(chr(u) for u in units_of(s_))
        if pv is None:
            pv = loose_variants(units_of(out["p1"]))
        if su and not any(su in v for v in pv) and not flags_permutation(su, pv[0]):
            ck.failure(sig, {"text": text, "what": "re-parsing the printed text interned a string that does not occur in it", "interned": s_, "print": out["p1"]})
            return False
    return True


# ------------------------------------------------------------------------------------------------ entry

def run(tier, replay=None):
    ck = vlib.Check("C19", tier, "model_checking", replay)
    bindir = vlib.build_harness(["hparse", "hpeval"])
    hparse = os.path.join(bindir, "hparse")
    hjs = os.path.join(bindir, "hpeval")
    phases = (os.environ.get("C19_PHASES") or "struct,lex,corpus,mutants").split(",")      # development only
    nontrivial = 0
    if "struct" in phases:
        cases, reparse, nt = run_structural(ck, tier, hparse, hjs)
        nontrivial += nt
        ck.cov["structural_reparsed_by_model"] = model_reparse(ck, reparse)
    if "lex" in phases:
        nontrivial += run_lexical(ck, tier, hparse)
    if "corpus" in phases:
        run_corpus(ck, tier, hparse, hjs)
    if "mutants" in phases:
        run_mutants(ck, tier, hparse)
    ck.cov["distinct_nontrivial"] = nontrivial
    sc, lc, co = ck.cov.get("structural_cases", {}), ck.cov.get("lexical_cases", {}), ck.cov.get("corpus", {})
    # model-emitted cases replayed into boa_parser + printed texts re-parsed / re-lexed under the model by TLC
    ck.cov["traces_validated_against_impl"] = (sum(sc.values()) + lc.get("sent", 0) + ck.cov.get("structural_reparsed_by_model", 0)
                                               + ck.cov.get("lexical_relexed_by_model", 0))
    ck.cov["rule"] = ("structural and lexical cases are the states TLC enumerates for Syntax.tla / SyntaxLex.tla (each a token sequence "
                      "with the model's verdict and AST); corpus texts and seeded token-level mutants come on top; non-trivial = an "
                      "accepted case whose printed form needs at least one parenthesis, escape or separator decision")
    return ck.finish()
